"""C01.R2 (operator spelling chain) and C01.R3 (strict typing tables)  - DESIGN section 2 C01, data sheets A.2 / A.3.

R2 folds, link by link, what happens to an operator from its source spelling to the Python operator that a
holder finally applies:  lexer tables -> token id -> parser map -> string stored on the node -> operator.MAPPING
-> MesonOperator member -> evaluator call -> holder table entry -> Python operator and operand order.
R3 compares the effective operator table of the primitive holders (operators supported, operand guard of each)
with the reference table derived from docs/yaml/elementary/*.yml + Syntax.md.
"""
from __future__ import annotations

import ast
import typing as T

from ..core import Module, Repo, Undecided, norm, short, attr_chain
from ..report import RuleCtx
from ..consteval import fold_const, Regex, EnumMember, Opaque
from .. import tables, rx
from ..tables import Atom
from .c01_sym import SymPath, sym_paths, is_call, show, subterms, private_helpers, module_helpers, fold_expr
from .c01_parser import MPARSER, mro_cached, _summaries, semantic, ctor_binding, actual_name
from . import c01_eval
from .c01_eval import IB, EvalFn, views, abstract, fmt, EV, NONE, dispatch_arms, arm_method, rename

BASEOBJ = 'mesonbuild/interpreterbase/baseobjects.py'
DECOR = 'mesonbuild/interpreterbase/decorators.py'
OPERATOR = 'mesonbuild/interpreterbase/operator.py'
PRIM = 'mesonbuild/interpreter/primitives/'
HOLDERS = {'IntegerHolder': PRIM + 'integer.py', 'StringHolder': PRIM + 'string.py', 'BooleanHolder': PRIM + 'boolean.py',
           'ArrayHolder': PRIM + 'array.py', 'DictHolder': PRIM + 'dict.py', 'RangeHolder': PRIM + 'range.py'}

# reference: operator spelling -> (member of MesonOperator that must denote it, Python operator that denotes the same thing)
# provenance: Syntax.md (Arithmetic operations, Comparison, `in`/`not in`, Logical operations, Indexing); `/` on integers is floor division.
BINARY = {'+': ('PLUS', 'Add'), '-': ('MINUS', 'Sub'), '*': ('TIMES', 'Mult'), '/': ('DIV', 'FloorDiv'), '%': ('MOD', 'Mod'),
          '==': ('EQUALS', 'Eq'), '!=': ('NOT_EQUALS', 'NotEq'), '<': ('LESS', 'Lt'), '<=': ('LESS_EQUALS', 'LtE'),
          '>': ('GREATER', 'Gt'), '>=': ('GREATER_EQUALS', 'GtE'), 'in': ('IN', 'In'), 'not in': ('NOT_IN', 'NotIn')}
ARITH = ('+', '-', '*', '/', '%')
PYOP = {m: p for m, p in BINARY.values()}
UNARY = {'not': ('NotNode', 'NOT', 'Not'), '-': ('UMinusNode', 'UMINUS', 'USub')}


# ---------------------------------------------------------------------------
# lexer
# ---------------------------------------------------------------------------

class LexTables:
    def __init__(self, ctx: RuleCtx):
        repo = ctx.repo
        self.mod = mod = repo.module(MPARSER)
        init = mod.func('Lexer.__init__')
        vals: T.Dict[str, ast.AST] = {}
        for st in init.body:
            if isinstance(st, ast.Assign) and len(st.targets) == 1 and attr_chain(st.targets[0]) in ('self.token_specification', 'self.single_char_tokens', 'self.keywords'):
                vals[attr_chain(st.targets[0])] = st.value          # type: ignore[index]
        if len(vals) != 3:
            raise Undecided('Lexer.__init__: token_specification / single_char_tokens / keywords are not plain assignments')
        self.nodes = vals
        env = {'machinefile': False}
        self.spec: T.List[T.Tuple[str, Regex]] = fold_expr(repo, mod, vals['self.token_specification'], env=env)
        self.single: T.Dict[str, str] = fold_expr(repo, mod, vals['self.single_char_tokens'], env=env)
        self.keywords: T.Set[str] = set(fold_expr(repo, mod, vals['self.keywords'], env=env))
        for tid, r in self.spec:
            if not isinstance(r, Regex):
                raise Undecided(f'token_specification entry {tid} is not a compiled regex')
        self._first: T.Dict[T.Tuple[str, int, str], bool] = {}

    # -- facts about the folded tables (nothing is scanned: table lookups and regex-language facts only) -------------
    def index(self, tid: str) -> T.Optional[int]:
        ix = [i for i, (t, _) in enumerate(self.spec) if t == tid]
        return ix[0] if len(ix) == 1 else None

    def literal_language(self, r: Regex) -> T.Optional[str]:
        """The single word of L(r) when the regex is a plain literal (`<=`, `\\+=`), else None."""
        items = list(rx.parse(r.pattern, r.flags))
        if items and all(op is rx.sre_c.LITERAL for op, _ in items):
            return ''.join(chr(av) for _, av in items)
        return None

    def can_start_with(self, r: Regex, ch: str) -> bool:
        """Regex-language fact: some word of L(r) begins with `ch` (first-character set on the Thompson NFA)."""
        key = (r.pattern, r.flags, ch)
        if key not in self._first:
            nfa = rx.build(r.pattern, r.flags)
            self._first[key] = bool(nfa.step(nfa.closure([nfa.start]), ch))
        return self._first[key]

    def token_of(self, word: str) -> T.Tuple[T.Optional[str], str]:
        """Token id the tables assign to the operator spelling `word`, decided from
        (1) a specification whose language is exactly {word} and that no earlier specification can pre-empt,
        (2) membership in the keyword set + the identifier language (keyword promotion is checked structurally),
        (3) the single-character table, where only longer *literal* operator tokens may begin with the character."""
        lit = [(i, t) for i, (t, r) in enumerate(self.spec) if self.literal_language(r) == word]
        if len(lit) > 1:
            return None, f'several specifications have the language {{{word}}}: {[t for _, t in lit]}'
        if lit:
            i, t = lit[0]
            early = [self.spec[j][0] for j in range(i) if self.can_start_with(self.spec[j][1], word[0])]
            if early:
                return None, f'specification {t} is pre-empted by the earlier {early}, which can also begin with {word[0]!r}'
            return t, f'specification {t} has the language {{{word}}}'
        if word in self.keywords:
            i_id = self.index('id')
            if i_id is None:
                return None, 'no `id` specification'
            if not rx.full_matches(self.spec[i_id][1].pattern, word, self.spec[i_id][1].flags):
                return None, f'keyword {word} is not in the identifier language'
            early = [self.spec[j][0] for j in range(i_id) if self.can_start_with(self.spec[j][1], word[0])]
            if early:
                return None, f'keyword {word} can be pre-empted by the earlier {early}'
            return word, f'{word} is an identifier in self.keywords'
        if len(word) == 1 and word in self.single:
            longer = [(t, self.literal_language(r)) for t, r in self.spec if self.can_start_with(r, word)]
            bad = [t for t, l in longer if l is None or not l.startswith(word) or len(l) < 2]
            if bad:
                return None, f'specification(s) {bad} can begin with {word!r} and are not longer literal operators'
            return self.single[word], f'single_char_tokens[{word!r}]'
        return None, f'neither a literal specification, a keyword nor a single-character token'

    def tokens_of(self, spelling: str) -> T.Tuple[T.Tuple[T.Optional[str], ...], T.List[str]]:
        ts, whys = [], []
        for w in spelling.split(' '):
            t, why = self.token_of(w)
            ts.append(t)
            whys.append(why)
        return tuple(ts), whys


def check_lexer_algorithm(ctx: RuleCtx, lt: LexTables) -> None:
    """The folded tables are used the way `LexTables.token_of` reads them: specifications in list order, first match wins,
    single characters as fallback, identifiers that are keywords become their own token.  The selection loop is found by role (the loop over
    self.token_specification, in Lexer.lex or in a helper of Lexer).  Unrecognised shapes are *undecided*."""
    mod = lt.mod
    cls = mod.cls('Lexer')
    loops = [(f, n) for f in cls.body if isinstance(f, ast.FunctionDef) for n in ast.walk(f) if isinstance(n, ast.For) and norm(n.iter) == 'self.token_specification']
    if len(loops) != 1 or not (isinstance(loops[0][1].target, ast.Tuple) and len(loops[0][1].target.elts) == 2 and all(isinstance(x, ast.Name) for x in loops[0][1].target.elts)):
        raise Undecided('Lexer: token selection is not one `for (tid, regex) in self.token_specification` loop')
    owner, lp = loops[0]
    tidv, regv = (x.id for x in lp.target.elts)       # type: ignore[attr-defined]
    matches = [c for c in ast.walk(lp) if isinstance(c, ast.Call) and isinstance(c.func, ast.Attribute) and c.func.attr == 'match' and norm(c.func.value) == regv and len(c.args) == 2]
    if len(matches) != 1:
        raise Undecided('Lexer: the specification loop does not try `regex.match(text, position)` exactly once')
    hit_ifs = [s_ for s_ in lp.body if isinstance(s_, ast.If)]
    if len(hit_ifs) != 1 or any(isinstance(s_, (ast.For, ast.While, ast.Try)) for s_ in lp.body):
        raise Undecided('Lexer: the specification loop body is not `match; if matched: ...`')
    stops = [b for b in hit_ifs[0].body if isinstance(b, (ast.Break, ast.Return))]
    ctx.require(len(stops) == 1 and not hit_ifs[0].orelse, 'Lexer: specifications are tried in order and the first match wins', mod, f'Lexer.{owner.name}', 'token selection: first match wins',
                'the token selection loop does not stop at the first matching specification: a later (shorter) specification can override `<=` / `==` / keywords', hit_ifs[0])
    fn = mod.func('Lexer.lex')
    fallback = [s_ for s_ in ast.walk(fn) if isinstance(s_, ast.Assign) and isinstance(s_.targets[0], ast.Name)
                and isinstance(s_.value, ast.Subscript) and norm(s_.value.value) == 'self.single_char_tokens']
    if len(fallback) != 1:
        raise Undecided('Lexer.lex: single-character fallback `tid = self.single_char_tokens[char]` not found')
    guards_fb = [g for st, g in _guarded(fn.body, []) if st is fallback[0]]
    in_else = bool(lp.orelse) and any(x is fallback[0] for x in ast.walk(ast.Module(body=lp.orelse, type_ignores=[])))
    if not in_else and not (guards_fb and guards_fb[0]):
        raise Undecided('Lexer.lex: cannot relate the single-character fallback to "no specification matched"')
    ctx.ok('Lexer.lex: single characters are the fallback when no specification matches')
    tid_lex = fallback[0].targets[0].id      # type: ignore[attr-defined]
    # keyword promotion
    promo = []
    for st, guards in _guarded(fn.body, []):
        if isinstance(st, ast.Assign) and norm(st.targets[0]) == tid_lex and isinstance(st.value, ast.Name):
            g = [(norm(t), v) for t, v in guards]
            if (f"{tid_lex} == 'id'", True) in g or (f"'id' == {tid_lex}", True) in g:
                promo.append((st.value.id, g))
    if len(promo) != 1:
        raise Undecided(f'Lexer.lex: expected one keyword promotion `{tid_lex} = <text>` under `{tid_lex} == \'id\'`, found {len(promo)}')
    v, g = promo[0]
    sets = [x for x, val in g if val and x.startswith(f'{v} in ')]
    if not sets:
        raise Undecided('Lexer.lex: the keyword promotion is not guarded by a membership test of the token text')
    ctx.require(f'{v} in self.keywords' in sets, 'Lexer.lex: an identifier that is a keyword becomes its own token id', mod, 'Lexer.lex', 'keyword promotion',
                f'keyword promotion `{tid_lex} = {v}` is guarded by {sets}; it must apply exactly to members of self.keywords', fn)


def _guarded(body: T.List[ast.stmt], guards: T.List[T.Tuple[ast.AST, bool]]) -> T.Iterator[T.Tuple[ast.stmt, T.List[T.Tuple[ast.AST, bool]]]]:
    """Statements with the (test, polarity) of the enclosing `if`s (structural control dependence)."""
    for st in body:
        yield st, guards
        if isinstance(st, ast.If):
            yield from _guarded(st.body, guards + [(st.test, True)])
            yield from _guarded(st.orelse, guards + [(st.test, False)])
        elif isinstance(st, (ast.For, ast.While, ast.With)):
            yield from _guarded(st.body, guards)
            yield from _guarded(getattr(st, 'orelse', []), guards)
        elif isinstance(st, ast.Try):
            yield from _guarded(st.body, guards)
            yield from _guarded(st.orelse, guards)
            for h in st.handlers:
                yield from _guarded(h.body, guards)
            yield from _guarded(st.finalbody, guards)


# ---------------------------------------------------------------------------
# holder operator tables
# ---------------------------------------------------------------------------

class Impl(T.NamedTuple):
    op: str                    # MesonOperator member name
    kind: str                  # trivial | method
    owner: str                 # class that defines it
    mod: Module
    fn: T.Any                  # ast.Lambda | ast.FunctionDef
    guard: T.Any               # None (unary) | tuple of type names | 'unguarded'
    deco_ops: T.Tuple[str, ...]


def _member(e: ast.AST) -> T.Optional[str]:
    c = attr_chain(e)
    if c and c.startswith('MesonOperator.'):
        return c.split('.', 1)[1]
    return None


def _typenames(e: ast.AST) -> T.Any:
    if isinstance(e, ast.Constant) and e.value is None:
        return None
    elts = e.elts if isinstance(e, ast.Tuple) else [e]
    out = []
    for x in elts:
        n = attr_chain(x)
        if n is None:
            raise Undecided(f'operand guard {norm(e)} is not a type name')
        out.append(n)
    return tuple(sorted(out))


def resolve_impl(mod: Module, e: ast.AST) -> T.Optional[T.Any]:
    """The function an operator-table entry denotes: a lambda, or the closure returned by a module-level factory `F(a, ...)` whose body is
    `def g(holder, other): ...; return g` - instantiated with F's parameters replaced by the call's arguments."""
    if isinstance(e, ast.Lambda):
        return e
    if isinstance(e, ast.Call) and isinstance(e.func, ast.Name) and mod.has_func(e.func.id) and not e.keywords:
        fac = mod.func(e.func.id)
        body = [s_ for s_ in fac.body if not (isinstance(s_, ast.Expr) and isinstance(s_.value, ast.Constant))]
        params = [a.arg for a in fac.args.args]
        if len(body) == 2 and isinstance(body[0], ast.FunctionDef) and isinstance(body[1], ast.Return) and isinstance(body[1].value, ast.Name) \
                and body[1].value.id == body[0].name and len(params) == len(e.args) and not fac.args.vararg and not fac.args.kwarg:
            import copy as _cp
            from .c01_sym import _Subst
            g = _cp.deepcopy(body[0])
            inner = {a.arg for a in g.args.args}
            mapping = {p: a for p, a in zip(params, e.args) if p not in inner}
            g.body = [_Subst(mapping).visit(s_) for s_ in g.body]
            g.decorator_list = []
            ast.fix_missing_locations(g)
            return g
    return None


def class_ops(repo: Repo, mod: Module, clsname: str) -> T.Tuple[T.Dict[str, Impl], T.Dict[str, Impl]]:
    """(TRIVIAL_OPERATORS, OPERATORS) as InterpreterObject.__init_subclass__ computes them for `clsname`."""
    trivial: T.Dict[str, Impl] = {}
    methods: T.Dict[str, Impl] = {}
    for m, c in reversed(mro_cached(repo, mod, clsname)):
        if c.name == 'InterpreterObject':
            for opn, meth in (('EQUALS', 'op_equals'), ('NOT_EQUALS', 'op_not_equals')):
                f = [s for s in c.body if isinstance(s, ast.FunctionDef) and s.name == meth]
                if len(f) != 1:
                    raise Undecided(f'InterpreterObject.{meth} not found')
                methods[opn] = Impl(opn, 'method', c.name, m, f[0], 'unguarded', (opn,))
            continue
        for st in c.body:
            if isinstance(st, (ast.Assign, ast.AnnAssign)):
                tg = st.targets[0] if isinstance(st, ast.Assign) else st.target
                if isinstance(tg, ast.Name) and tg.id == 'TRIVIAL_OPERATORS' and st.value is not None:
                    if not isinstance(st.value, ast.Dict):
                        raise Undecided(f'{c.name}.TRIVIAL_OPERATORS is not a dict display')
                    for k, v in zip(st.value.keys, st.value.values):
                        opn = _member(k) if k is not None else None
                        if opn is None or not (isinstance(v, ast.Tuple) and len(v.elts) == 2):
                            raise Undecided(f'{c.name}.TRIVIAL_OPERATORS: entry {norm(k)} is not MesonOperator.X: (type, function)')
                        f = resolve_impl(m, v.elts[1])
                        if f is None:
                            raise Undecided(f'{c.name}.TRIVIAL_OPERATORS[{opn}]: implementation is neither a lambda nor the closure of a module-level factory')
                        trivial[opn] = Impl(opn, 'trivial', c.name, m, f, _typenames(v.elts[0]), (opn,))
            elif isinstance(st, ast.FunctionDef):
                tag = None
                typed: T.List[T.Tuple[str, T.Any]] = []
                for d in st.decorator_list:
                    if isinstance(d, ast.Call):
                        dn = attr_chain(d.func) or ''
                        if dn.split('.')[-1] == 'operator' and dn.split('.')[0] in ('InterpreterObject', 'ObjectHolder') and d.args:
                            tag = _member(d.args[0])
                            if tag is None:
                                raise Undecided(f'{c.name}.{st.name}: operator tag {norm(d)} is not a MesonOperator member')
                        elif dn.split('.')[-1] == 'typed_operator' and len(d.args) == 2:
                            o = _member(d.args[0])
                            if o is None:
                                raise Undecided(f'{c.name}.{st.name}: {norm(d)}')
                            typed.append((o, _typenames(d.args[1])))
                if tag is not None:
                    if len(typed) > 1:
                        raise Undecided(f'{c.name}.{st.name}: several typed_operator decorators')
                    methods[tag] = Impl(tag, 'method', c.name, m, st, typed[0][1] if typed else 'unguarded', tuple([tag] + [o for o, _ in typed]))
    return trivial, methods


def effective_ops(repo: Repo, mod: Module, clsname: str) -> T.Dict[str, Impl]:
    trivial, methods = class_ops(repo, mod, clsname)
    out = dict(methods)
    out.update(trivial)        # operator_call consults TRIVIAL_OPERATORS first
    return out


def holder_helpers(repo: Repo, mod: Module, clsname: str) -> T.Dict[str, ast.FunctionDef]:
    """Helper candidates of a holder class, found by role and not by name: the private undecorated/static methods of every class of its MRO (nearest
    definition wins) and the private module-level functions of the modules these classes live in.  They are spliced into the operator bodies
    before the paths are read, so `self._h(..)`, `raise self._h(..)`, `Class._h(..)` and `_h(..)` all read like the inlined code."""
    out: T.Dict[str, ast.FunctionDef] = {}
    for m, c in mro_cached(repo, mod, clsname):
        for k, v in private_helpers(c).items():
            out.setdefault(k, v)
        for k, v in module_helpers(m).items():
            out.setdefault(k, v)
    return out


def impl_paths(repo: Repo, impl: Impl, handlers: bool = True) -> T.List[T.Tuple[str, T.Any, SymPath]]:
    """[(outcome, result term with HELD/OTHER normalised, path)]"""
    fn = impl.fn
    if isinstance(fn, ast.Lambda):
        ps = [a.arg for a in fn.args.args]
        body = [ast.Return(value=fn.body, lineno=fn.lineno, col_offset=0)]
        sps = sym_paths(fn, body=body, handlers=handlers)           # type: ignore[arg-type]
    else:
        ps = [a.arg for a in fn.args.args]
        sps = sym_paths(fn, handlers=handlers, helpers=holder_helpers(repo, impl.mod, impl.owner), mod=impl.mod)
    if len(ps) != 2:
        raise Undecided(f'{impl.owner}: implementation of {impl.op} does not take (holder, other)')
    held_chain = f'{ps[0]}.range' if impl.owner == 'RangeHolder' else f'{ps[0]}.held_object'

    def nz(t: T.Any) -> T.Any:
        if isinstance(t, tuple):
            if is_call(t) and t[3] is None and t[2].startswith(ps[0] + '.'):
                t = (t[0], t[1], 'SELF' + t[2][len(ps[0]):]) + t[3:]
            if len(t) == 2 and t[0] == 'name' and isinstance(t[1], str):
                if t[1] == held_chain:
                    return 'HELD'
                if t[1] == ps[1]:
                    return 'OTHER'
                if t[1] == ps[0]:
                    return 'SELF'
                return t
            return tuple(nz(x) for x in t)
        return t
    out = []
    for sp in sps:
        sp.actions = [a._replace(term=nz(a.term)) for a in sp.actions]
        out.append((sp.outcome, nz(sp.result), sp))
    return out


def denotation(ctx: RuleCtx, impl: Impl, holder: str) -> T.List[T.Tuple[T.Any, SymPath]]:
    """Normal results (returned terms) of an operator implementation, raising paths checked to be InvalidArguments."""
    res = []
    for oc, r, sp in impl_paths(ctx.repo, impl):
        if oc == 'raise':
            name = r[2].split('.')[-1] if is_call(r) else show(r)
            if is_call(r) and not name[:1].isupper():
                # `raise self._build_error(..)` through a helper that could not be spliced in: the exception class is not visible here
                raise Undecided(f'{holder} {impl.op}: raises the result of {r[2]}(), a helper this rule could not read')
            if name != 'InvalidArguments':
                ctx.violation(impl.mod, f'{impl.owner}.{getattr(impl.fn, "name", "<lambda>")}', f'{holder} {impl.op}: raises {name}',
                              f'the {impl.op} operator of {holder} can raise {name}; ill-typed or out-of-range operands must be InvalidArguments', sp.last_node)
            continue
        res.append((r, sp))
    return res


OPERATOR_MODULE = {'add': 'Add', 'sub': 'Sub', 'mul': 'Mult', 'floordiv': 'FloorDiv', 'truediv': 'Div', 'mod': 'Mod', 'eq': 'Eq', 'ne': 'NotEq', 'lt': 'Lt', 'le': 'LtE',
                   'gt': 'Gt', 'ge': 'GtE', 'neg': 'USub', 'not_': 'Not', 'pow': 'Pow', 'and_': 'BitAnd', 'or_': 'BitOr'}


def _strip_calls(t: T.Any) -> T.Any:
    """Forget call sequence numbers; functions of the stdlib `operator` module are the operators they implement."""
    if isinstance(t, tuple):
        if is_call(t) and t[3] is None and t[2].startswith('operator.') and not t[5]:
            fn = t[2].split('.', 1)[1]
            args = tuple(_strip_calls(a) for a in t[4])
            if fn in OPERATOR_MODULE and len(args) in (1, 2):
                return ('op', OPERATOR_MODULE[fn], args)
            if fn == 'contains' and len(args) == 2:
                return ('op', 'In', (args[1], args[0]))
            if fn == 'getitem' and len(args) == 2:
                return ('sub', args[0], args[1])
        if is_call(t):
            return ('call', t[2], _strip_calls(t[3]), tuple(_strip_calls(a) for a in t[4]), tuple((k, _strip_calls(v)) for k, v in t[5]))
        return tuple(_strip_calls(x) for x in t)
    return t


def expected_shapes(opname: str, holder: str) -> T.List[T.Any]:
    """Reference denotations of MesonOperator `opname` on `holder`: the held value is the left operand; for `in` it is the container."""
    if opname in ('IN', 'NOT_IN'):
        return [('op', PYOP[opname], ('OTHER', 'HELD'))]
    if opname == 'UMINUS':
        return [('op', 'USub', ('HELD',))]
    if opname == 'NOT':
        return [('op', 'Not', ('HELD',))]
    if opname == 'BOOL':
        return ['HELD']
    if opname == 'INDEX':
        return [('sub', 'HELD', 'OTHER')]
    if opname == 'PLUS' and holder == 'DictHolder':
        return [('dict', ((('const', '**'), 'HELD'), (('const', '**'), 'OTHER')))]          # merge, right operand wins
    if opname == 'PLUS' and holder == 'ArrayHolder':
        return [('op', 'Add', ('HELD', 'OTHER')), ('op', 'Add', ('HELD', ('list', ('OTHER',)))),      # a non-list operand is appended
                ('list', (('star', 'HELD'), ('star', 'OTHER'))), ('list', (('star', 'HELD'), 'OTHER')),   # the same written as a display with unpacking
                ('list', (('star', 'HELD'), ('star', ('list', ('OTHER',)))))]
    if opname == 'DIV' and holder.endswith('StringHolder'):
        return [('call', 'os.path.join', None, ('HELD', 'OTHER'), ())]                      # judged by _path_join (separator normalisation allowed around it)
    return [('op', PYOP[opname], ('HELD', 'OTHER'))]


def check_holder_impls(ctx: RuleCtx, only_typing: bool = False) -> T.Dict[str, T.Dict[str, Impl]]:
    repo = ctx.repo
    eff: T.Dict[str, T.Dict[str, Impl]] = {}
    for holder, rel in HOLDERS.items():
        eff[holder] = effective_ops(repo, repo.module(rel), holder)
    eff['ObjectHolder'] = effective_ops(repo, repo.module(BASEOBJ), 'ObjectHolder')
    return eff


def r2(ctx: RuleCtx) -> None:
    repo = ctx.repo
    mp = repo.module(MPARSER)
    ib = repo.module(IB)
    lt = LexTables(ctx)
    check_lexer_algorithm(ctx, lt)
    arms = dispatch_arms(ctx)
    mapping: T.Dict[str, EnumMember] = fold_expr(repo, ib, ast.parse('operator.MAPPING', mode='eval').body)
    members: T.Dict[str, EnumMember] = {}
    opmod = repo.module(OPERATOR)
    for v in mapping.values():
        if not isinstance(v, EnumMember):
            raise Undecided('operator.MAPPING does not map to enum members')
        members[v.name] = v
    # -- parser side: token id -> string on the node ------------------------------------------------
    for lvl in ('e4', 'e5', 'e6'):
        _summaries(ctx, mp, lvl)          # registers the actual names of the token tables by role
    role_level = {'COMPARISON_MAP': 'e4', 'ADDSUB_MAP': 'e5', 'MULDIV_MAP': 'e6'}
    maps = {actual_name(repo, r): fold_expr(repo, mp, ast.Name(id=actual_name(repo, r), ctx=ast.Load())) for r in role_level}
    level_of = {actual_name(repo, r): l for r, l in role_level.items()}
    node_string: T.Dict[str, T.Tuple[str, str]] = {}        # spelling -> (node class, string stored)
    for spelling, (member, pyop) in BINARY.items():
        tids, whys = lt.tokens_of(spelling)
        ctx.require(None not in tids, f'`{spelling}` is the token {"+".join(map(str, tids))} ({"; ".join(whys)})', mp, 'Lexer.__init__', f'token of {spelling}',
                    f'the lexer tables give the operator `{spelling}` no token of its own: {"; ".join(whys)}', lt.nodes['self.token_specification'])
        if None in tids:
            continue
        # which parser table takes this token, and which string does it put on the node
        stored = None
        if len(tids) == 1:
            hits = [(n, m[tids[0]]) for n, m in maps.items() if tids[0] in m]
            if len(hits) == 1:
                stored = hits[0]
            elif len(hits) > 1:
                ctx.violation(mp, '<module>', f'token {tids[0]} in several operator tables', f'token id {tids[0]} (from `{spelling}`) is accepted at several precedence levels: {hits}', mp.assign_value(hits[0][0]))
                continue
        elif tids == ('not', 'in'):
            # level 4 special path: constant stored by e4 on the (not, in) path
            rets, _ = _summaries(ctx, mp, 'e4')
            consts = set()
            for s in rets:
                if s.tokens == ('not', 'in'):
                    sh = dict(semantic(s.shape(s.sp.result))[2])
                    consts.add(sh.get('ctype'))
            if len(consts) == 1 and next(iter(consts))[0] == 'const':
                stored = ('e4:not+in', next(iter(consts))[1])
        if stored is None:
            ctx.violation(mp, '<module>', f'operator {spelling}: no parser table takes {tids}', f'`{spelling}` is lexed as {tids}, which no operator table of the parser accepts', mp.assign_value(actual_name(repo, 'COMPARISON_MAP')))
            continue
        table, s2 = stored
        ctx.require(s2 == spelling, f'`{spelling}`: token {"+".join(tids)} -> {table} -> node string {s2!r}', mp, '<module>', f'{table}: {"+".join(tids)} -> {s2!r}',
                    f'the operator written `{spelling}` (token {"+".join(tids)}) is recorded on the node as {s2!r} by {table}', mp.assign_value(table) if mp.has_assign(table) else mp.func('Parser.e4'))
        want_level = 'e4' if spelling not in ARITH else ('e5' if spelling in '+-' else 'e6')
        got_level = level_of.get(table, 'e4')
        ctx.require(got_level == want_level, f'`{spelling}` binds at level {want_level[1:]}', mp, '<module>', f'{spelling} precedence level',
                    f'`{spelling}` is accepted by {table} (level {got_level[1:]}); the reference precedence puts it at level {want_level[1:]}', mp.assign_value(table) if mp.has_assign(table) else None)
        # -- MAPPING: node string -> member -----------------------------------------------------------
        got = mapping.get(s2)
        ctx.require(got is not None and got.name == member, f'MAPPING[{s2!r}] = MesonOperator.{member}', opmod, 'MesonOperator', f'MesonOperator value {s2!r}',
                    f'the node string {s2!r} selects {got!r}; the operator `{spelling}` is MesonOperator.{member}', opmod.cls('MesonOperator'))
    # -- evaluator side -----------------------------------------------------------------------------------
    def opcalls(v: c01_eval.PathView) -> T.List[T.Any]:
        return v.ops
    for cls, field, what in (('ComparisonNode', 'ctype', 'comparison'), ('ArithmeticNode', 'operation', 'arithmetic')):
        target = arm_method(arms, cls)
        if target is None:
            raise Undecided(f'evaluate_statement: arm for {cls} is not a single evaluator call')
        ef = EvalFn(ctx, target)
        lookup = None
        for v0 in views(ef):
            for o in v0.ops:
                cand = o[1]
                if isinstance(cand, tuple) and cand[0] == 'sub' and cand[1][0] == 'name' and cand[2] == ('name', f'NODE.{field}'):
                    try:
                        tbl = fold_expr(repo, ib, ast.parse(cand[1][1], mode='eval').body)
                    except (Undecided, SyntaxError):
                        continue
                    if tbl == mapping:
                        lookup = cand
        if lookup is None:
            lookup = ('sub', ('name', 'operator.MAPPING'), ('name', f'NODE.{field}'))
        roles: T.Set[T.Any] = set()
        n = 0
        for v in views(ef):
            if v.outcome != 'return' or not v.ops:
                continue
            n += 1
            if len(v.ops) != 1:
                ctx.violation(ef.mod, ef.qn, f'{target}: {len(v.ops)} operator applications', 'more than one operator application on a path', v.sp.last_node)
                continue
            _, op, recv, arg = v.ops[0]
            ctx.require(op == lookup, f'{target}: operator is MAPPING[node.{field}]', ef.mod, ef.qn, f'{target}: operator {fmt(op)}',
                        f'{target} applies the operator {fmt(op)}; the parser stores the operator string in `{field}` and MAPPING translates it', v.sp.last_node)
            # operand roles
            swapped = None
            if (recv, arg) == (EV('left'), ('UNHOLD', EV('right'))):
                swapped = False
            elif (recv, arg) == (EV('right'), ('UNHOLD', EV('left'))):
                swapped = True
            if swapped is None:
                ctx.violation(ef.mod, ef.qn, f'{target}: {fmt(v.ops[0])}', f'{target} applies {fmt(v.ops[0])}: the receiver must be one evaluated operand and the argument the other one, unholdered', v.sp.last_node)
                continue
            # under which condition is it swapped: every spelling of "the operator is one of ..." on the path is read as a set constraint
            if cls == 'ArithmeticNode':
                ctx.require(not swapped, f'{target}: left.operator_call(op, unholder(right))', ef.mod, ef.qn, f'{target}: operand roles', f'{target} applies the operator on the right operand with the left as argument', v.sp.last_node)
            else:
                inside: T.Optional[T.Set[str]] = None      # operators this path is restricted to
                outside: T.Set[str] = set()                # operators excluded on this path
                for t, val in v.conds:
                    t = _canon_member(t)
                    mem: T.Optional[T.Set[str]] = None
                    if isinstance(t, tuple) and t[:2] in (('op', 'In'), ('op', 'NotIn')) and t[2][0] == lookup and t[2][1][0] in ('tuple', 'list', 'set'):
                        mem = {x[1].split('.')[-1] for x in t[2][1][1] if x[0] == 'name'}
                        if len(mem) != len(t[2][1][1]):
                            raise Undecided(f'{ef.qn}: operator set with computed members')
                        val = val if t[1] == 'In' else not val
                    elif isinstance(t, tuple) and t[:2] in (('op', 'Is'), ('op', 'Eq'), ('op', 'IsNot'), ('op', 'NotEq')) and lookup in t[2]:
                        other = t[2][1] if t[2][0] == lookup else t[2][0]
                        if other[0] != 'name' or 'MesonOperator.' not in other[1]:
                            raise Undecided(f'{ef.qn}: operator compared with {fmt(other)}')
                        mem = {other[1].split('.')[-1]}
                        val = val if t[1] in ('Is', 'Eq') else not val
                    elif isinstance(t, tuple) and any(x == lookup for x in subterms(t)) and t != lookup:
                        raise Undecided(f'{ef.qn}: test on the operator of unknown shape: {fmt(t)}')
                    if mem is None:
                        continue
                    if val:
                        inside = mem if inside is None else inside & mem
                    else:
                        outside |= mem
                IN2 = {'IN', 'NOT_IN'}
                if inside is not None:
                    reach = inside - outside
                    expect = True if reach and reach <= IN2 else False if not (reach & IN2) else None
                else:
                    expect = False if IN2 <= outside else None
                    reach = {'<all but ' + ','.join(sorted(outside)) + '>'}
                if expect is None:
                    ctx.violation(ef.mod, ef.qn, f'{target}: operand roles for operators {sorted(reach)}: swapped={swapped}',
                                  f'on a path taken for the operators {sorted(reach)} the receiver is {fmt(recv)} and the argument {fmt(arg)}: '
                                  'operands must be reversed exactly for `in` / `not in`, so these operators cannot share one path', v.sp.last_node)
                else:
                    roles.add((expect, swapped))
                    ctx.require(swapped is expect, f'{target}: {"container.operator_call(op, element)" if swapped else "left.operator_call(op, unholder(right))"} for {"in / not in" if expect else "the other operators"}',
                                ef.mod, ef.qn, f'{target}: operand roles for {sorted(reach)}: swapped={swapped}',
                                f'for the operators {sorted(reach)} the receiver is {fmt(recv)} and the argument {fmt(arg)}: operands must be reversed exactly for in / not in', v.sp.last_node)
            ctx.require(v.result == ('HOLD', v.ops[0]), f'{target}: result is holderify(operator result)', ef.mod, ef.qn, f'{target}: result {fmt(v.result)}', f'{target} returns {fmt(v.result)}', v.sp.last_node)
        ctx.floor(f'{target}: operator-applying paths', n, 1)
        if cls == 'ComparisonNode':
            ctx.require(roles >= {(True, True), (False, False)}, f'{target}: both operand roles exist (reversed for in/not in, straight otherwise)', ef.mod, ef.qn, f'{target}: roles {sorted(map(str, roles))}',
                        f'{target} has operand roles {sorted(map(str, roles))} (in-test value, reversed)', ef.fn)
    for spelling, (cls, member, pyop) in UNARY.items():
        tids, whys = lt.tokens_of(spelling)
        want_tok = 'not' if spelling == 'not' else 'dash'
        ctx.require(tids == (want_tok,), f'unary `{spelling}` is the token {want_tok}', mp, 'Lexer.__init__', f'token of unary {spelling}', f'`{spelling}` gets the token {tids}: {"; ".join(whys)}', lt.nodes['self.single_char_tokens'])
        rets, _ = _summaries(ctx, mp, 'e7')
        got_cls = {semantic(s.shape(s.sp.result))[1] for s in rets if s.tokens == (want_tok,)}
        ctx.require(got_cls == {cls}, f'token {want_tok} at level 7 builds {cls}', mp, 'Parser.e7', f'e7: {want_tok} -> {sorted(got_cls)}', f'the unary token {want_tok} builds {sorted(got_cls)}; reference {cls}', mp.func('Parser.e7'))
        target = arm_method(arms, cls)
        if target is None:
            raise Undecided(f'evaluate_statement: arm for {cls} is not a single evaluator call')
        ef = EvalFn(ctx, target)
        want = ('OP', ('name', f'MesonOperator.{member}'), EV('value'), NONE)
        n = 0
        for v in views(ef):
            if v.outcome == 'return' and v.ops:
                n += 1
                v.ops = [_canon_member(o) for o in v.ops]
                v.result = _canon_member(v.result)
                ctx.require(v.ops == [want] and v.result == ('HOLD', want), f'{cls} -> {target}: holderify(value.operator_call({member}, None))', ef.mod, ef.qn,
                            f'{target}: {fmt(v.result)}', f'{target} returns {fmt(v.result)}; reference holderify(eval(value).operator_call(MesonOperator.{member}, None))', v.sp.last_node)
        ctx.floor(f'{target}: operator-applying paths', n, 1)
        ctx.require(member in members, f'MesonOperator.{member} exists', opmod, 'MesonOperator', f'member {member}', f'MesonOperator has no member {member}', opmod.cls('MesonOperator'))
    # index, plus-assign
    for cls, member, recv_want, arg_want in (('IndexNode', 'INDEX', EV('iobject'), ('UNHOLD', EV('index'))),):
        target = arm_method(arms, cls)
        if target is None:
            raise Undecided(f'evaluate_statement: arm for {cls} is not a single evaluator call')
        ef = EvalFn(ctx, target)
        want = ('OP', ('name', f'MesonOperator.{member}'), recv_want, arg_want)
        n = 0
        for v in views(ef):
            if v.outcome == 'return' and v.ops:
                n += 1
                v.ops = [_canon_member(o) for o in v.ops]
                v.result = _canon_member(v.result)
                ctx.require(v.ops == [want] and v.result == ('HOLD', want), f'{cls} -> {target}: holderify(object.operator_call({member}, unholder(index)))', ef.mod, ef.qn,
                            f'{target}: {fmt(v.result)}', f'{target} returns {fmt(v.result)}; the index must be handed over unmodified (negative indices are the holder\'s business)', v.sp.last_node)
        ctx.floor(f'{target}: operator-applying paths', n, 1)
    # -- holder side: every operator implementation denotes its own operator ----------------------------------------
    eff = check_holder_impls(ctx)
    n = 0
    for holder, ops in eff.items():
        for opn, impl in sorted(ops.items()):
            qn = f'{impl.owner}.{getattr(impl.fn, "name", "TRIVIAL_OPERATORS")}'
            if opn not in members:
                ctx.violation(impl.mod, qn, f'{holder}: operator {opn}', f'{holder} implements {opn}, which is not a member of MesonOperator', impl.fn)
                continue
            if impl.owner == 'InterpreterObject':
                continue
            dens = denotation(ctx, impl, holder)
            want = expected_shapes(opn, holder)
            if not dens:
                ctx.violation(impl.mod, qn, f'{holder} {opn}: never returns', f'the {opn} operator of {holder} has no normally returning path', impl.fn)
            seen_den = set()
            for r, sp in dens:
                got = _strip_calls(r)
                if got in seen_den:
                    continue
                seen_den.add(got)
                n += 1
                if opn == 'DIV' and holder.endswith('StringHolder'):
                    verdict = _path_join(got)
                    if verdict is None:
                        raise Undecided(f'{holder} {opn}: the implementation computes {_fmt_den(got)}, a form this rule does not model')
                    ctx.require(verdict, f'{holder} {opn}: path join of (held, other)', impl.mod, qn, f'{holder} {opn}: {_fmt_den(got)}',
                                f'the `/` operator of {holder} computes {_fmt_den(got)}; it must join the held string (left) with the operand (right), in that order', sp.last_node)
                    continue
                if opn in ('IN', 'NOT_IN'):
                    got = _norm_not(got)
                    descent = _delegated_descent(repo, impl, got) if got not in want else None
                    if descent is not None:
                        ctx.violation(impl.mod, qn, f'{holder} {opn}: delegated to a scan that descends into nested elements',
                                      f'the {opn} operator of {holder} computes {_fmt_den(got)}; {descent}: `in` / `not in` test membership among the '
                                      f'container\'s OWN elements ({" or ".join(_fmt_den(w) for w in want)}), an element of a nested array is not a member', sp.last_node)
                        continue
                if got not in want and not _understood(got):
                    raise Undecided(f'{holder} {opn}: the implementation computes {_fmt_den(got)}, a form this rule does not model')
                ctx.require(got in want, f'{holder} {opn}: {_fmt_den(got)}', impl.mod, qn, f'{holder} {opn}: {_fmt_den(got)}',
                            f'the {opn} operator of {holder} computes {_fmt_den(got)}; the operator denotes {" or ".join(_fmt_den(w) for w in want)} '
                            f'(held value on the left; the container for in/not in)', sp.last_node)
    ctx.floor('operator implementations (holder x operator x distinct result)', n, 38)
    sm = repo.module(HOLDERS['StringHolder'])
    # subclasses of StringHolder refine `/` through super()
    for sub in ('DependencyVariableStringHolder', 'OptionStringHolder'):
        ops = effective_ops(repo, sm, sub)
        impl = ops['DIV']
        if impl.owner == sub:
            okd = True
            for oc, r, sp in impl_paths(repo, impl):
                if oc != 'return':
                    continue
                sup = [t for t in subterms(r) if is_call(t) and t[2] == '.op_div' and is_call(t[3]) and t[3][2] == 'super' and t[4] == ('OTHER',)]
                okd = okd and bool(sup)
            ctx.require(okd, f'{sub}./ is derived from StringHolder./ on the same operand', sm, f'{sub}.op_div', f'{sub} DIV', f'{sub}.op_div does not return a value derived from super().op_div(other)', impl.fn)


def _norm_not(t: T.Any) -> T.Any:
    """`not (a in b)` is `a not in b` and vice versa (the Python operators are defined that way)."""
    if isinstance(t, tuple) and len(t) == 3 and t[0] == 'op' and t[1] == 'Not' and len(t[2]) == 1:
        x = t[2][0]
        if isinstance(x, tuple) and len(x) == 3 and x[0] == 'op' and x[1] in ('In', 'NotIn') and len(x[2]) == 2:
            return ('op', 'NotIn' if x[1] == 'In' else 'In', x[2])
    return t


def _delegated_descent(repo: Repo, impl: Impl, got: T.Any) -> T.Optional[str]:
    """The operator hands its work to another method of the same class (`SELF.m(..)`, after _strip_calls) and that method (or a function nested in
    it) is a scan that calls ITSELF on the loop element and uses the result: its answer depends on the elements of nested containers.  Returns the
    description of that recursion, None when the delegate is not of this kind (the caller then leaves the form undecided)."""
    def walk(x: T.Any) -> T.Iterator[T.Any]:
        if isinstance(x, tuple):
            yield x
            for y in x:
                yield from walk(y)
    for c in walk(got):
        if not (len(c) == 5 and c[0] == 'call' and isinstance(c[1], str) and c[1].startswith('SELF.') and '.' not in c[1][5:] and c[2] is None):
            continue
        target = None
        for m, cl in mro_cached(repo, impl.mod, impl.owner):
            target = next((st for st in cl.body if isinstance(st, ast.FunctionDef) and st.name == c[1][5:]), None)
            if target is not None:
                break
        if target is None:
            continue
        funcs = [n for n in ast.walk(target) if isinstance(n, ast.FunctionDef)]
        for f in funcs:
            own = [n for n in ast.walk(f) if not any(n is not g and n in set(ast.walk(g)) for g in funcs if g is not f and g in set(ast.walk(f)))]
            for loop in [n for n in own if isinstance(n, ast.For) and isinstance(n.target, ast.Name)]:
                var = loop.target.id
                for call in [n for st in loop.body for n in ast.walk(st) if isinstance(n, ast.Call)]:
                    callee = call.func.id if isinstance(call.func, ast.Name) else (call.func.attr if isinstance(call.func, ast.Attribute) and norm(call.func.value) in ('self', 'cls') else None)
                    if callee != f.name or not any(isinstance(a, ast.Name) and a.id == var for a in call.args):
                        continue
                    used = not any(isinstance(st, ast.Expr) and st.value is call for st in ast.walk(loop))
                    if used:
                        where = f.name if f is target else f'{target.name}.{f.name}'
                        return f'{c[1][5:]} is a scan whose loop calls {where}({var}) on the element itself and uses the answer (descent into nested arrays)'
    return None


def _understood(t: T.Any) -> bool:
    """A denotation built only from operators, subscripts, displays, constants and the two operands (or the path-join helper): anything else
    (f-strings, calls of unknown functions, comprehensions ...) is not judged."""
    if t in ('HELD', 'OTHER'):
        return True
    if not isinstance(t, tuple) or not t:
        return False
    k = t[0]
    if k == 'const':
        return True
    if k == 'op':
        return all(_understood(x) for x in t[2])
    if k == 'sub':
        return _understood(t[1]) and _understood(t[2])
    if k in ('list', 'tuple', 'set'):
        return all(_understood(x) for x in t[1])
    if k == 'star':
        return _understood(t[1])
    if k == 'dict':
        return all((kk == ('const', '**') or _understood(kk)) and _understood(v) for kk, v in t[1])
    return False


def _path_join(t: T.Any) -> T.Optional[bool]:
    """Denotation of `/` on strings (after _strip_calls): exactly one os.path.join, possibly wrapped in string methods with constant arguments
    (separator normalisation).  True: it joins (held, other); False: it joins the two operands in another order / drops one; None: another form."""
    def walk(x: T.Any) -> T.Iterator[T.Any]:
        if isinstance(x, tuple):
            yield x
            for y in x:
                yield from walk(y)
    joins = [x for x in walk(t) if len(x) == 5 and x[0] == 'call' and x[1] == 'os.path.join' and x[2] is None]
    if len(joins) != 1 or joins[0][4]:
        return None
    core = joins[0]
    r = t
    while r != core:
        if isinstance(r, tuple) and len(r) == 5 and r[0] == 'call' and str(r[1]).startswith('.') and r[2] is not None and all(isinstance(a, tuple) and a[0] == 'const' for a in r[3]) and not r[4]:
            r = r[2]
        else:
            return None
    args = core[3]
    if args == ('HELD', 'OTHER'):
        return True
    if args and all(a in ('HELD', 'OTHER') for a in args) and len(args) <= 2:
        return False
    return None


def _canon_member(t: T.Any) -> T.Any:
    """`operator.MesonOperator.X`, `interpreterbase.MesonOperator.X` ... -> `MesonOperator.X`."""
    if isinstance(t, tuple):
        if len(t) == 2 and t[0] == 'name' and isinstance(t[1], str):
            parts = t[1].split('.')
            if len(parts) > 2 and parts[-2] == 'MesonOperator':
                return ('name', '.'.join(parts[-2:]))
            return t
        return tuple(_canon_member(x) for x in t)
    return t


def _fmt_den(t: T.Any) -> str:
    if t == 'HELD':
        return 'held'
    if t == 'OTHER':
        return 'other'
    if t == 'SELF':
        return 'self'
    if isinstance(t, tuple) and t:
        if t[0] == 'op':
            sym = {'Add': '+', 'Sub': '-', 'Mult': '*', 'FloorDiv': '//', 'Div': '/', 'Mod': '%', 'Eq': '==', 'NotEq': '!=', 'Lt': '<', 'LtE': '<=', 'Gt': '>', 'GtE': '>=',
                   'In': 'in', 'NotIn': 'not in', 'Is': 'is', 'IsNot': 'is not', 'Pow': '**'}.get(t[1], t[1])
            if len(t[2]) == 2:
                return f'{_fmt_den(t[2][0])} {sym} {_fmt_den(t[2][1])}'
            return f'{ {"USub": "-", "Not": "not "}.get(t[1], t[1] + " ")}{_fmt_den(t[2][0])}'
        if t[0] == 'sub':
            return f'{_fmt_den(t[1])}[{_fmt_den(t[2])}]'
        if t[0] == 'dict':
            return '{' + ', '.join(f'**{_fmt_den(v)}' if k == ('const', '**') else f'{_fmt_den(k)}: {_fmt_den(v)}' for k, v in t[1]) + '}'
        if t[0] == 'list':
            return '[' + ', '.join(_fmt_den(x) for x in t[1]) + ']'
        if t[0] == 'call':
            return f'{t[1]}(' + ', '.join(_fmt_den(a) for a in t[3]) + ')'
        if t[0] == 'const':
            return repr(t[1])
        if t[0] == 'name':
            return str(t[1])
    return show(t)


# ---------------------------------------------------------------------------
# R3
# ---------------------------------------------------------------------------

CMP6 = ('EQUALS', 'NOT_EQUALS', 'GREATER', 'LESS', 'GREATER_EQUALS', 'LESS_EQUALS')
# reference typing table (docs/yaml/elementary/{int,str,bool,array,dict}.yml + Syntax.md; DESIGN A.3)
TYPING: T.Dict[str, T.Dict[str, T.Any]] = {
    'IntegerHolder': {'UMINUS': None, 'PLUS': ('int',), 'MINUS': ('int',), 'TIMES': ('int',), 'DIV': ('int',), 'MOD': ('int',), **{c: ('int',) for c in CMP6}},
    'StringHolder': {'PLUS': ('str',), **{c: ('str',) for c in CMP6}, 'DIV': ('str',), 'INDEX': ('int',), 'IN': ('str',), 'NOT_IN': ('str',)},
    'BooleanHolder': {'BOOL': None, 'NOT': None, 'EQUALS': ('bool',), 'NOT_EQUALS': ('bool',)},
    'ArrayHolder': {'EQUALS': ('list',), 'NOT_EQUALS': ('list',), 'IN': ('object',), 'NOT_IN': ('object',), 'PLUS': ('object',), 'INDEX': ('int',)},
    'DictHolder': {'PLUS': ('dict',), 'EQUALS': ('dict',), 'NOT_EQUALS': ('dict',), 'IN': ('str',), 'NOT_IN': ('str',), 'INDEX': ('str',)},
    'RangeHolder': {'INDEX': ('int',), 'EQUALS': 'unguarded', 'NOT_EQUALS': 'unguarded'},      # range()[i]: i is an int like for arrays and strings (an ill-typed index is InvalidArguments, not a Python TypeError)
}


def r3(ctx: RuleCtx) -> None:
    repo = ctx.repo
    eff = check_holder_impls(ctx)
    n = 0
    for holder, ref in TYPING.items():
        ops = eff[holder]
        mod = repo.module(HOLDERS[holder])
        cls = mod.cls(holder)
        extra = sorted(set(ops) - set(ref))
        missing = sorted(set(ref) - set(ops))
        ctx.require(not extra, f'{holder}: no operator beyond {sorted(ref)}', mod, holder, f'{holder}: extra operators {extra}',
                    f'{holder} supports {extra} in addition to the documented operators {sorted(ref)}', ops[extra[0]].fn if extra else cls)
        ctx.require(not missing, f'{holder}: all documented operators present', mod, holder, f'{holder}: missing operators {missing}', f'{holder} lacks the documented operators {missing}', cls)
        for opn, want in sorted(ref.items()):
            impl = ops.get(opn)
            if impl is None:
                continue
            n += 1
            qn = f'{impl.owner}.{getattr(impl.fn, "name", "TRIVIAL_OPERATORS")}'
            if impl.owner in ('ObjectHolder', 'InterpreterObject') and opn in ('EQUALS', 'NOT_EQUALS') and want == 'unguarded':
                continue    # inherited exact-type equality, checked below
            ctx.require(impl.guard == want, f'{holder} {opn}: operand guard {want}', impl.mod, qn, f'{holder} {opn}: guard {impl.guard}',
                        f'the {opn} operator of {holder} accepts operands of type {impl.guard}; the reference typing table says {want}', impl.fn)
            if len(impl.deco_ops) > 1:
                ctx.require(len(set(impl.deco_ops)) == 1, f'{holder} {opn}: typed_operator and operator tag agree', impl.mod, qn, f'{holder} {opn}: decorators name {impl.deco_ops}',
                            f'the decorators stacked on {qn} name different operators {impl.deco_ops}: the type check reports/guards another operator than the one registered', impl.fn)
    ctx.floor('typed operator entries', n, 42)
    # BOOL / NOT exist only on booleans: `if 'x'`, `not 1`, `1 and true` are errors
    for holder, ops in eff.items():
        if holder not in ('BooleanHolder',):
            has = sorted({'BOOL', 'NOT'} & set(ops))
            ctx.require(not has, f'{holder}: no truthiness / not', repo.module(HOLDERS.get(holder, BASEOBJ)), holder, f'{holder}: {has}',
                        f'{holder} implements {has}: only booleans have a truth value in the language', ops[has[0]].fn if has else None)
    # integer division and modulo: floor operators guarded by a zero test raising InvalidArguments
    im = repo.module(HOLDERS['IntegerHolder'])
    for opn in ('DIV', 'MOD'):
        impl = eff['IntegerHolder'].get(opn)
        if impl is None or isinstance(impl.fn, ast.Lambda):
            ctx.violation(im, 'IntegerHolder', f'IntegerHolder {opn} without zero test', f'integer {opn} is not a method with a zero test', impl.fn if impl else im.cls('IntegerHolder'))
            continue
        known_deco = {'typed_operator', 'operator', 'FeatureNew', 'FeatureDeprecated', 'FeatureBroken'}
        foreign = [norm(d) for d in impl.fn.decorator_list if (attr_chain(d.func if isinstance(d, ast.Call) else d) or '').split('.')[-1] not in known_deco]
        if foreign:
            raise Undecided(f'IntegerHolder {opn}: decorated with {foreign}, which may carry the zero test')
        from .c01_sym import inline_helpers
        helpers = private_helpers(impl.mod.cls(impl.owner))
        body = inline_helpers(list(impl.fn.body), {k: v for k, v in helpers.items() if v is not impl.fn})
        tab = tables.extract(impl.fn, body=body, name=f'IntegerHolder {opn}')
        zero = Atom('cmp', ('eq', 'ARG1', '0'))
        for r in tab.rows:
            z = r.conds.get(zero)
            if z is None and not r.conds and any(isinstance(n, ast.Call) and not (isinstance(n.func, ast.Name) and n.func.id in ('len', 'int', 'abs'))
                                                 for st_ in body for n in ast.walk(st_) if not isinstance(st_, ast.Return)):
                raise Undecided(f'IntegerHolder {opn}: the body calls something this rule could not read before dividing - the zero test may live there')
            if z is None and not r.conds:
                ctx.violation(im, f'IntegerHolder.{impl.fn.name}', f'{opn} row without zero test: {r.outcome}', f'integer {opn} computes {r.outcome} without testing the divisor for zero', impl.fn)
                continue
            if z is None and Atom('truth', ('ARG1',)) in r.conds:
                z = not r.conds[Atom('truth', ('ARG1',))]           # `if not other:` spelling of the zero test
            if z is None and not any('ARG1' in str(x) for a_ in r.conds for x in a_.args):
                if r.outcome[0] == 'return':
                    ctx.violation(im, f'IntegerHolder.{impl.fn.name}', f'{opn} row without zero test: {r.outcome}',
                                  f'integer {opn} computes {r.outcome} on a row ({r!r}) that never tests the divisor for zero', impl.fn)
                continue
            if z is None:
                raise Undecided(f'IntegerHolder {opn}: unknown row {r!r}')
            ok = r.outcome == ('raise', 'InvalidArguments') if z else r.outcome[0] == 'return'
            ctx.require(ok, f'IntegerHolder {opn}: divisor {"== 0 -> InvalidArguments" if z else "!= 0 -> result"}', im, f'IntegerHolder.{impl.fn.name}', f'{opn} row zero={z}: {r.outcome}',
                        f'integer {opn}: with divisor {"equal to" if z else "different from"} zero the outcome is {r.outcome}', r.path.events[-1].node)
        ctx.floor(f'IntegerHolder {opn} rows', len(tab.rows), 2)
    # index operators convert IndexError / missing key to InvalidArguments (paths with handlers)
    for holder in ('StringHolder', 'ArrayHolder', 'RangeHolder', 'DictHolder'):
        impl = eff[holder]['INDEX']
        outs = impl_paths(repo, impl)
        raises = [(r, sp) for oc, r, sp in outs if oc == 'raise']
        rets = [(r, sp) for oc, r, sp in outs if oc == 'return']
        if holder == 'DictHolder' and any(any(a.kind == 'exc' and a.term.split('.')[-1] == 'KeyError' for a in sp.actions) for r, sp in raises):
            ok = True
            what = 'KeyError is converted to InvalidArguments'
        elif holder == 'DictHolder':
            def present(sp: SymPath) -> T.Optional[bool]:
                for t, v in sp.conds():
                    if t == ('op', 'NotIn', ('OTHER', 'HELD')):
                        return not v
                    if t == ('op', 'In', ('OTHER', 'HELD')):
                        return v
                return None
            ok = any(present(sp) is False for r, sp in raises) and all(present(sp) is True for r, sp in rets)
            what = 'a missing key raises InvalidArguments before the lookup'
        else:
            ok = any(any(a.kind == 'exc' and a.term.split('.')[-1] == 'IndexError' for a in sp.actions) for r, sp in raises)
            what = 'IndexError is converted to InvalidArguments'
            if not ok:
                # positive evidence of an escaping IndexError: an unguarded, unprotected `held[other]`; anything else (explicit bounds test ...) is undecided
                plain = not any(isinstance(n, ast.Try) for n in ast.walk(impl.fn)) and all(not sp.conds() for r, sp in rets) and not raises
                handles_other = any(isinstance(n, ast.ExceptHandler) for n in ast.walk(impl.fn))
                if not plain and not handles_other:
                    # look-before-you-leap: an explicit bounds test is judged by the bounds table of C01.R9
                    from .c01_args import _bounds_table
                    held = 'self.range' if holder == 'RangeHolder' else 'self.held_object'
                    _bounds_table(ctx, impl.mod, f'{impl.owner}.{impl.fn.name}', impl.fn, 'ARG1', f'len({held})', True,
                                  lambda r: ('raise ' + r.outcome[1]) if r.outcome[0] == 'raise' else 'return ' + r.outcome[1],
                                  f'return {held}[ARG1]', lambda r: 'raise InvalidArguments')
                    continue
        ok = ok and all(is_call(r) and r[2].split('.')[-1] == 'InvalidArguments' for r, sp in raises)
        ctx.require(ok, f'{holder} INDEX: {what}', impl.mod, f'{impl.owner}.{impl.fn.name}', f'{holder} INDEX error conversion',
                    f'{holder} indexing does not guarantee that {what}: an out-of-range / missing index would escape as a Python exception or a wrong error', impl.fn)
    # exact-type equality of the base holder: on the rows where the two types differ the outcome is InvalidArguments (raised in place, through a
    # never-returning helper or built by a helper - all read alike after splicing), on the others the plain comparison
    bm = repo.module(BASEOBJ)
    for cls, subj in (('ObjectHolder', 'self.held_object'), ('InterpreterObject', 'self')):
        helpers = holder_helpers(repo, bm, cls)
        for meth, opn, pyop in (('op_equals', 'EQUALS', 'Eq'), ('op_not_equals', 'NOT_EQUALS', 'NotEq')):
            fn = bm.func(f'{cls}.{meth}')
            sps = sym_paths(fn, helpers=helpers, mod=bm)
            other = fn.args.args[1].arg
            tt = ('op', 'IsNot', (_ty(subj), _ty(other)))
            tt2 = ('op', 'Is', (_ty(subj), _ty(other)))
            good = True
            seen_ret = seen_err = False
            for sp in sps:
                same = None
                for t, v in sp.conds():
                    t = _strip_calls(t)
                    if t == tt:
                        same = not v
                    elif t == tt2:
                        same = v
                if same is None:
                    good = False
                elif same:
                    seen_ret = True
                    good = good and sp.outcome == 'return' and _strip_calls(sp.result) == ('op', pyop, (('name', subj), ('name', other)))
                else:
                    seen_err = True
                    name = sp.result[2].split('.')[-1] if sp.outcome == 'raise' and is_call(sp.result) else None
                    if name != 'InvalidArguments':
                        unread = sorted({c[2] for c in sp.calls() if c[3] is None and c[2].split('.')[0] in ('self', 'cls') and c[2].split('.')[-1].startswith('_')})
                        if unread or (name is not None and not name[:1].isupper()):
                            raise Undecided(f'{cls}.{meth}: the mixed-type row goes through {unread or name}, which this rule could not read')
                        good = False
            ctx.require(good and seen_ret and seen_err, f'{cls}.{meth}: type({subj}) is type(other) exactly, else InvalidArguments; then {subj} {pyop} other', bm, f'{cls}.{meth}', f'{cls}.{meth} exact type test',
                        f'{cls}.{meth} no longer compares only after an exact `type(..) is type(..)` test whose failure raises InvalidArguments', fn)
    # operator_call: the guard of a trivial operator is enforced, unsupported operators are errors
    check_operator_call(ctx, bm)
    # typed_operator wrapper
    dm = repo.module(DECOR)
    wf = dm.func('typed_operator.inner.wrapper')
    outer = dm.func('typed_operator')
    types_p = outer.args.args[1].arg
    tab = tables.extract(wf, name='typed_operator.wrapper')
    for r in tab.rows:
        inst = [(a, v) for a, v in r.conds.items() if a.kind == 'isinstance' and a.args == ('ARG1', (types_p,))]
        if len(inst) != 1 or len(r.conds) != 1:
            raise Undecided(f'typed_operator.wrapper: unknown row {r!r}')
        v = inst[0][1]
        ok = (r.outcome == ('return', 'f(self, ARG1)')) if v else r.outcome == ('raise', 'InvalidArguments')
        ctx.require(ok, f'typed_operator: operand {"of the declared type -> call" if v else "of another type -> InvalidArguments"}', dm, 'typed_operator', f'typed_operator row {v}: {r.outcome}',
                    f'typed_operator row `{r!r}`', r.path.events[-1].node)
    ctx.floor('typed_operator rows', len(tab.rows), 2)
    # IntegerHolder.operator_call only warns, then defers to the generic dispatcher with the same arguments
    ofn = im.func('IntegerHolder.operator_call')
    ps = [a.arg for a in ofn.args.args[1:]]
    ok = True
    for sp in sym_paths(ofn):
        r = sp.result
        ok = ok and sp.outcome == 'return' and is_call(r) and r[2] == '.operator_call' and is_call(r[3]) and r[3][2] == 'super' and r[4] == tuple(('name', p) for p in ps)
    ctx.require(ok, 'IntegerHolder.operator_call defers to InterpreterObject.operator_call(operator, other) on every path', im, 'IntegerHolder.operator_call', 'IntegerHolder.operator_call result',
                'IntegerHolder.operator_call does not always return super().operator_call(operator, other)', ofn)


def _ty(chain: str) -> T.Any:
    return ('call', 'type', None, (('name', chain),), ())


def check_operator_call(ctx: RuleCtx, bm: Module) -> None:
    fn = bm.func('InterpreterObject.operator_call')
    qn = 'InterpreterObject.operator_call'
    opp, otherp = [a.arg for a in fn.args.args[1:]]
    seen = set()
    for sp in sym_paths(fn):
        conds = [(_strip_calls(t), v) for t, v in sp.conds()]
        triv = dict((('triv' if t[2][1] == ('name', 'self.TRIVIAL_OPERATORS') else 'ops'), v) for t, v in conds
                    if t[:2] == ('op', 'In') and t[2][0] == ('name', opp) and t[2][1] in (('name', 'self.TRIVIAL_OPERATORS'), ('name', 'self.OPERATORS')))
        entry = ('sub', ('name', 'self.TRIVIAL_OPERATORS'), ('name', opp))
        guard = ('sub', entry, ('const', 0))
        r = _strip_calls(sp.result)
        if triv.get('triv'):
            g_none = None
            inst = None
            other_none = None
            for t, v in conds:
                if t == ('op', 'Is', (guard, ('const', None))):
                    g_none = v
                elif t == ('op', 'IsNot', (guard, ('const', None))):
                    g_none = not v
                elif t == ('op', 'IsNot', (('name', otherp), ('const', None))):
                    other_none = not v
                elif t == ('op', 'Is', (('name', otherp), ('const', None))):
                    other_none = v
                elif t == ('call', 'isinstance', None, (('name', otherp), guard), ()):
                    inst = v
            if sp.outcome == 'return':
                want = ('call', '()', ('sub', entry, ('const', 1)), (('name', 'self'), ('name', otherp)), ())
                ok = r == want and ((g_none is True and other_none is not False) or (g_none is False and inst is True))
                # unary with a None operand / binary with an operand of the guard type
                if g_none is True and other_none is None:
                    ok = False
                seen.add('call')
                ctx.require(ok, f'operator_call: trivial operator applied only after its guard ({"unary: no operand" if g_none else "isinstance(other, guard)"})', bm, qn,
                            f'operator_call: trivial call with guard-none={g_none} isinstance={inst} other-none={other_none}',
                            f'a trivial operator is applied on a path where guard is None={g_none}, isinstance(other, guard)={inst}, other is None={other_none}: '
                            'the operand guard of TRIVIAL_OPERATORS is not enforced', sp.last_node)
            else:
                name = r[1].split('.')[-1] if r[0] == 'call' else show(r)
                if g_none is False and inst is False:
                    seen.add('typeerr')
                    ctx.require(name == 'InvalidArguments', 'operator_call: operand of the wrong type -> InvalidArguments', bm, qn, f'operator_call: ill-typed operand raises {name}',
                                f'an operand that fails the guard raises {name}', sp.last_node)
        elif triv.get('ops'):
            want = ('call', '()', ('sub', ('name', 'self.OPERATORS'), ('name', opp)), (('name', 'self'), ('name', otherp)), ())
            seen.add('method')
            ctx.require(sp.outcome == 'return' and r == want, 'operator_call: registered operator method applied to (self, other)', bm, qn, f'operator_call: method row {show(sp.result)}',
                        f'operator method row returns {show(sp.result)}', sp.last_node)
        else:
            name = r[1].split('.')[-1] if isinstance(r, tuple) and r[0] == 'call' else show(r)
            seen.add('unsupported')
            ctx.require(sp.outcome == 'raise' and name == 'InvalidCode', 'operator_call: unsupported operator -> InvalidCode', bm, qn, f'operator_call: unsupported operator {sp.outcome} {name}',
                        f'an operator the object does not implement ends in {sp.outcome} {name}; it must be an error', sp.last_node)
    ctx.require(seen >= {'call', 'typeerr', 'method', 'unsupported'}, 'operator_call: trivial / ill-typed / method / unsupported rows all present', bm, qn, f'operator_call rows {sorted(seen)}',
                f'operator_call has rows {sorted(seen)} only', fn)
