"""Helpers of the C16 pack: a three-valued evaluator of guard expressions under a
*hypothesis* (a few concrete facts about the state, everything else unknown) and a
walker that asks: "is statement S reachable on some path whose tests do not contradict
the hypothesis?".  Guards are therefore judged by what they accept and reject, never
by how they are spelled: `not v`, `'#' not in v`, `v == '\\n'`, `not v.strip()`,
`not any(n.whitespaces and ... for n in (a, b))` all reject a comment-holding value.

Nothing here executes repository code or interprets statement sequences: only *branch predicates* (atoms) are given a
truth value in the world a hypothesis describes (constants, str predicates, len, any/all, in, ==, and/or/not);
statements are followed only for copy propagation of locals, for kills of the hypothesis and for constant stores.
"""
from __future__ import annotations

import ast
import copy
import typing as T

from ..core import Undecided, norm, attr_chain, walk_no_nested, short
from ..paths import enumerate_paths, Path, Event, PURE_CALLS


class _Unknown:
    def __repr__(self) -> str:
        return '?'


UNKNOWN = _Unknown()


class Present:
    """An object known to exist (truthy) whose attributes are looked up in the hypothesis."""
    def __repr__(self) -> str:
        return '<present>'


PRESENT = Present()

STR_METHODS = {'strip', 'lstrip', 'rstrip', 'startswith', 'endswith', 'find', 'count', 'lower', 'upper', 'splitlines',
               'isspace', 'replace', 'split', 'index', 'rfind', 'isdigit', 'expandtabs'}
PURE = set(PURE_CALLS) | STR_METHODS | {'enumerate', 'set', 'list', 'tuple', 'sorted', 'values', 'keys', 'items', 'isdisjoint',
                                          'pathname_sort_key', 'zip', 'zip_longest', 'range', 'iter', 'repr', 'max', 'min', 'sub', 'escape',
                                          'dedent', 'sort_key', 'copy', 'format', 'join', 'search', 'match', 'fullmatch', 'len', 'compile'}


class Subst(ast.NodeTransformer):
    """Replace loads of bound local names by the expression they are bound to."""
    def __init__(self, binds: T.Dict[str, ast.AST]):
        self.binds = binds

    def visit_Name(self, n: ast.Name) -> ast.AST:
        if isinstance(n.ctx, ast.Load) and n.id in self.binds:
            return copy.deepcopy(self.binds[n.id])
        return n

    def visit_Lambda(self, n: ast.Lambda) -> ast.AST:
        return n

    def _comp(self, n: T.Any) -> ast.AST:
        # comprehension targets shadow bindings
        shadow = set()
        for g in n.generators:
            for x in ast.walk(g.target):
                if isinstance(x, ast.Name):
                    shadow.add(x.id)
        inner = Subst({k: v for k, v in self.binds.items() if k not in shadow})
        return ast.NodeTransformer.generic_visit(inner, n)

    visit_GeneratorExp = visit_ListComp = visit_SetComp = visit_DictComp = _comp


def subst(e: ast.AST, binds: T.Dict[str, ast.AST]) -> ast.AST:
    if not binds:
        return e
    if not any(isinstance(n, ast.Name) and n.id in binds for n in ast.walk(e)):
        return e
    return Subst(binds).visit(copy.deepcopy(e))


def key(e: ast.AST) -> str:
    return norm(e)


def any_elem(chain: ast.AST) -> ast.AST:
    """The pseudo element `chain[ANY]` standing for 'some element of the list chain'."""
    return ast.Subscript(value=chain, slice=ast.Name(id='ANY', ctx=ast.Load()), ctx=ast.Load())


def truth(v: T.Any) -> T.Optional[bool]:
    if v is UNKNOWN:
        return None
    try:
        return bool(v)
    except Exception:
        return None


class Evaluator:
    def __init__(self, env: T.Dict[str, T.Any], consts: T.Optional[T.Callable[[ast.AST], T.Any]] = None,
                 calls: T.Optional[T.Callable[[ast.Call, 'Evaluator'], T.Any]] = None,
                 atoms: T.Optional[T.Callable[[ast.AST], T.Any]] = None):
        self.env = env
        self.consts = consts
        self.calls = calls
        self.atoms = atoms
        self._depth = 0

    def ev(self, e: ast.AST) -> T.Any:
        k = key(e)
        if k in self.env:
            return self.env[k]
        lk = f'len({k})'
        if lk in self.env and isinstance(self.env[lk], int) and not isinstance(self.env[lk], bool):
            return PRESENT if self.env[lk] > 0 else False      # truthiness of a sequence whose length is part of the world
        if self.atoms is not None:
            v = self.atoms(e)
            if v is not UNKNOWN:
                return v
        m = getattr(self, 'e_' + e.__class__.__name__, None)
        if m is None:
            return UNKNOWN
        return m(e)

    def e_Constant(self, e: ast.Constant) -> T.Any:
        return e.value

    def e_Name(self, e: ast.Name) -> T.Any:
        c = self.consts or CONSTS
        if c is not None:
            return c(e)
        return UNKNOWN

    def e_Attribute(self, e: ast.Attribute) -> T.Any:
        # attribute of an absent object (None) is an error path, not a value; unknown otherwise
        c = self.consts or CONSTS
        if c is not None and attr_chain(e) is not None:
            return c(e)
        return UNKNOWN

    def e_NamedExpr(self, e: ast.NamedExpr) -> T.Any:
        return self.ev(e.value)

    def _seq(self, elts: T.List[ast.expr]) -> T.Any:
        out = []
        for x in elts:
            if isinstance(x, ast.Starred):
                return UNKNOWN
            v = self.ev(x)
            if v is UNKNOWN:
                return UNKNOWN
            out.append(v)
        return out

    def e_List(self, e: ast.List) -> T.Any:
        return self._seq(e.elts)

    def e_Tuple(self, e: ast.Tuple) -> T.Any:
        v = self._seq(e.elts)
        return v if v is UNKNOWN else tuple(v)

    def e_Set(self, e: ast.Set) -> T.Any:
        v = self._seq(e.elts)
        try:
            return v if v is UNKNOWN else set(v)
        except TypeError:
            return UNKNOWN

    def e_UnaryOp(self, e: ast.UnaryOp) -> T.Any:
        v = self.ev(e.operand)
        if isinstance(e.op, ast.Not):
            t = truth(v)
            return UNKNOWN if t is None else (not t)
        if isinstance(e.op, ast.USub) and isinstance(v, int):
            return -v
        return UNKNOWN

    def e_BoolOp(self, e: ast.BoolOp) -> T.Any:
        is_and = isinstance(e.op, ast.And)
        unknown = False
        last: T.Any = UNKNOWN
        for x in e.values:
            v = self.ev(x)
            t = truth(v)
            if t is None:
                unknown = True
                continue
            if is_and and not t:
                # a definitely-false operand decides an `and` only if nothing unknown precedes it with side effects;
                # operands are pure here, so the conjunction is false
                return v if not unknown else False
            if not is_and and t:
                return v if not unknown else True
            last = v
        if unknown:
            return UNKNOWN
        return last

    def e_IfExp(self, e: ast.IfExp) -> T.Any:
        t = truth(self.ev(e.test))
        if t is None:
            a, b = self.ev(e.body), self.ev(e.orelse)
            if a is not UNKNOWN and b is not UNKNOWN and type(a) is type(b) and a == b:
                return a
            return UNKNOWN
        return self.ev(e.body if t else e.orelse)

    def e_BinOp(self, e: ast.BinOp) -> T.Any:
        # constant folding only: no arithmetic on hypothesised values
        if not (isinstance(e.left, ast.Constant) and isinstance(e.right, ast.Constant)):
            return UNKNOWN
        l, r = self.ev(e.left), self.ev(e.right)
        if l is UNKNOWN or r is UNKNOWN or isinstance(l, Present) or isinstance(r, Present):
            return UNKNOWN
        try:
            if isinstance(e.op, ast.Add):
                return l + r
            if isinstance(e.op, ast.Sub):
                return l - r
            if isinstance(e.op, ast.Mult):
                return l * r
        except Exception:
            return UNKNOWN
        return UNKNOWN

    def _len_vs_zero(self, e: ast.Compare) -> T.Any:
        """len(X) > 0, len(X) != 0, len(X) >= 1, 0 < len(X) ...  ==  truthiness of X (and the negations)."""
        if len(e.ops) != 1:
            return UNKNOWN
        l, r, op = e.left, e.comparators[0], e.ops[0]
        flip = {ast.Lt: ast.Gt, ast.Gt: ast.Lt, ast.LtE: ast.GtE, ast.GtE: ast.LtE, ast.Eq: ast.Eq, ast.NotEq: ast.NotEq}
        if isinstance(l, ast.Constant) and type(op) in flip:
            l, r, op = r, l, flip[type(op)]()
        if not (isinstance(l, ast.Call) and isinstance(l.func, ast.Name) and l.func.id == 'len' and len(l.args) == 1
                and isinstance(r, ast.Constant) and r.value in (0, 1) and not isinstance(r.value, bool)):
            return UNKNOWN
        t = truth(self.ev(l.args[0]))
        if t is None:
            return UNKNOWN
        nonempty = {(ast.Gt, 0): True, (ast.NotEq, 0): True, (ast.GtE, 1): True, (ast.Eq, 0): False, (ast.LtE, 0): False, (ast.Lt, 1): False}
        k = (type(op), r.value)
        if k not in nonempty:
            return UNKNOWN
        return t if nonempty[k] else not t

    def e_Compare(self, e: ast.Compare) -> T.Any:
        lz = self._len_vs_zero(e)
        if lz is not UNKNOWN:
            return lz
        left = self.ev(e.left)
        res: T.Any = True
        for op, right_e in zip(e.ops, e.comparators):
            right = self.ev(right_e)
            r = self._cmp(op, left, right, right_e)
            t = truth(r)
            if t is None:
                return UNKNOWN
            if not t:
                return False
            left = right
        return res

    def _cmp(self, op: ast.cmpop, l: T.Any, r: T.Any, right_e: ast.AST) -> T.Any:
        if isinstance(op, (ast.Is, ast.IsNot)):
            if isinstance(right_e, ast.Constant) and right_e.value is None:
                if l is UNKNOWN:
                    return UNKNOWN
                return (l is None) == isinstance(op, ast.Is)
            return UNKNOWN
        if l is UNKNOWN or r is UNKNOWN or isinstance(l, Present) or isinstance(r, Present):
            return UNKNOWN
        try:
            if isinstance(op, ast.Eq):
                return l == r
            if isinstance(op, ast.NotEq):
                return l != r
            if isinstance(op, ast.In):
                return l in r
            if isinstance(op, ast.NotIn):
                return l not in r
            if isinstance(op, ast.Lt):
                return l < r
            if isinstance(op, ast.LtE):
                return l <= r
            if isinstance(op, ast.Gt):
                return l > r
            if isinstance(op, ast.GtE):
                return l >= r
        except Exception:
            return UNKNOWN
        return UNKNOWN

    def e_Subscript(self, e: ast.Subscript) -> T.Any:
        v = self.ev(e.value)
        if v is UNKNOWN or isinstance(v, Present):
            return UNKNOWN
        try:
            if isinstance(e.slice, ast.Slice):
                lo = self.ev(e.slice.lower) if e.slice.lower is not None else None
                hi = self.ev(e.slice.upper) if e.slice.upper is not None else None
                if lo is UNKNOWN or hi is UNKNOWN or e.slice.step is not None:
                    return UNKNOWN
                return v[lo:hi]
            i = self.ev(e.slice)
            if i is UNKNOWN:
                return UNKNOWN
            return v[i]
        except Exception:
            return UNKNOWN

    def _iter_elems(self, it: ast.AST) -> T.Tuple[T.List[ast.AST], bool]:
        """Elements of an iterable as expressions; second value: the list is complete."""
        if isinstance(it, (ast.Tuple, ast.List, ast.Set)):
            out: T.List[ast.AST] = []
            for x in it.elts:
                if isinstance(x, ast.Starred):
                    out.append(any_elem(x.value))
                else:
                    out.append(x)
            return out, not any(isinstance(x, ast.Starred) for x in it.elts)
        if isinstance(it, ast.BinOp) and isinstance(it.op, ast.Add):
            a, ca = self._iter_elems(it.left)
            b, cb = self._iter_elems(it.right)
            return a + b, ca and cb
        v = self.ev(it)
        if isinstance(v, (list, tuple, set, frozenset, str)) :
            return [ast.Constant(value=x) for x in (sorted(v) if isinstance(v, (set, frozenset)) else v)], True
        if attr_chain(it) is not None or isinstance(it, ast.Subscript):
            return [any_elem(it)], False
        raise Undecided(f'guard iterates over an unknown form: {short(it)}')

    def _quant(self, call: ast.Call, is_any: bool) -> T.Any:
        if len(call.args) != 1:
            return UNKNOWN
        a = call.args[0]
        if isinstance(a, (ast.GeneratorExp, ast.ListComp)):
            if len(a.generators) != 1 or not isinstance(a.generators[0].target, ast.Name):
                return UNKNOWN
            g = a.generators[0]
            elems, complete = self._iter_elems(g.iter)
            results = []
            for el in elems:
                b = {g.target.id: el}
                if not all(truth(self.ev(subst(c, b))) for c in g.ifs):
                    if any(truth(self.ev(subst(c, b))) is False for c in g.ifs):
                        continue
                    results.append(None)
                    continue
                results.append(truth(self.ev(subst(a.elt, b))))
        else:
            elems, complete = self._iter_elems(a)
            results = [truth(self.ev(el)) for el in elems]
        if is_any:
            if any(r is True for r in results):
                return True
            if complete and all(r is False for r in results):
                return False
            return UNKNOWN
        if any(r is False for r in results):
            return False
        if complete and all(r is True for r in results):
            return True
        return UNKNOWN

    def e_Call(self, e: ast.Call) -> T.Any:
        f = e.func
        if isinstance(f, ast.Name):
            if f.id in ('any', 'all'):
                return self._quant(e, f.id == 'any')
            if f.id == 'next' and len(e.args) == 2 and isinstance(e.args[0], ast.GeneratorExp) and len(e.args[0].generators) == 1:
                # next((E for t in I if C), D)  ==  E' if any(C for t in I) else D   (E constant)
                g = e.args[0]
                if isinstance(g.elt, ast.Constant) and g.generators[0].ifs:
                    cond: ast.AST = g.generators[0].ifs[0] if len(g.generators[0].ifs) == 1 else ast.BoolOp(op=ast.And(), values=list(g.generators[0].ifs))
                    q = self._quant(ast.Call(func=ast.Name(id='any', ctx=ast.Load()), args=[ast.GeneratorExp(elt=cond, generators=[
                        ast.comprehension(target=g.generators[0].target, iter=g.generators[0].iter, ifs=[], is_async=0)])], keywords=[]), True)
                    t = truth(q)
                    if t is None:
                        return UNKNOWN
                    return g.elt.value if t else self.ev(e.args[1])
            if f.id == 'len' and len(e.args) == 1:
                v = self.ev(e.args[0])
                if v is UNKNOWN or isinstance(v, Present):
                    return UNKNOWN
                try:
                    return len(v)
                except Exception:
                    return UNKNOWN
            if f.id == 'bool' and len(e.args) == 1:
                t = truth(self.ev(e.args[0]))
                return UNKNOWN if t is None else t
            if f.id in ('set', 'list', 'tuple', 'str') and len(e.args) == 1:
                v = self.ev(e.args[0])
                if v is UNKNOWN or isinstance(v, Present):
                    return UNKNOWN
                try:
                    return {'set': set, 'list': list, 'tuple': tuple, 'str': str}[f.id](v)
                except Exception:
                    return UNKNOWN
            if self.calls is not None:
                return self.calls(e, self)
            return UNKNOWN
        if isinstance(f, ast.Attribute):
            recv = self.ev(f.value)
            if isinstance(recv, str) and f.attr in STR_METHODS and not e.keywords:
                args = [self.ev(a) for a in e.args]
                if any(a is UNKNOWN for a in args):
                    return UNKNOWN
                try:
                    return getattr(recv, f.attr)(*args)
                except Exception:
                    return UNKNOWN
            if isinstance(recv, (set, frozenset)) and f.attr == 'isdisjoint' and len(e.args) == 1:
                a = self.ev(e.args[0])
                if a is UNKNOWN:
                    return UNKNOWN
                try:
                    return recv.isdisjoint(a)
                except Exception:
                    return UNKNOWN
        if INLINER is not None and self._depth < 2:
            inl = INLINER(e)
            if inl is not None:
                self._depth += 1
                try:
                    return self.ev(inl)
                finally:
                    self._depth -= 1
        if self.calls is not None:
            return self.calls(e, self)
        return UNKNOWN


# ---------------------------------------------------------------------------
# loop <-> any()/all() and expression-bodied helpers (structural rewriting, nothing is executed)

def _any_of(target: ast.AST, it: ast.AST, cond: ast.AST, negate: bool) -> ast.AST:
    gen = ast.GeneratorExp(elt=cond, generators=[ast.comprehension(target=target, iter=it, ifs=[], is_async=0)])
    call: ast.AST = ast.Call(func=ast.Name(id='any', ctx=ast.Load()), args=[gen], keywords=[])
    if negate:
        call = ast.UnaryOp(op=ast.Not(), operand=call)
    return ast.fix_missing_locations(copy.deepcopy(call))


def flag_loop(loop: ast.AST) -> T.Optional[T.Tuple[str, bool, ast.AST]]:
    """`for t in I: if COND: flag = <b> [break]`  ->  (flag, b, any(COND for t in I))."""
    if not isinstance(loop, ast.For) or loop.orelse or len(loop.body) != 1 or not isinstance(loop.body[0], ast.If):
        return None
    i = loop.body[0]
    if i.orelse or not (1 <= len(i.body) <= 2):
        return None
    a = i.body[0]
    if len(i.body) == 2 and not isinstance(i.body[1], ast.Break):
        return None
    if not (isinstance(a, ast.Assign) and len(a.targets) == 1 and isinstance(a.targets[0], ast.Name) and isinstance(a.value, ast.Constant)
            and isinstance(a.value.value, bool)):
        return None
    return a.targets[0].id, a.value.value, _any_of(loop.target, loop.iter, i.test, False)


def _block_expr(stmts: T.List[ast.stmt], binds: T.Dict[str, ast.AST], depth: int = 0) -> T.Optional[ast.AST]:
    """The value a statement list returns, as one expression: pure local bindings are substituted, `if` with returns
    becomes a conditional expression, the search loop / flag loop becomes any().  None when the block does anything else."""
    if depth > 6:
        return None
    stmts = [st for st in stmts if not (isinstance(st, ast.Expr) and isinstance(st.value, ast.Constant)) and not isinstance(st, ast.Pass)]
    for i, st in enumerate(stmts):
        rest = stmts[i + 1:]
        if isinstance(st, ast.Return):
            return subst(st.value, binds) if st.value is not None else ast.Constant(value=None)
        if isinstance(st, ast.AnnAssign) and st.value is None:
            continue
        if isinstance(st, (ast.Assign, ast.AnnAssign)):
            tg = st.targets[0] if isinstance(st, ast.Assign) and len(st.targets) == 1 else (st.target if isinstance(st, ast.AnnAssign) else None)
            if isinstance(tg, ast.Name) and st.value is not None and _bindable(st.value):
                binds = dict(binds)
                binds[tg.id] = subst(st.value, binds)
                continue
            return None
        if isinstance(st, ast.Expr) and isinstance(st.value, ast.Call) and isinstance(st.value.func, ast.Attribute) and st.value.func.attr == 'accept' \
                and len(st.value.args) == 1 and isinstance(st.value.args[0], ast.Name) and isinstance(binds.get(st.value.args[0].id), ast.Call):
            continue          # <node>.accept(<visitor built here>): the helper returns what the visitor recorded
        if isinstance(st, ast.If):
            a = _block_expr(st.body + rest, binds, depth + 1)
            b = _block_expr(st.orelse + rest, binds, depth + 1)
            if a is None or b is None:
                return None
            return ast.IfExp(test=subst(st.test, binds), body=a, orelse=b)
        if isinstance(st, ast.For):
            # search loop: for t in I: if COND: return <b>   ...   return <not b>
            if not st.orelse and len(st.body) == 1 and isinstance(st.body[0], ast.If) and not st.body[0].orelse and len(st.body[0].body) == 1 \
                    and isinstance(st.body[0].body[0], ast.Return) and isinstance(st.body[0].body[0].value, ast.Constant) \
                    and isinstance(st.body[0].body[0].value.value, bool) and len(rest) == 1 and isinstance(rest[0], ast.Return) \
                    and isinstance(rest[0].value, ast.Constant) and rest[0].value.value is (not st.body[0].body[0].value.value):
                return _any_of(st.target, subst(st.iter, binds), subst(st.body[0].test, binds), negate=not st.body[0].body[0].value.value)
            fl = flag_loop(st)
            init = binds.get(fl[0]) if fl else None
            if fl and isinstance(init, ast.Constant) and init.value is (not fl[1]):
                e = subst(fl[2], {k: v for k, v in binds.items() if k != fl[0]})
                binds = dict(binds)
                binds[fl[0]] = e if fl[1] else ast.UnaryOp(op=ast.Not(), operand=e)
                continue
            return None
        return None
    return None


def builder_expression(fn: ast.AST) -> T.Optional[ast.AST]:
    """`x = Ctor(...); x.f = ...; return x`: the constructor call (the stores on the fresh object are judged where they stand)."""
    body = [st for st in getattr(fn, 'body', []) if not (isinstance(st, ast.Expr) and isinstance(st.value, ast.Constant))]
    if len(body) >= 2 and isinstance(body[0], ast.Assign) and len(body[0].targets) == 1 and isinstance(body[0].targets[0], ast.Name) \
            and isinstance(body[0].value, ast.Call) and isinstance(body[-1], ast.Return) and isinstance(body[-1].value, ast.Name) \
            and body[-1].value.id == body[0].targets[0].id:
        x = body[0].targets[0].id
        for st in body[1:-1]:
            if not (isinstance(st, ast.Assign) and all(isinstance(t, ast.Attribute) and isinstance(t.value, ast.Name) and t.value.id == x for t in st.targets)):
                return None
        return body[0].value
    return None


def helper_expression(fn: ast.AST) -> T.Optional[ast.AST]:
    """The expression a helper computes (see _block_expr), or the constructor call of a builder helper."""
    e = _block_expr(list(getattr(fn, 'body', [])), {})
    if e is None:
        e = builder_expression(fn)
    return e


def bind_args(fn: ast.AST, call: ast.Call, skip_first: bool) -> T.Optional[T.Dict[str, ast.AST]]:
    """Arguments of a call bound to the callee's parameter names (positional index or keyword)."""
    a = fn.args  # type: ignore[attr-defined]
    params = [x.arg for x in a.posonlyargs + a.args]
    if skip_first and params:
        params = params[1:]
    if any(isinstance(x, ast.Starred) for x in call.args) or len(call.args) > len(params):
        return None
    m: T.Dict[str, ast.AST] = dict(zip(params, call.args))
    kwonly = [x.arg for x in a.kwonlyargs]
    for k in call.keywords:
        if k.arg is None or k.arg in m or k.arg not in params + kwonly:
            return None
        m[k.arg] = k.value
    return m


# set by the rule pack: Name / dotted constant -> folded value of a module or class constant (UNKNOWN otherwise)
CONSTS: T.Optional[T.Callable[[ast.AST], T.Any]] = None

# set by the rule pack for the class being analysed: Call -> inlined expression (parameters replaced by the arguments) or None
INLINER: T.Optional[T.Callable[[ast.Call], T.Optional[ast.AST]]] = None


def inline_call(fn: ast.AST, call: ast.Call, skip_first: bool) -> T.Optional[ast.AST]:
    e = helper_expression(fn)
    if e is None:
        return None
    a = fn.args  # type: ignore[attr-defined]
    if a.vararg or a.kwarg:
        return None
    m = bind_args(fn, call, skip_first)
    if m is None:
        return None
    params = [x.arg for x in a.posonlyargs + a.args][1 if skip_first else 0:]
    # parameters with defaults
    defaults = dict(zip(reversed([x.arg for x in a.posonlyargs + a.args]), reversed(a.defaults)))
    for prm in params:
        if prm not in m:
            if prm in defaults:
                m[prm] = defaults[prm]
            else:
                return None
    return subst(e, m)


def simplify(e: ast.AST, ev: 'Evaluator') -> ast.AST:
    """Resolve conditional expressions whose test is decided in the world of the evaluator."""
    while isinstance(e, ast.IfExp):
        t = truth(ev.ev(e.test))
        if t is None:
            break
        e = e.body if t else e.orelse
    return e


# ---------------------------------------------------------------------------
# hypothesis-driven reachability

_CK_CACHE: T.Dict[str, T.Set[str]] = {}


def _chains_of_key(k: str) -> T.Set[str]:
    """Maximal access paths (name.attr[sub]...) mentioned in an expression text."""
    if k in _CK_CACHE:
        return _CK_CACHE[k]
    try:
        e = ast.parse(k, mode='eval').body
    except SyntaxError:
        _CK_CACHE[k] = set()
        return _CK_CACHE[k]
    out: T.Set[str] = set()

    def is_path(n: ast.AST) -> bool:
        while isinstance(n, (ast.Attribute, ast.Subscript)):
            n = n.value
        return isinstance(n, ast.Name) or (isinstance(n, ast.Call) and isinstance(n.func, (ast.Name, ast.Attribute)) and not n.args and not n.keywords)

    def rec(n: ast.AST) -> None:
        if isinstance(n, (ast.Attribute, ast.Subscript, ast.Name)) and is_path(n):
            if not (isinstance(n, ast.Name) and n.id in ('ANY', 'self', 'mparser')):
                out.add(norm(n))
            # indices may mention other paths
            m = n
            while isinstance(m, (ast.Attribute, ast.Subscript)):
                if isinstance(m, ast.Subscript):
                    rec(m.slice)
                m = m.value
            return
        for ch in ast.iter_child_nodes(n):
            rec(ch)
    rec(e)
    _CK_CACHE[k] = out
    return out


def related(a: str, b: str) -> bool:
    """Is one access path a prefix of the other (component-wise)?"""
    if a == b:
        return True
    lo, hi = (a, b) if len(a) < len(b) else (b, a)
    return hi.startswith(lo) and hi[len(lo)] in '.['


_PATH_CACHE: T.Dict[T.Tuple[int, int], T.Tuple[ast.AST, T.List[Path]]] = {}


def _in_loop(fn: ast.AST, site: ast.AST) -> bool:
    def rec(n: ast.AST, loop: bool) -> T.Optional[bool]:
        if n is site:
            return loop
        for ch in ast.iter_child_nodes(n):
            r = rec(ch, loop or isinstance(n, (ast.For, ast.While, ast.AsyncFor)) and ch in getattr(n, 'body', []) + getattr(n, 'orelse', []))
            if r is not None:
                return r
        return None
    r = rec(fn, False)
    if r is None:
        raise Undecided(f'statement {short(site)} is not inside the function analysed')
    return r


def fn_paths(fn: T.Union[ast.FunctionDef, ast.AsyncFunctionDef], unroll: int) -> T.List[Path]:
    k = (id(fn), unroll)
    hit = _PATH_CACHE.get(k)
    if hit is None or hit[0] is not fn:      # the function object is kept alive with its paths, so an id is never reused
        hit = (fn, enumerate_paths(fn.body, unroll=unroll, pure=PURE))
        _PATH_CACHE[k] = hit
    return hit[1]


def stmt_of(fn: ast.AST, sub: ast.AST) -> ast.stmt:
    """The simple statement (or compound head) of fn that contains the AST object sub."""
    best: T.Optional[ast.stmt] = None

    def rec(n: ast.AST, cur: T.Optional[ast.stmt]) -> bool:
        nonlocal best
        if isinstance(n, ast.stmt):
            cur = n
        if n is sub:
            best = cur
            return True
        for ch in ast.iter_child_nodes(n):
            if rec(ch, cur):
                return True
        return False
    rec(fn, None)
    if best is None:
        raise Undecided(f'construct {short(sub)} not found in its function')
    return best


class Hyp:
    """A hypothesis: `stable` facts (structure, configuration: only an explicit write kills them) and `volatile` facts
    (whitespace content: any call that is handed the owner may have changed it, so tests made before such a call say
    nothing about the value at the site)."""
    def __init__(self, stable: T.Optional[T.Dict[str, T.Any]] = None, volatile: T.Optional[T.Dict[str, T.Any]] = None, label: str = '',
                 atoms: T.Optional[T.Callable[[ast.AST], T.Any]] = None):
        self.stable = dict(stable or {})
        self.volatile = dict(volatile or {})
        self.label = label
        self.atoms = atoms      # truth value of canonical atoms in the world this hypothesis describes


class Reach(T.NamedTuple):
    path: Path
    prefix: T.List[Event]
    binds: T.Dict[str, ast.AST]
    notes: T.Dict[str, T.Any]

    def describe(self) -> str:
        cs = [('' if e.val else 'not ') + short(e.node, 60) for e in self.prefix if e.kind == 'cond']
        return ' & '.join(cs) or 'unconditionally'


Observer = T.Callable[[Event, T.Callable[[ast.AST], ast.AST], T.Dict[str, T.Any]], T.Optional[str]]

MUTATORS = {'append', 'extend', 'insert', 'pop', 'remove', 'clear', 'sort', 'reverse', 'update', 'add', 'discard', 'setdefault', 'popitem',
            'appendleft', 'popleft'}


def _calls_touching(node: ast.AST, binds: T.Dict[str, ast.AST]) -> T.Iterator[T.Tuple[ast.Call, T.List[str]]]:
    for c in walk_no_nested(node):
        if not isinstance(c, ast.Call):
            continue
        f = c.func
        nm = f.attr if isinstance(f, ast.Attribute) else (f.id if isinstance(f, ast.Name) else '')
        if nm in PURE and nm not in ('dedent', 'sub'):
            continue
        chains: T.List[str] = []
        if isinstance(f, ast.Attribute) and attr_chain(f.value) not in (None, 'self') or (isinstance(f, ast.Attribute) and isinstance(f.value, ast.Subscript)):
            chains.append(norm(subst(f.value, binds)))  # type: ignore[union-attr]
        for a in list(c.args) + [k.value for k in c.keywords]:
            a2 = a.value if isinstance(a, ast.Starred) else a
            if isinstance(a2, (ast.Name, ast.Attribute, ast.Subscript)):
                if isinstance(a2, ast.Name) and a2.id == 'self':
                    continue
                chains.append(norm(subst(a2, binds)))
        yield c, chains


def reach(fn: T.Union[ast.FunctionDef, ast.AsyncFunctionDef], site: T.Optional[ast.stmt], hyp: Hyp, *,
          observer: T.Optional[Observer] = None, consts: T.Optional[T.Callable[[ast.AST], T.Any]] = None,
          whole: bool = False, calls: T.Optional[T.Callable[[ast.Call, Evaluator], T.Any]] = None,
          init_binds: T.Optional[T.Dict[str, ast.AST]] = None) -> T.List[Reach]:
    """Paths of fn on which `site` is reached (or, with whole=True, that run to a normal end) without any test
    contradicting the hypothesis.  Deduplicated by the event prefix up to the site."""
    has_while = any(isinstance(n, ast.While) for n in ast.walk(fn))
    unroll = 1 if (site is None or has_while or _in_loop(fn, site)) else 0
    paths = fn_paths(fn, unroll)
    seen: T.Set[T.Tuple[T.Any, ...]] = set()
    out: T.List[Reach] = []
    found_site = False
    for p in paths:
        if site is not None:
            idx = next((i for i, e in enumerate(p.events) if e.node is site and e.kind in ('stmt', 'iter', 'with')), None)
            if idx is None:
                continue
            prefix = p.events[:idx]
        else:
            if p.outcome not in ('fall', 'return'):
                continue
            prefix = list(p.events)
        found_site = True
        sig = tuple((id(e.node), e.kind, e.val) for e in prefix)
        if sig in seen:
            continue
        seen.add(sig)
        r = _walk(p, prefix, hyp, observer, consts, calls, init_binds)
        if r is not None:
            out.append(r)
    if site is not None and not found_site:
        raise Undecided(f'no enumerated path reaches {short(site)} (dead code or statement inside a test)')
    return out


def _walk(p: Path, prefix: T.List[Event], hyp: Hyp, observer: T.Optional[Observer],
          consts: T.Optional[T.Callable[[ast.AST], T.Any]], calls: T.Optional[T.Callable[[ast.Call, Evaluator], T.Any]] = None,
          init_binds: T.Optional[T.Dict[str, ast.AST]] = None) -> T.Optional[Reach]:
    binds: T.Dict[str, ast.AST] = dict(init_binds or {})      # parameters bound to what a caller passes (callee analysed in its call context)
    stable = dict(hyp.stable)
    volatile = dict(hyp.volatile)
    contradicted_stable = False
    contradicted_vol = False
    notes: T.Dict[str, T.Any] = {}

    attr_binds: T.Dict[str, ast.AST] = {}     # field stores of a pure expression: x.f = E  (copy propagation through fields)

    class _AttrSub(ast.NodeTransformer):
        def visit_Attribute(self, n: ast.Attribute) -> ast.AST:
            if isinstance(n.ctx, ast.Load):
                k = norm(n)
                if k in attr_binds:
                    return copy.deepcopy(attr_binds[k])
            return self.generic_visit(n)

    def sub(e: ast.AST) -> ast.AST:
        e2 = subst(e, binds)
        if attr_binds and any(isinstance(n, ast.Attribute) and norm(n) in attr_binds for n in ast.walk(e2)):
            e2 = _AttrSub().visit(copy.deepcopy(e2))
        return e2

    opaque: T.Set[str] = set()          # locals whose value the walker lost (loop-carried, unpacked, result of an impure call)
    loop_entry: T.Dict[int, T.Any] = {}

    opaque_src: T.Dict[str, T.Optional[T.Set[str]]] = {}   # where a lost local comes from (access paths), None = unknown

    def unbind(targets: T.Iterable[ast.AST], src: T.Optional[T.Set[str]] = None) -> None:
        for t in targets:
            for n in ast.walk(t):
                if isinstance(n, ast.Name):
                    binds.pop(n.id, None)
                    opaque.add(n.id)
                    opaque_src[n.id] = src
                    # bindings that read the rebound name are stale too
                    for k in [k for k, v in binds.items() if any(isinstance(x, ast.Name) and x.id == n.id for x in ast.walk(v))]:
                        binds.pop(k)
                        opaque.add(k)

    def kill(target_key: str) -> None:
        for d in (stable, volatile):
            for k in list(d):
                if any(related(target_key, c) and len(c) >= len(target_key) for c in _chains_of_key(k)):
                    d.pop(k)

    for ev in prefix:
        if observer is not None:
            verdict = observer(ev, sub, notes)
            if verdict == 'skip':
                return None
        if ev.kind == 'cond':
            e = sub(ev.node)
            for ne in [x for x in ast.walk(ev.node) if isinstance(x, ast.NamedExpr)]:
                unbind([ne.target])
                if _bindable(ne.value):
                    binds[ne.target.id] = sub(ne.value)
                    opaque.discard(ne.target.id)
            full = dict(stable)
            full.update(volatile)
            v = truth(Evaluator(full, consts, calls, hyp.atoms).ev(e))
            if v is None:
                # a test on a local whose value was lost, or through a helper that cannot be seen into
                orig_keys = list(hyp.stable) + list(hyp.volatile)
                hyp_chains = [kc for k in orig_keys for kc in _chains_of_key(k)]
                index_names: T.Set[str] = set()          # position counters used to address the hypothesised element
                for k in orig_keys:
                    try:
                        ke = ast.parse(k, mode='eval').body
                    except SyntaxError:
                        continue
                    for sn in ast.walk(ke):
                        if isinstance(sn, ast.Subscript):
                            index_names |= {x.id for x in ast.walk(sn.slice) if isinstance(x, ast.Name)}
                hyp_chains = [c for c in hyp_chains if c not in index_names]
                lost = sorted(n.id for n in ast.walk(e) if isinstance(n, ast.Name) and n.id in opaque and n.id not in binds and n.id not in index_names
                              and (opaque_src.get(n.id) is None or any(related(c, kc) for c in opaque_src[n.id] or () for kc in hyp_chains)))
                if lost:
                    notes.setdefault('unknown', []).append(f'{short(e, 60)} (local `{lost[0]}` is computed by code the rule does not follow)')
                for c, chains in _calls_touching(e, {}):
                    if INLINER is not None and INLINER(c) is not None:
                        continue
                    if any(related(ch, kc) for ch in chains for k in full for kc in _chains_of_key(k)):
                        notes.setdefault('unknown', []).append(f'{short(e, 60)} (helper `{short(c.func, 30)}` is not understood)')
                # a test that mentions a hypothesised location but is not understood
                mentioned = _chains_of_key(norm(e))
                for k, kv in full.items():
                    if isinstance(kv, bool):
                        continue      # a truth atom of the world: decided whenever it is tested as such
                    structural = isinstance(kv, (list, tuple, dict, set, frozenset))
                    for kc in _chains_of_key(k):
                        if kc in index_names:
                            continue
                        # a test *about the hypothesised value itself* (not about things reachable through it)
                        if any(c == kc or (not structural and c.startswith(kc + '.')) for c in mentioned):
                            notes.setdefault('unknown', []).append(short(e, 80))
            if v is not None and v != ev.val:
                # which part of the hypothesis decided it?
                vs = truth(Evaluator(stable, consts, calls, hyp.atoms).ev(e))
                if vs is not None and vs != ev.val:
                    contradicted_stable = True
                else:
                    contradicted_vol = True
            continue
        node = ev.node
        if node is None:
            continue
        if ev.kind == 'iter':
            fl = flag_loop(node)
            if id(node) not in loop_entry:
                loop_entry[id(node)] = binds.get(fl[0]) if fl else None
            unbind([node.target], _chains_of_key(norm(sub(node.iter))))  # type: ignore[attr-defined]
            # names assigned in the loop body are unknown afterwards; calls inside may touch owners
            for st in getattr(node, 'body', []):
                for n in ast.walk(st):
                    if isinstance(n, ast.Name) and isinstance(n.ctx, ast.Store):
                        vals = [a.value for a in ast.walk(st) if isinstance(a, ast.Assign) and any(t is n for t in a.targets)]
                        src = set().union(*[_chains_of_key(norm(v)) for v in vals]) if vals and all(_bindable(v) for v in vals) else None
                        unbind([n], src)
                for c, chains in _calls_touching(st, binds):
                    for ch in chains:
                        if any(related(ch, kc) for k in volatile for kc in _chains_of_key(k)):
                            contradicted_vol = False
            if ev.val == 'done':
                init = loop_entry.pop(id(node), None)
                if fl and isinstance(init, ast.Constant) and init.value is (not fl[1]):
                    # flag = c; for t in I: if COND: flag = not c  ==  flag = any(COND for t in I) (or its negation)
                    e2 = sub(fl[2])
                    binds[fl[0]] = e2 if fl[1] else ast.UnaryOp(op=ast.Not(), operand=e2)
                    opaque.discard(fl[0])
            continue
        if ev.kind == 'with':
            for i in node.items:  # type: ignore[attr-defined]
                if i.optional_vars is not None:
                    unbind([i.optional_vars])
            continue
        # simple statement
        # 1. calls that are handed a hypothesised owner make earlier tests on volatile facts stale
        for c, chains in _calls_touching(node, binds):
            f = c.func
            is_mut = isinstance(f, ast.Attribute) and f.attr in MUTATORS
            for ch in chains:
                for k in [k for k in attr_binds if related(ch, k)]:
                    attr_binds.pop(k)
            for ch in chains:
                if any(related(ch, kc) for k in volatile for kc in _chains_of_key(k)):
                    contradicted_vol = False
                    notes.setdefault('touched', []).append(short(c, 70))
            if is_mut and isinstance(f, ast.Attribute):
                kill(norm(sub(f.value)))
        # 2. bindings and explicit writes
        if isinstance(node, ast.Assign):
            val = node.value
            for t in node.targets:
                if isinstance(t, ast.Name):
                    v2 = sub(val)
                    unbind([t])
                    inl = INLINER(v2) if isinstance(v2, ast.Call) and INLINER is not None else None
                    if inl is not None and _bindable(inl):
                        binds[t.id] = inl                 # x = helper(..) with an expression-shaped helper: its expression
                        opaque.discard(t.id)
                    elif _bindable(val):
                        binds[t.id] = v2
                        opaque.discard(t.id)
                elif isinstance(t, (ast.Tuple, ast.List)):
                    unbind([t])
                else:
                    tk = norm(subst(t, binds))
                    was_vol = tk in volatile
                    kill(tk)
                    for k in [k for k in attr_binds if related(tk, k)]:
                        attr_binds.pop(k)
                    if len(node.targets) == 1 and not isinstance(val, ast.Constant) and _bindable(val) and attr_chain(t) is not None \
                            and not any(isinstance(n, ast.Call) and not (isinstance(n.func, ast.Attribute) and n.func.attr in STR_METHODS) for n in ast.walk(val)) \
                            and tk not in {norm(n) for n in ast.walk(val) if isinstance(n, ast.Attribute)}:
                        attr_binds[tk] = sub(val)
                    if isinstance(val, ast.Constant) and len(node.targets) == 1:
                        # a constant store decides later tests of the same location (x.f = True; if x.f:);
                        # nothing computed from inputs is ever propagated through a statement
                        (volatile if was_vol else stable)[tk] = val.value
        elif isinstance(node, ast.AnnAssign):
            if isinstance(node.target, ast.Name):
                unbind([node.target])
                if node.value is not None and _bindable(node.value):
                    binds[node.target.id] = sub(node.value)
            elif node.value is not None:
                kill(norm(sub(node.target)))
        elif isinstance(node, ast.AugAssign):
            if isinstance(node.target, ast.Name):
                unbind([node.target])
            else:
                tk = norm(sub(node.target))
                # `+=` on a hypothesised string keeps what it held; stable facts about it are gone
                for k in list(stable):
                    if any(related(tk, c) and len(c) >= len(tk) for c in _chains_of_key(k)):
                        stable.pop(k)
        elif isinstance(node, ast.Delete):
            for t in node.targets:
                if isinstance(t, ast.Name):
                    unbind([t])
                else:
                    kill(norm(sub(t)))
    if contradicted_stable or contradicted_vol:
        return None
    return Reach(p, prefix, dict(binds), notes)


def _bindable(v: ast.AST) -> bool:
    """Expressions a local may be replaced by: no impure calls (constructor calls are kept symbolic)."""
    for n in ast.walk(v):
        if isinstance(n, (ast.Await, ast.Yield, ast.YieldFrom, ast.NamedExpr, ast.Lambda)):
            return False
        if isinstance(n, ast.Call):
            f = n.func
            nm = f.attr if isinstance(f, ast.Attribute) else (f.id if isinstance(f, ast.Name) else '')
            if nm not in PURE and not (nm[:1].isupper()) and nm != 'cls':
                if INLINER is not None and INLINER(n) is not None:
                    continue              # an expression-shaped helper of the class / module
                return False
    return True
