"""C04 - the generated Ninja manifest is well-formed and closed (DESIGN section 2, C04; data sheet A.6)."""
from __future__ import annotations

import ast
import copy
import typing as T

from ..core import Undecided, Module, norm, short, attr_chain, call_name, call_method, walk_no_nested, kwarg, decorator_names, names_in
from ..cfg import Node
from ..report import Rule, RuleCtx
from .. import tables
from ..consteval import fold_const
from . import c04_lib as L

NB = 'mesonbuild/backend/ninjabackend.py'
BK = 'mesonbuild/backend/backends.py'
INTERP = 'mesonbuild/interpreter/interpreter.py'
CORE = 'mesonbuild/coredata.py'
BACKEND = 'NinjaBackend'
ELEMENT = 'NinjaBuildElement'

EXPLANATION = (
    'Decides the bookkeeping clauses of C04 that hold for every project: R1 every NinjaBuildElement created in ninjabackend.py '
    '(also through create_phony_target / generate_link) reaches add_build on every normal path of its function or is returned to a '
    'caller that does so, and add_build -> NinjaBuild.add_build -> check_outputs / build_elements / write is an unbroken chain; '
    'R2a one registry: every construction passes self.all_outputs, only check_outputs mutates it; R2b NinjaBuildElement.write raises on '
    'recorded output errors before the first write; R2c check_outputs tests and inserts every name on every iteration and never clears '
    'the error; R2d every field write() emits left of the colon is registered by check_outputs; R3 every rule-name expression of a build '
    'statement has the shape of a name passed to add_rule(NinjaRule(...)) (phony built in), R3b the _RSP variant referenced by a build '
    'statement is the variant whose reference counter is bumped and written; R4 the all / meson-test-prereq / meson-benchmark-prereq '
    'aggregates take the first output of every element of get_build_by_default_targets() / get_testlike_targets(); R5 add_target stores a '
    'target only after the forbidden-name and duplicate-id checks, and backend utility targets are created under a guard on the same name. '
    'R6 wherever an output name taken directly from Y (get_outputs() element, get_filename(), get_debug_filename(), import_filename) is joined with '
    'get_target_dir(X) in backends.py / ninjabackend.py, X is Y, and with get_target_private_dir(X) only under isinstance(Y, GeneratedList); '
    'R7 in every method of the BuildTarget family, after a write of the field get_filename() returns (or an overwrite of get_outputs()[0]) every path '
    're-assigns outputs[0] from filename before returning (classes for which generate_target writes no link statement are exempt). '
    'R8 every character that write() puts between the quoted paths of a build line is escaped by the pattern ninja_quote uses for build lines or rejected by it. '
    'R9 in the functions that feed test prerequisites and dependency paths no isinstance arm for a subclass is shadowed by an earlier base-class arm that leaves; '
    'R10 a pool named by a rule (`pool = X`) is declared (`pool X`) under a threshold condition on the same quantity that the naming condition implies. '
    'R11 every call site of a method that receives two distinct directories of the environment passes them in the same roles as the other call sites (source / build directory swapped); '
    'R12 a per-target file name that exactly one function turns into the output of a statement is handed out elsewhere only for target classes for which that function is called. '
    'R13 a per-target file name whose only producer writes its statement under a predicate of the backend on the target (depscan.json / should_use_dyndeps_for_target) is named for the '
    'members of a collection only under that predicate on the member itself (loop guard, comprehension filter or pre-filtered collection); another condition on the member is not compared. '
    'R14 a raw path taken from the link command line is added to the implicit dependencies guess_external_link_dependencies returns only under a dominating existence test of that path '
    '(paths resolved by a helper are not examined). '
    'R15 producer-side and consumer-side name of a target class agree: where the statement of a target class K is written under self.F(target) and F forms the name from fields of the '
    'target alone, one of which the generic dependency name join(self.<dir>(x), x.<outputs>()) can never read (attribute loads of the bodies it goes through), no collection whose declared '
    'member classes (annotations of the parameter / field / getter, minus isinstance filters of a comprehension) admit a K is handed to a generic dependency namer that has no isinstance arm for K '
    '(run_target: build_run_target_name reads target.subproject, get_paths_for_dep_outputs does not). Does NOT decide that the filtered-out members are then named through F (a dropped '
    'dependency is not an unproduced input), nor agreement of two names that read the same fields (value-level). '
    'The aggregate inputs of R4 are read in the table loop itself, in a comprehension, or in a generator / list-building helper that receives the targets of the row; a conditional-expression operand '
    'of yield / return / assignment is read as the if/else statement of both instances in every decision table of the pack. '
    'Not decided (declared limits): which of two in-scope objects a filter records (BuildTarget.extract_objects appending the parent target instead of the requested source is a '
    'value-level choice);  agreement between the condition under which a precompiled header is listed as a dependency and the condition under which its '
    'statement is generated (needs relating computed file names across functions);  equality of output paths modulo normalisation (`x/o` vs `./x/o`: the registry compares the strings it is given); files the backend '
    'creates itself at configure time (library alias symlinks) against statement outputs; arithmetic agreement of the unity-file count in _determine_ext_objs with the '
    'chunking loop of generate_unity_files; path identity tests in the legacy Fortran scanner (samefile vs ==). '
    'Does NOT decide which strings a configure-time validation predicate rejects (validate_build_subdir narrowing `\'..\' in build_subdir` to a test on the normalised path is a value-level '
    'change of a string predicate; the collision it lets through is between two spellings of one directory, see path normalisation above). '
    'Does NOT decide whether the inputs of one statement differ from its own outputs when both are values computed elsewhere (generate_prelink constructing its element after '
    '`obj_list` was re-bound to the first result of get_prelink_args, which is the output name itself: a self-cycle that depends on what a compiler method returns - a value-level fact; '
    'no rule reads the order of a construction relative to re-bindings of its argument locals). '
    'Does NOT decide whether a memo that lets a generating function return early is keyed on everything its statements depend on (generate_genlist_for_target skipping a GeneratedList '
    'it has seen for another consumer although the outputs live in the private directory of each consumer: which statements exist for a concrete project, i.e. existence of inputs). '
    'The build line may be formed in NinjaBuildElement.write or in one argument-less method of the element whose result write() hands to the file; build elements may be constructed '
    'directly or through a creation method of the backend (`return NinjaBuildElement(self.all_outputs, <parameters>)`); the registration phase of add_target may be a private method called from add_target alone; the variants NinjaRule.write loops over may come from a generator, an appended local list, a comprehension over a display of (suffix, counter) records, or a helper returning one of these; the escaping of ninja_quote may be a character-class pattern or a str.translate table; a returned dependency list may be a component of the tuple a backend method returns (R14); a `match` over a name whose cases bind nothing is read as the if/elif/else chain of the same isinstance / equality tests (other matches stay Undecided). '
    'Does NOT decide acyclicity, existence of inputs, reachability from `all` of a concrete project, whether the guard under which a '
    'rule is defined (language present, machine is AIX...) agrees with the guard under which it is used, or whether a backend utility target that is '
    'neither reserved nor guarded is acceptable (a collision is then still rejected at generation time by R1/R2, e.g. coverage-sonarqube).')
ASSUMPTIONS = [
    'coredata.compilers[machine] is keyed by language name and compiler.get_language() equals that key',
    'exceptions abort the generation: only normal paths (and handler paths that continue) must register an element',
    'helpers that receive an element (add_header_deps, generate_coverage_command, ...) do not replace or drop it',
]
TECHNIQUE = ('CFG reachability/dominance per function (all-paths pairing created -> registered | returned, guards that dominate), def-use chains by '
             'CFG reaching definitions with scoped origin sets (which self.<field> flows into an expression), who-may-write scans, decision tables '
             'with world enumeration (sa.tables), and comparison of the normalised shape of rule-name expressions (constant text, constant format '
             'strings, operand roles such as <compiler>.get_language(); the two constants of PerMachine(a, b)[m], if/else arms, reaching definitions and '
             'call sites of single-return helpers give finitely many alternatives).  No function body is interpreted on input values.')

REGISTER = {'self.add_build', 'self.ninja.add_build'}
REGISTER_RULE = {'self.add_rule', 'self.ninja.add_rule'}


# ----------------------------------------------------------------------------
def _infos(ctx: RuleCtx) -> L.Infos:
    """Per-run cache of lazily built CFGs (kept on the Repo object, not in the evidence)."""
    mod = ctx.repo.module(NB)
    cur = getattr(ctx.repo, '_c04_infos', None)
    if cur is None or cur.mod is not mod:
        cur = L.Infos(mod)
        setattr(ctx.repo, '_c04_infos', cur)
    return cur


def _backend_funcs(mod: Module) -> T.Dict[str, ast.AST]:
    p = BACKEND + '.'
    return {q: f for q, f in mod.funcs().items() if q.startswith(p)}


_CALLS: T.Dict[int, T.Tuple[ast.AST, T.List[ast.Call]]] = {}


def _own_calls(fn: ast.AST) -> T.List[ast.Call]:
    hit = _CALLS.get(id(fn))
    if hit is None or hit[0] is not fn:
        if len(_CALLS) > 20000:
            _CALLS.clear()
        hit = (fn, [c for c in walk_no_nested(fn, include_root=False) if isinstance(c, ast.Call)])
        _CALLS[id(fn)] = hit
    return hit[1]


def _extract(fn: T.Any, *, body: T.Optional[T.Sequence[ast.stmt]] = None, **kw: T.Any) -> tables.Table:
    """sa.tables.extract over the normal form of the statements: `yield/return/assign a if c else b` is the if/else statement of both instances."""
    return tables.extract(fn, body=L.split_ifexp_stmts(body if body is not None else fn.body), **kw)


def _is_ctor(c: ast.Call, name: str) -> bool:
    f = c.func
    return (isinstance(f, ast.Name) and f.id == name) or (isinstance(f, ast.Attribute) and f.attr == name)


class _Bound(dict):  # type: ignore[type-arg]
    """param -> argument expression; asking for a parameter that star arguments may have bound is Undecided."""
    call: T.Optional[ast.Call] = None

    def get(self, k: str, default: T.Any = None) -> T.Any:
        if k in self:
            return self[k]
        if '*' in self or '**' in self:
            raise Undecided(f'`{short(self.call, 70)}`: parameter `{k}` may be bound by star arguments')
        return default


def _bound(mod: Module, c: ast.Call, qn: str, implicit_first: bool = True) -> _Bound:
    """Arguments of a call bound by the signature of the repository function `qn` of `mod`."""
    b = _Bound(L.bind_call(c, mod.func(qn), implicit_first) or {})
    b.call = c
    return b


def _elem_args(mod: Module, c: ast.Call) -> _Bound:
    return _bound(mod, c, f'{ELEMENT}.__init__')


def _element_factories(mod: Module) -> T.Dict[str, ast.Call]:
    """Creation methods of the backend: the body (after a docstring) is the one statement `return NinjaBuildElement(...)`; name -> that construction."""
    hit = getattr(mod, '_c04_factories', None)
    if hit is not None:
        return hit      # type: ignore[no-any-return]
    out: T.Dict[str, ast.Call] = {}
    setattr(mod, '_c04_factories', out)
    for q, f in _backend_funcs(mod).items():
        body = [st for st in f.body if not (isinstance(st, ast.Expr) and isinstance(st.value, ast.Constant) and isinstance(st.value.value, str))]
        if len(body) == 1 and isinstance(body[0], ast.Return) and isinstance(body[0].value, ast.Call) and _is_ctor(body[0].value, ELEMENT) \
                and q.count('.') == 1 and not ({'staticmethod', 'classmethod'} & set(decorator_names(f))):
            out[q.split('.')[-1]] = body[0].value
    return out


def _construction_args(mod: Module, c: ast.Call) -> T.Optional[_Bound]:
    """Constructor parameter -> argument expression *at this site* for a direct `NinjaBuildElement(...)` and for a call of a creation method
    (`self._new(outs, rule, ins)` with `def _new(self, o, r, i): return NinjaBuildElement(self.all_outputs, o, r, i)`): a constructor argument
    that is a parameter of the creation method is the argument (or constant default) the site binds to it.  None: not a construction."""
    if _is_ctor(c, ELEMENT):
        return _elem_args(mod, c)
    cn = call_name(c) or ''
    if not (cn.startswith('self.') and cn.count('.') == 1):
        return None
    ctor = _element_factories(mod).get(cn[5:])
    if ctor is None:
        return None
    fq = f'{BACKEND}.{cn[5:]}'
    f = mod.func(fq)
    site = _bound(mod, c, fq)
    inner = _elem_args(mod, ctor)
    if '*' in site or '**' in site or '*' in inner or '**' in inner:
        raise Undecided(f'`{short(c, 60)}`: star arguments at a creation method of build elements')
    qa = f.args
    dflt = dict(zip(reversed([a_.arg for a_ in qa.posonlyargs + qa.args]), reversed(qa.defaults)))
    dflt.update({a_.arg: d_ for a_, d_ in zip(qa.kwonlyargs, qa.kw_defaults) if d_ is not None})
    params = set(_param_names(f))
    out = _Bound()
    out.call = c
    for k, v in inner.items():
        if isinstance(v, ast.Name) and v.id in params:
            v2 = dict.get(site, v.id, dflt.get(v.id))
            if v2 is not None:
                out[k] = v2
        elif any(isinstance(x, ast.Name) and x.id in params for x in ast.walk(v)):
            raise Undecided(f'{fq}: constructor argument `{short(v, 50)}` is computed from a parameter of the creation method')
        else:
            out[k] = v
    return out


def _passes(mod: Module, c: ast.Call, qn: str, var: str, param_index: int = 0) -> bool:
    """Does call `c` pass the local `var` as the parameter number `param_index` of repository function `qn`?"""
    ps = _param_names(mod.func(qn))
    b = L.bind_call(c, mod.func(qn), True)
    if b is None or param_index >= len(ps):
        return False
    v = dict.get(b, ps[param_index])
    return isinstance(v, ast.Name) and v.id == var


def _uses_file(c: ast.Call, fileparam: str) -> bool:
    """A call that can write to the file: a method of it (write, writelines, ...) or any call that receives it (print(file=f), a helper)."""
    if isinstance(c.func, ast.Attribute) and isinstance(c.func.value, ast.Name) and c.func.value.id == fileparam:
        return True
    return any(isinstance(a, ast.Name) and a.id == fileparam for a in list(c.args) + [k.value for k in c.keywords])


def _written_exprs(c: ast.Call) -> T.List[ast.AST]:
    """The text expressions a file-writing call emits: its arguments, with list/tuple displays (writelines) opened."""
    out: T.List[ast.AST] = []
    for a in list(c.args) + [k.value for k in c.keywords if k.arg not in ('file', 'end', 'sep', 'flush')]:
        if isinstance(a, (ast.List, ast.Tuple)):
            out.extend(a.elts)
        else:
            out.append(a)
    return out


def _absence_provable(info: L.FnInfo, what: str, param: T.Optional[str] = None, ignore: T.Iterable[str] = ()) -> None:
    """An obligation was not found in `info` at all.  That is a finding only if nothing in the function could discharge it in a form
    the rule does not read: a call to a helper of the same class / module, or a method call on the tracked parameter.  Otherwise Undecided."""
    ign = set(ignore)
    for n in info.cfg.nodes:
        for c in L.node_calls(n):
            cn = call_name(c) or ''
            if cn in ign:
                continue
            passed = {a.id for a in list(c.args) + [k.value for k in c.keywords] if isinstance(a, ast.Name)}
            hide = (cn.startswith(('self.', 'cls.')) and cn.count('.') == 1) or \
                (isinstance(c.func, ast.Name) and info.mod.has_func(c.func.id) and bool(passed & ({'self'} | ({param} if param else set())))) or \
                (param is not None and cn.startswith(param + '.') and cn.count('.') == 1)
            if hide:
                raise Undecided(f'{info.qn}: {what} not found, but `{short(c, 60)}` may do it in a form the rule does not read')


def _dominates_exit(info: L.FnInfo, nodes: T.List[Node]) -> bool:
    return bool(nodes) and info.cfg.exit_return.id not in info.reach(info.cfg.entry, nodes)


def _param_names(fn: ast.AST, skip_self: bool = True) -> T.List[str]:
    a = fn.args  # type: ignore[attr-defined]
    names = [x.arg for x in a.posonlyargs + a.args]
    return names[1:] if skip_self and names and names[0] in ('self', 'cls') else names


# ----------------------------------------------------------------------------
# R1  every edge is registered
# ----------------------------------------------------------------------------
def r1(ctx: RuleCtx) -> None:
    mod = ctx.repo.module(NB)
    infos = _infos(ctx)
    reg = L.Registrar(infos, BACKEND, REGISTER)

    # the registration chain: NinjaBackend.add_build -> NinjaBuild.add_build -> check_outputs + build_elements -> write
    ab = infos.get(f'{BACKEND}.add_build')
    p = _param_names(ab.fn)
    fwd = [n for n in ab.cfg.nodes if any(call_name(c) == 'self.ninja.add_build' and p and _passes(mod, c, 'NinjaBuild.add_build', p[0]) for c in L.node_calls(n))]
    if not fwd:
        _absence_provable(ab, 'the call that forwards the element to self.ninja.add_build', p[0] if p else None)
    ctx.require(_dominates_exit(ab, fwd) and not ab.defs().get(p[0] if p else '', []),
                'NinjaBackend.add_build forwards its element to self.ninja.add_build on every path', mod, f'{BACKEND}.add_build', ab.fn,
                'NinjaBackend.add_build does not hand its parameter to self.ninja.add_build on every path: elements passed to it are lost')
    init = mod.func(f'{BACKEND}.__init__')
    nin = [st for st in ast.walk(init) if isinstance(st, ast.Assign) and any(attr_chain(t) == 'self.ninja' for t in st.targets)]
    others = [q for q, f in _backend_funcs(mod).items() if q != f'{BACKEND}.__init__'
              for st in walk_no_nested(f) if isinstance(st, (ast.Assign, ast.AnnAssign, ast.AugAssign))
              for t in (st.targets if isinstance(st, ast.Assign) else [st.target]) if attr_chain(t) == 'self.ninja']
    ctx.require(len(nin) == 1 and isinstance(nin[0].value, ast.Call) and call_name(nin[0].value) == 'NinjaBuild' and not others,
                'self.ninja is the NinjaBuild() created in __init__ and never rebound', mod, f'{BACKEND}.__init__', 'self.ninja',
                f'self.ninja is not bound exactly once to NinjaBuild() (other writers: {others})')
    nb = infos.get('NinjaBuild.add_build')
    bp = _param_names(nb.fn)
    if not bp:
        raise Undecided('NinjaBuild.add_build has no element parameter')
    chk = [n for n in nb.cfg.nodes if any(call_name(c) == f'{bp[0]}.check_outputs' for c in L.node_calls(n))]
    app = [n for n in nb.cfg.nodes if any(call_name(c) == 'self.build_elements.append' and c.args and isinstance(c.args[0], ast.Name)
                                          and c.args[0].id == bp[0] for c in L.node_calls(n))]
    if not chk:
        _absence_provable(nb, 'the call of check_outputs() on the element', bp[0])
    if not app:
        _absence_provable(nb, 'the append of the element to build_elements', bp[0], ignore=[f'{bp[0]}.check_outputs'])
    ctx.require(_dominates_exit(nb, chk) and not nb.defs().get(bp[0], []), 'NinjaBuild.add_build calls check_outputs() of the element on every path', mod,
                'NinjaBuild.add_build', f'{bp[0]}.check_outputs()',
                'NinjaBuild.add_build can return without calling check_outputs() on the element: its outputs are never entered in the registry')
    ctx.require(_dominates_exit(nb, app), 'NinjaBuild.add_build appends the element to build_elements on every path', mod,
                'NinjaBuild.add_build', f'self.build_elements.append({bp[0]})',
                'NinjaBuild.add_build can return without appending the element to build_elements: the statement is never written')
    # who appends to build_elements
    writers = set()
    for q, f in mod.funcs().items():
        for c in _own_calls(f):
            if isinstance(c.func, ast.Attribute) and c.func.attr in L.MUTATORS | {'remove', 'pop', 'clear'} and \
                    isinstance(c.func.value, ast.Attribute) and c.func.value.attr == 'build_elements':
                writers.add(q)
    ctx.require(writers == {'NinjaBuild.add_build', 'NinjaBuild.add_build_comment'}, f'build_elements is mutated only by {sorted(writers)}', mod,
                'NinjaBuild', 'build_elements writers', f'build_elements is mutated by {sorted(writers)}; only add_build/add_build_comment may')
    # NinjaBuild.write writes every element
    wr = infos.get('NinjaBuild.write')
    wp = _param_names(wr.fn)
    tr = L.Tracer(wr)
    loops = [n for n in wr.cfg.nodes if n.kind == 'iter' and 'build_elements' in L.self_fields(tr.origins(n.ast.iter, n))]  # type: ignore[union-attr]
    okw = False
    for ln in loops:
        tv = ln.ast.target  # type: ignore[union-attr]
        if not isinstance(tv, ast.Name):
            continue
        wn = [n for n in wr.cfg.nodes if any(call_name(c) == f'{tv.id}.write' and wp and _passes(mod, c, f'{ELEMENT}.write', wp[0]) for c in L.node_calls(n))]
        if not wn:
            continue
        body_starts = [wr.cfg.nodes[b] for b, lab in wr.cfg.succ[ln.id] if lab == 'iter']
        esc = False
        for s in body_starts:
            if s in wn:
                continue
            r = wr.cfg.reachable([s], wn, include_start=True)
            if ln.id in r or wr.cfg.exit_return.id in r:
                esc = True
        if not esc:
            okw = True
    if not okw and not any(isinstance(ln.ast.target, ast.Name) and any(call_name(c) == f'{ln.ast.target.id}.write' for n in wr.cfg.nodes for c in L.node_calls(n))  # type: ignore[union-attr]
                           for ln in loops):
        raise Undecided('NinjaBuild.write: no loop over build_elements that calls write() on its variable was recognised')
    ctx.require(okw, 'NinjaBuild.write calls write(outfile) on every element of build_elements', mod, 'NinjaBuild.write', wr.fn,
                'NinjaBuild.write: an iteration of the loop over build_elements can finish without calling write(outfile) on the element')

    # creation sites
    funcs = _backend_funcs(mod)
    ctor_sites: T.List[T.Tuple[str, ast.Call]] = []
    for q, f in funcs.items():
        for c in _own_calls(f):
            if _is_ctor(c, ELEMENT):
                ctor_sites.append((q, c))
    producers: T.Dict[str, str] = {}
    pending = list(ctor_sites)
    seen_calls: T.Set[int] = set()
    counts = {'ctor': 0, 'producer-call': 0}
    per_producer: T.Dict[str, int] = {}
    while pending:
        q, c = pending.pop(0)
        if id(c) in seen_calls:
            continue
        seen_calls.add(id(c))
        info = infos.get(q)
        via = call_method(c) if not _is_ctor(c, ELEMENT) else None
        res = L.pairing(info, c, reg)
        what = f'{q}: {short(c, 90)}'
        if via:
            counts['producer-call'] += 1
            per_producer[via] = per_producer.get(via, 0) + 1
        else:
            counts['ctor'] += 1
        if res.status == 'violated':
            ctx.violation(mod, q, c, f'build statement {"obtained from " + via if via else "created"} here is not registered: {res.detail}', c)
            continue
        ctx.ok(f'{what} -> {res.status}')
        if res.status == 'returned':
            meth = q.split('.')[-1]
            if meth not in producers:
                producers[meth] = q
                for q2, f2 in funcs.items():
                    for c2 in _own_calls(f2):
                        if call_name(c2) == f'self.{meth}':
                            pending.append((q2, c2))
    ctx.floor('NinjaBuildElement constructions in NinjaBackend', counts['ctor'], 1)
    ctx.floor('call sites of create_phony_target', per_producer.get('create_phony_target', 0), 1)
    ctx.floor('call sites of generate_link', per_producer.get('generate_link', 0), 1)
    ctx.note(f'element producers (return the element to the caller): {sorted(producers)}')

    # nobody else builds elements (expected zero) - the scan is live: it finds the 36 constructions above
    files = ctx.repo.py_files('mesonbuild') if ctx.thorough else ctx.repo.py_files('mesonbuild/backend')
    outside: T.List[str] = []
    inside = 0
    for rel in files:
        src = ctx.repo.read(rel)
        if ELEMENT not in src and not any(p in src for p in producers):
            continue    # a construction needs the identifier in the text: sound prefilter
        m2 = ctx.repo.module(rel)
        for q, f in m2.funcs().items():
            for c in _own_calls(f):
                if _is_ctor(c, ELEMENT) or (isinstance(c.func, ast.Attribute) and c.func.attr in producers):
                    if rel == NB and q.startswith(BACKEND + '.'):
                        inside += 1
                    else:
                        outside.append(f'{rel}:{q}')
    ctx.floor('scan for element constructions is live (matches inside NinjaBackend)', inside, 1)
    ctx.require(not outside, f'no build statement is created outside NinjaBackend ({len(files)} files scanned)', mod, BACKEND, 'NinjaBuildElement(...) outside NinjaBackend',
                f'build statements are created outside NinjaBackend, where the pairing with add_build is not checked: {outside}')


# ----------------------------------------------------------------------------
# R2  one output registry
# ----------------------------------------------------------------------------
SET_MUT = {'add', 'update', 'discard', 'remove', 'pop', 'clear', 'difference_update', 'intersection_update', 'symmetric_difference_update'}


def r2a(ctx: RuleCtx) -> None:
    mod = ctx.repo.module(NB)
    n = 0
    for q, f in _backend_funcs(mod).items():
        for c in _own_calls(f):
            if not _is_ctor(c, ELEMENT):
                continue
            n += 1
            first = _elem_args(mod, c).get(_param_names(mod.func(f'{ELEMENT}.__init__'))[0])
            ctx.require(first is not None and attr_chain(first) == 'self.all_outputs', f'{q}: {short(c, 70)} uses the shared registry', mod, q, c,
                        f'the registry argument is `{short(first, 40)}`, not self.all_outputs: outputs of this statement are checked against a different set', c)
    ctx.floor('constructions checked for the registry argument', n, 1)
    # __init__ stores the first parameter
    init = mod.func(f'{ELEMENT}.__init__')
    ps = _param_names(init)
    stores = [st for st in ast.walk(init) if isinstance(st, ast.Assign) and any(attr_chain(t) == 'self.all_outputs' for t in st.targets)]
    ctx.require(len(stores) == 1 and isinstance(stores[0].value, ast.Name) and ps and stores[0].value.id == ps[0],
                'NinjaBuildElement.__init__ keeps its first parameter as self.all_outputs', mod, f'{ELEMENT}.__init__', 'self.all_outputs = <first parameter>',
                'NinjaBuildElement.__init__ does not store its first parameter (the shared registry) in self.all_outputs')
    # who touches `.all_outputs`
    files = ctx.repo.py_files('mesonbuild') if ctx.thorough else ctx.repo.py_files('mesonbuild/backend')
    live = 0
    for rel in files:
        m2 = ctx.repo.module(rel)
        if '.all_outputs' not in m2.src:
            continue
        pm = m2.parent_map()

        def classify(node: ast.AST) -> T.Tuple[str, T.Optional[ast.AST]]:
            """How one occurrence of the registry (the attribute, or a local alias of it) is used."""
            par = pm.get(node)
            if isinstance(getattr(node, 'ctx', None), (ast.Store, ast.Del)):
                return 'rebind', par
            if isinstance(par, ast.AugAssign) and par.target is node:
                return 'rebind', par
            if isinstance(par, ast.Attribute) and isinstance(pm.get(par), ast.Call) and pm[par].func is par:  # type: ignore[union-attr]
                return ('mutate' if par.attr in SET_MUT else 'method:' + par.attr), par
            call_par = par if isinstance(par, ast.Call) and node in par.args else (pm.get(par) if isinstance(par, ast.keyword) else None)
            if isinstance(call_par, ast.Call):
                if _is_ctor(call_par, ELEMENT) and rel == NB:
                    b = L.bind_call(call_par, m2.func(f'{ELEMENT}.__init__'), True)
                    if b is not None and b.get(_param_names(m2.func(f'{ELEMENT}.__init__'))[0]) is node:
                        return 'ctor-arg', call_par
                return 'escape', call_par
            if isinstance(par, ast.Compare) and node in par.comparators and all(isinstance(o, (ast.In, ast.NotIn)) for o in par.ops):
                return 'membership', par
            if isinstance(par, (ast.Assign, ast.AnnAssign)) and par.value is node:
                tg = par.targets if isinstance(par, ast.Assign) else [par.target]
                if len(tg) == 1 and isinstance(tg[0], ast.Name):
                    return 'alias:' + tg[0].id, par
                return 'escape', par
            if isinstance(par, (ast.Return, ast.Tuple, ast.List, ast.Dict, ast.Set, ast.Starred, ast.NamedExpr)):
                return 'escape', par
            return 'read', par

        def judge(node: ast.AST, q: str, depth: int = 0) -> None:
            nonlocal live
            kind, par = classify(node)
            if kind in ('rebind', 'mutate'):
                if isinstance(node, ast.Name):
                    if kind == 'rebind':
                        return       # the alias definition itself
                live += 1
                ok = (rel == NB and q in (f'{BACKEND}.__init__', f'{ELEMENT}.__init__')) if kind == 'rebind' else \
                    (rel == NB and q == f'{ELEMENT}.check_outputs' and isinstance(par, ast.Attribute) and par.attr == 'add')
                shown = pm.get(par, par) if kind == 'mutate' else (par or node)
                ctx.require(ok, f'{rel}:{q}: {kind} of {norm(node)} by its owner', m2, q, shown,
                            f'`{short(shown, 80)}` writes the output registry outside NinjaBackend.__init__ / NinjaBuildElement.check_outputs', node)
            elif kind.startswith('alias:'):
                # a local name for the registry: every use of that local in the function is judged like the attribute itself
                alias = kind[6:]
                fnode = m2.funcs().get(q)
                if fnode is None or depth > 0:
                    raise Undecided(f'{rel}:{q}: `{short(par, 80)}` aliases the output registry outside a plain function body')
                stores = [x for x in walk_no_nested(fnode) if isinstance(x, ast.Name) and x.id == alias and isinstance(x.ctx, (ast.Store, ast.Del))]
                if len(stores) != 1:
                    raise Undecided(f'{rel}:{q}: the alias `{alias}` of the output registry is bound {len(stores)} times')
                for x in ast.walk(fnode):
                    if isinstance(x, ast.Name) and x.id == alias and isinstance(x.ctx, ast.Load):
                        judge(x, q, depth + 1)
            elif kind == 'escape' or kind.startswith('method:') and kind[7:] not in ('copy', '__contains__', 'isdisjoint', 'issubset', 'issuperset', 'union', 'intersection', 'difference'):
                raise Undecided(f'{rel}:{q}: `{short(par, 80)}` lets the output registry escape ({kind}); aliases are only tracked as plain locals')

        for node in ast.walk(m2.tree):
            if isinstance(node, ast.Attribute) and node.attr == 'all_outputs':
                judge(node, m2.enclosing_func(node) or '<module>')
    ctx.floor('writers of the registry found by the scan (init + check_outputs.add)', live, 1)


def _errors_polarity(info: L.FnInfo, n: Node) -> T.Optional[bool]:
    """For a test node: the edge label taken when self.output_errors is set; None if the test is not about it."""
    test = L.inline_locals(info, n.ast.test, n)  # type: ignore[union-attr]
    if 'output_errors' not in norm(test):
        return None
    pol = True
    e = test
    while isinstance(e, ast.UnaryOp) and isinstance(e.op, ast.Not):
        pol = not pol
        e = e.operand
    if attr_chain(e) == 'self.output_errors':
        return pol
    if isinstance(e, ast.Call) and call_name(e) == 'bool' and len(e.args) == 1 and attr_chain(e.args[0]) == 'self.output_errors':
        return pol
    if isinstance(e, ast.Compare) and len(e.ops) == 1 and isinstance(e.left, ast.Call) and call_name(e.left) == 'len' and len(e.left.args) == 1 and \
            attr_chain(e.left.args[0]) == 'self.output_errors' and isinstance(e.comparators[0], ast.Constant) and isinstance(e.comparators[0].value, int):
        k, op = e.comparators[0].value, e.ops[0]
        if (isinstance(op, ast.Gt) and k == 0) or (isinstance(op, ast.GtE) and k == 1) or (isinstance(op, ast.NotEq) and k == 0):
            return pol
        if (isinstance(op, ast.Eq) and k == 0) or (isinstance(op, ast.Lt) and k == 1) or (isinstance(op, ast.LtE) and k == 0):
            return not pol
    if isinstance(e, ast.Compare) and len(e.ops) == 1:
        l, r = e.left, e.comparators[0]
        if attr_chain(r) == 'self.output_errors':
            l, r = r, l
        if attr_chain(l) == 'self.output_errors' and isinstance(r, ast.Constant) and r.value in ('', None):
            if isinstance(e.ops[0], (ast.NotEq, ast.IsNot)):
                return pol
            if isinstance(e.ops[0], (ast.Eq, ast.Is)):
                return not pol
    raise Undecided(f'{info.qn}: test `{short(n.ast.test, 60)}` mentions output_errors in a form the rule does not understand')  # type: ignore[union-attr]


def r2b(ctx: RuleCtx) -> None:
    mod = ctx.repo.module(NB)
    info = _infos(ctx).get(f'{ELEMENT}.write')
    cfg = info.cfg
    ps = _param_names(info.fn)
    if not ps:
        raise Undecided('NinjaBuildElement.write has no file parameter')
    # a write: outfile.write(...) or handing the file to any other call (a helper that writes)
    writes = [n for n in cfg.nodes if any(_uses_file(c, ps[0]) for c in L.node_calls(n))]
    ctx.floor('statements of NinjaBuildElement.write that write to the file', len(writes), 1)

    def error_guards(fi: L.FnInfo, ws: T.List[Node], depth: int = 0) -> T.List[Node]:
        """Nodes after which self.output_errors is known to be empty: a test whose "set" edge only raises, or a helper that is such a guard throughout."""
        out: T.List[Node] = []
        c2 = fi.cfg
        for n in c2.nodes:
            if n.kind == 'test' and isinstance(n.ast, ast.If):
                pol = _errors_polarity(fi, n)
                if pol is None:
                    continue
                seterr = [c2.nodes[b] for b, lab in c2.succ[n.id] if lab is pol]
                r = c2.reachable(seterr, [], include_start=True)
                if c2.exit_return.id in r or any(w.id in r for w in ws) or c2.exit_raise.id not in r:
                    continue   # errors set, yet the statement can still be written / the function return normally
                out.append(n)
            elif depth == 0:
                for c in L.node_calls(n):
                    cn = call_name(c) or ''
                    if cn.startswith('self.') and cn.count('.') == 1 and not c.args and not c.keywords and mod.has_func(f'{ELEMENT}.{cn[5:]}'):
                        hi = _infos(ctx).get(f'{ELEMENT}.{cn[5:]}')
                        hg = error_guards(hi, [], 1)
                        if hg and hi.cfg.exit_return.id not in hi.reach(hi.cfg.entry, hg):
                            out.append(n)
        return out
    guards = error_guards(info, writes)
    if not guards:
        _absence_provable(info, 'a raising test on self.output_errors')
    bad = [w for w in writes if not guards or not cfg.dominated_by_any(w, guards)]
    # the guard must also be passed before a normal return (an element with errors never completes silently)
    silent = not guards or cfg.exit_return.id in info.reach(cfg.entry, guards)
    ctx.require(not bad and not silent, f'write(): the output_errors raise dominates all {len(writes)} writes and the normal exit', mod, f'{ELEMENT}.write',
                bad[0].ast if bad else info.fn,
                'NinjaBuildElement.write can emit text (or return) without first raising on self.output_errors: a duplicate output recorded by '
                'check_outputs is written to build.ninja instead of being rejected', bad[0].ast if bad else None)


def _truthy_str(e: ast.AST) -> T.Optional[bool]:
    if isinstance(e, ast.Constant):
        return bool(e.value)
    if isinstance(e, ast.JoinedStr):
        return True if any(isinstance(v, ast.Constant) and v.value for v in e.values) else None
    if isinstance(e, ast.BinOp) and isinstance(e.op, (ast.Add, ast.Mod)):
        a = _truthy_str(e.left)
        return True if a else None
    if isinstance(e, ast.Call) and isinstance(e.func, ast.Attribute) and e.func.attr == 'format':
        return True if _truthy_str(e.func.value) else None
    return None


def _registering_loops(info: L.FnInfo) -> T.List[T.Tuple[Node, str, T.List[Node]]]:
    """Loops of check_outputs whose body inserts the loop variable into self.all_outputs."""
    out = []
    for n in info.cfg.nodes:
        if n.kind != 'iter':
            continue
        body = set()
        for st in n.ast.body:  # type: ignore[union-attr]
            for x in ast.walk(st):
                body.add(id(x))
        # the registered name: the loop variable, or a local that is (re)defined in every iteration (`n = names[i]`)
        per_var: T.Dict[str, T.List[Node]] = {}
        for m in info.cfg.nodes:
            if m.ast is None or id(m.ast) not in body:
                continue
            for c in L.node_calls(m):
                if isinstance(c.func, ast.Attribute) and c.func.attr == 'add' and attr_chain(L.inline_locals(info, c.func.value, m)) == 'self.all_outputs' \
                        and len(c.args) == 1 and isinstance(c.args[0], ast.Name):
                    v = c.args[0].id
                    is_loop_var = isinstance(n.ast.target, ast.Name) and n.ast.target.id == v  # type: ignore[union-attr]
                    defs = info.defs().get(v, [])
                    if is_loop_var or (defs and all(d.node.ast is not None and id(d.node.ast) in body for d in defs)):
                        per_var.setdefault(v, []).append(m)
        for v, adds in per_var.items():
            out.append((n, v, adds))
    return out


def r2c(ctx: RuleCtx) -> None:
    mod = ctx.repo.module(NB)
    qn = f'{ELEMENT}.check_outputs'
    info = _infos(ctx).get(qn)
    cfg = info.cfg
    loops = _registering_loops(info)
    if not loops:
        # a violation only if nothing in the function could be doing the insertion in a form this rule does not read
        tr0 = L.Tracer(info)
        for n in cfg.nodes:
            for c in L.node_calls(n):
                cn = call_name(c) or ''
                if cn.startswith('self.') and cn.count('.') == 1:
                    raise Undecided(f'check_outputs: no registering loop found, but `{short(c, 60)}` may register the names')
                recv = c.func.value if isinstance(c.func, ast.Attribute) else None
                for e in ([recv] if recv is not None else []) + list(c.args):
                    if 'attr:self.all_outputs' in tr0.origins(e, n) and not (isinstance(c.func, ast.Attribute) and c.func.attr in ('discard', 'remove', 'clear', 'pop')):
                        raise Undecided(f'check_outputs: no registering loop found, but `{short(c, 60)}` touches the registry in a form the rule does not read')
        ctx.violation(mod, qn, 'self.all_outputs.add(<output name>)', 'check_outputs has no loop that inserts the names it iterates into self.all_outputs: '
                      'no output is ever registered, duplicates between statements go unnoticed', info.fn)
    for ln, v, adds in loops:
        starts = [cfg.nodes[b] for b, lab in cfg.succ[ln.id] if lab == 'iter']
        it_txt = short(ln.ast.iter, 50)  # type: ignore[union-attr]
        # the membership test of this loop variable against the registry
        tests = []
        in_body = {id(x) for st in ln.ast.body for x in ast.walk(st)}  # type: ignore[union-attr]
        for n in cfg.nodes:
            if n.kind != 'test' or id(n.ast) not in in_body:
                continue
            t = L.inline_locals(info, n.ast.test, n)  # type: ignore[union-attr]
            pol = True
            while isinstance(t, ast.UnaryOp) and isinstance(t.op, ast.Not):
                pol = not pol
                t = t.operand
            mb = _membership(t)
            if mb is not None and attr_chain(mb[1]) == 'self.all_outputs' and \
                    norm(mb[0]) in (v, norm(L.inline_locals(info, ast.Name(id=v, ctx=ast.Load()), n))):
                tests.append((n, pol if mb[2] else not pol))
        if not tests:
            for st in ln.ast.body:  # type: ignore[union-attr]
                for x in ast.walk(st):
                    if isinstance(x, ast.Call) and (call_name(x) or '').startswith('self.') and (call_name(x) or '').count('.') == 1:
                        raise Undecided(f'check_outputs: no membership test on `{v}` recognised, but `{short(x, 50)}` may do it')
                    if isinstance(x, ast.Compare) and any(isinstance(o, (ast.In, ast.NotIn)) for o in x.ops):
                        raise Undecided(f'check_outputs: membership test `{short(x, 50)}` is in a form the rule does not read')
            ctx.violation(mod, qn, ln.ast.iter, f'the loop that registers `{v}` never tests `{v} in self.all_outputs`: a second producer of the same output is not detected', ln.ast)  # type: ignore[union-attr]
            continue
        if len(tests) != 1:
            raise Undecided(f'check_outputs: {len(tests)} membership tests for {v}')
        tn, pol = tests[0]

        # (1) every iteration in which the name is *not yet* registered inserts it (on the already-present edge nothing needs to be added)
        def not_present_edge(a: Node, b: Node, lab: T.Any, tn: Node = tn, pol: bool = pol) -> bool:
            return not (a.id == tn.id and lab is pol)
        esc = False
        for s in starts:
            if s in adds:
                continue
            r = cfg.reachable([s], adds, include_start=True, edge_ok=not_present_edge)
            if ln.id in r or cfg.exit_return.id in r:
                esc = True
        ctx.require(not esc, f'check_outputs: every iteration over `{it_txt}` with a new name inserts {v} into the registry', mod, qn, adds[0].ast,
                    f'an iteration of the loop over `{it_txt}` can finish without self.all_outputs.add({v}) although {v} was not registered: that output is '
                    'invisible to later duplicates', adds[0].ast)
        # (2) a non-empty error is recorded on the already-present edge
        dupstart = [cfg.nodes[b] for b, lab in cfg.succ[tn.id] if lab is pol]
        sets = [n for n in cfg.nodes if n.kind == 'stmt' and isinstance(n.ast, ast.Assign) and any(attr_chain(t) == 'self.output_errors' for t in n.ast.targets)
                and _truthy_str(n.ast.value) is True]
        esc = False
        for s in dupstart:
            if s in sets:
                continue
            r = cfg.reachable([s], sets, include_start=True)
            if ln.id in r or cfg.exit_return.id in r:
                esc = True
        ctx.require(bool(sets) and not esc, 'check_outputs: a name already in the registry records a non-empty output_errors', mod, qn, tn.ast.test,  # type: ignore[union-attr]
                    f'when `{v}` is already registered the duplicate branch can continue without storing a non-empty message in self.output_errors: write() will not raise', tn.ast)
        # (3) the test is evaluated before the insertion within one iteration
        late = any(tn.id in cfg.reachable([a], [ln]) for a in adds)
        ctx.require(not late, f'check_outputs: the membership test precedes the insertion of {v}', mod, qn, adds[0].ast,
                    f'self.all_outputs.add({v}) can run before `{v} in self.all_outputs` is evaluated in the same iteration: every output would be reported as duplicate', adds[0].ast)
    # the recorded error is never cleared
    bad = []
    live = 0
    for q, f in mod.funcs().items():
        if not q.startswith(ELEMENT + '.'):
            continue
        for st in walk_no_nested(f):
            if isinstance(st, (ast.Assign, ast.AugAssign, ast.AnnAssign)):
                tg = st.targets if isinstance(st, ast.Assign) else [st.target]
                if any(attr_chain(t) == 'self.output_errors' for t in tg):
                    live += 1
                    val = st.value
                    if q == f'{ELEMENT}.__init__':
                        continue
                    if not (q == qn and isinstance(st, ast.Assign) and val is not None and _truthy_str(val) is True):
                        bad.append((q, st))
    ctx.floor('stores to output_errors seen (init + check_outputs)', live, 1)
    for q, st in bad:
        ctx.violation(mod, q, st, f'`{short(st, 70)}` can reset or blank self.output_errors after a duplicate was recorded', st)
    if not bad:
        ctx.ok('output_errors is initialised in __init__ and only ever set to a non-empty message by check_outputs')


def _flatten_concat(e: ast.AST) -> T.List[T.Union[str, ast.AST]]:
    """String template normal form (see c04_lib.template_parts)."""
    p = L.template_parts(e)
    if p is None:
        raise Undecided(f'string template `{short(e, 60)}` uses format specs / conversions')
    return p


def _build_line_candidates(info: L.FnInfo) -> T.List[T.Tuple[Node, ast.AST, T.List[T.Any]]]:
    found = []
    for n in info.cfg.nodes:
        if n.kind != 'stmt':
            continue
        for e in walk_no_nested(n.ast):
            if isinstance(e, (ast.JoinedStr, ast.BinOp, ast.Call)):
                try:
                    parts = _flatten_concat(e)
                except Undecided:
                    continue
                if len(parts) > 1 and isinstance(parts[0], str) and parts[0].startswith('build '):
                    found.append((n, e, parts))
    # keep maximal expressions only
    return [f for f in found if not any(g is not f and any(x is f[1] for x in ast.walk(g[1])) for g in found)]


def _build_writer(infos: L.Infos, mod: Module) -> L.FnInfo:
    """The function that forms the `build <outs>: rule ...` line: NinjaBuildElement.write itself, or the one argument-less method of the element
    whose result write() hands to the file (directly or through one local).  The text of the line is then what that method returns."""
    w = infos.get(f'{ELEMENT}.write')
    if _build_line_candidates(w):
        return w
    ps = _param_names(w.fn)
    hits: T.List[L.FnInfo] = []
    for n in w.cfg.nodes:
        for c in L.node_calls(n):
            cn = call_name(c) or ''
            if not (cn.startswith('self.') and cn.count('.') == 1 and not c.args and not c.keywords and mod.has_func(f'{ELEMENT}.{cn[5:]}')):
                continue
            hi = infos.get(f'{ELEMENT}.{cn[5:]}')
            if not _build_line_candidates(hi):
                continue
            # the result must be what is written: an operand of a file-writing call, or one local that is
            written = any(ps and _uses_file(fc, ps[0]) and any(x is c for a in _written_exprs(fc) for x in ast.walk(a)) for fc in L.node_calls(n))
            if not written and isinstance(n.ast, ast.Assign) and len(n.ast.targets) == 1 and isinstance(n.ast.targets[0], ast.Name):
                lv = n.ast.targets[0].id
                written = any(ps and _uses_file(fc, ps[0]) and any(isinstance(x, ast.Name) and x.id == lv for a in _written_exprs(fc) for x in ast.walk(a))
                              for m in w.cfg.nodes for fc in L.node_calls(m))
            if not written:
                raise Undecided(f'write(): the build line formed by `{short(c, 50)}` is not handed to the file in a form the rule reads')
            hits.append(hi)
    if len(hits) != 1:
        raise Undecided(f'{ELEMENT}.write: 0 candidates for the `build ...:` line ({len(hits)} helper methods that form one)')
    return hits[0]


def _build_line(info: L.FnInfo) -> T.Tuple[Node, T.List[ast.AST]]:
    """The statement that forms the `build <outs>: rule ...` line and the expressions left of the colon."""
    found = _build_line_candidates(info)
    if len(found) != 1:
        raise Undecided(f'{info.qn}: {len(found)} candidates for the `build ...:` line')
    n, e, parts = found[0]
    left: T.List[ast.AST] = []
    if ':' in parts[0]:
        raise Undecided(f'{info.qn}: the build line has no output expression before the colon')
    for p in parts[1:]:
        if isinstance(p, str):
            if ':' in p:
                if p.split(':')[0].strip():
                    raise Undecided(f'{info.qn}: literal text `{p}` between outputs and colon')
                return n, left
            if p.strip() not in ('', '|'):
                raise Undecided(f'{info.qn}: unexpected literal `{p}` left of the colon')
        else:
            left.append(p)
    raise Undecided(f'{info.qn}: the build line has no literal colon')


def r2d(ctx: RuleCtx) -> None:
    mod = ctx.repo.module(NB)
    infos = _infos(ctx)
    w = _build_writer(infos, mod)
    node, left = _build_line(w)
    tr = L.Tracer(w)
    emitted: T.Dict[str, str] = {}
    for e in left:
        fs = L.self_fields(tr.origins(e, node))
        if not fs:
            raise Undecided(f'write(): `{short(e, 40)}` left of the colon does not come from a field of the element')
        for f in fs:
            emitted.setdefault(f, norm(e))
    ctx.floor('output expressions left of the colon in the build line', len(left), 1)
    c = infos.get(f'{ELEMENT}.check_outputs')
    trc = L.Tracer(c)
    registered: T.Set[str] = set()
    loops = _registering_loops(c)
    for ln, v, adds in loops:
        registered |= L.self_fields(trc.origins(ast.Name(id=v, ctx=ast.Load()), adds[0]))
    registered.discard('all_outputs')
    if not loops:
        raise Undecided('check_outputs: no registering loop recognised (R2c decides whether anything is registered at all)')
    # the registered set is complete only if nothing else in check_outputs can insert names
    other = [cl for n in c.cfg.nodes for cl in L.node_calls(n) if (call_name(cl) or '').startswith('self.') and (call_name(cl) or '').count('.') == 1]
    closed = not other
    ctx.note(f'write() emits left of the colon: {sorted(emitted)}; check_outputs registers: {sorted(registered)}')
    for f in sorted(emitted):
        if f not in registered and not closed:
            raise Undecided(f'check_outputs: field {f} is not registered by a recognised loop, but `{short(other[0], 50)}` may register it')
        ctx.require(f in registered, f'field {f} (written as `{emitted[f]}` before the colon) is registered by check_outputs', mod, f'{ELEMENT}.check_outputs',
                    f'self.{f}', f'write() emits self.{f} as an output of the build statement (`{emitted[f]}` left of the colon) but check_outputs never inserts '
                    f'it into self.all_outputs (registered: {sorted(registered)}): two statements may produce the same {f} entry without "Multiple producers"',
                    c.fn)
    # the fields are what __init__ stores from its parameters (no renaming in between)
    init = mod.func(f'{ELEMENT}.__init__')
    stored = {attr_chain(t).split('.', 1)[1] for st in ast.walk(init) if isinstance(st, ast.Assign) for t in st.targets if attr_chain(t) and attr_chain(t).startswith('self.')}  # type: ignore[union-attr]
    ctx.require(set(emitted) <= stored, f'the emitted fields {sorted(emitted)} are set by __init__', mod, f'{ELEMENT}.__init__', 'output fields',
                f'write() emits fields {sorted(set(emitted) - stored)} that __init__ never sets')


# ----------------------------------------------------------------------------
# R3  rule closure
# ----------------------------------------------------------------------------
def _rule_arg(mod: Module, c: ast.Call, qn: str, kw: str) -> T.Optional[ast.AST]:
    return _bound(mod, c, qn).get(kw)


def r3(ctx: RuleCtx) -> None:
    mod = ctx.repo.module(NB)
    infos = _infos(ctx)
    ev = L.SymEval(ctx.repo, infos, BACKEND)
    funcs = _backend_funcs(mod)
    # parameter positions from the constructors
    ei = _param_names(mod.func(f'{ELEMENT}.__init__'))
    ri = _param_names(mod.func('NinjaRule.__init__'))
    if 'rulename' not in ei or 'rule' not in ri:
        raise Undecided('constructor parameters rulename / rule not found')
    epos, rpos = ei.index('rulename'), ri.index('rule')
    rinit = mod.func('NinjaRule.__init__')
    names = [st for st in ast.walk(rinit) if isinstance(st, ast.Assign) and any(attr_chain(t) == 'self.name' for t in st.targets)]
    ctx.require(len(names) == 1 and isinstance(names[0].value, ast.Name) and names[0].value.id == 'rule', 'NinjaRule.name is the constructor argument `rule`', mod,
                'NinjaRule.__init__', 'self.name = rule', 'NinjaRule.__init__ does not store its `rule` argument as self.name')
    einit = mod.func(f'{ELEMENT}.__init__')
    rn = [st for st in ast.walk(einit) if isinstance(st, ast.Assign) and any(attr_chain(t) == 'self.rulename' for t in st.targets)]
    ctx.require(len(rn) == 1 and isinstance(rn[0].value, ast.Name) and rn[0].value.id == 'rulename', 'NinjaBuildElement.rulename is the constructor argument', mod,
                f'{ELEMENT}.__init__', 'self.rulename = rulename', 'NinjaBuildElement.__init__ does not store its `rulename` argument as self.rulename')

    # definitions: NinjaRule(...) handed to add_rule
    reg = L.Registrar(infos, BACKEND, REGISTER_RULE)
    defined: T.Dict[L.Shape, str] = {}
    ndef = 0
    for q, f in funcs.items():
        for c in _own_calls(f):
            if not _is_ctor(c, 'NinjaRule'):
                continue
            ndef += 1
            info = infos.get(q)
            res = L.pairing(info, c, reg)
            if res.status == 'violated':
                ctx.violation(mod, q, c, f'rule created here is not added: {res.detail}', c)
                continue
            if res.status == 'returned':
                raise Undecided(f'{q}: a NinjaRule is returned to the caller')
            e = _rule_arg(mod, c, 'NinjaRule.__init__', 'rule')
            if e is None:
                raise Undecided(f'{q}: `{short(c, 60)}` has no rule-name argument')
            shs = ev.site(q, e, c)
            for s in shs:
                defined.setdefault(s, q)
            ctx.ok(f'{q}: add_rule(NinjaRule({short(e, 40)}, ...)) defines {sorted(L.show(s) for s in shs)}')
    ctx.floor('NinjaRule definitions', ndef, 1)
    # the chain add_rule -> ruledict[rule.name]
    ar = infos.get(f'{BACKEND}.add_rule')
    rp = _param_names(ar.fn)
    fwd = [n for n in ar.cfg.nodes if any(call_name(c) == 'self.ninja.add_rule' and rp and _passes(mod, c, 'NinjaBuild.add_rule', rp[0]) for c in L.node_calls(n))]
    nar = infos.get('NinjaBuild.add_rule')
    np_ = _param_names(nar.fn)
    st_nodes = [n for n in nar.cfg.nodes if n.kind == 'stmt' and isinstance(n.ast, ast.Assign) and any(
        isinstance(t, ast.Subscript) and attr_chain(t.value) == 'self.ruledict' and np_ and norm(t.slice) == f'{np_[0]}.name' for t in n.ast.targets)
        and isinstance(n.ast.value, ast.Name) and n.ast.value.id == np_[0]]
    app = [n for n in nar.cfg.nodes if any(call_name(c) == 'self.rules.append' and c.args and norm(c.args[0]) == (np_[0] if np_ else '') for c in L.node_calls(n))]
    if not fwd:
        _absence_provable(ar, 'the call that forwards the rule to self.ninja.add_rule', rp[0] if rp else None)
    if not st_nodes or not app:
        _absence_provable(nar, 'the store of the rule into ruledict / rules', np_[0] if np_ else None)
    ctx.require(_dominates_exit(ar, fwd) and _dominates_exit(nar, st_nodes) and _dominates_exit(nar, app),
                'add_rule -> NinjaBuild.add_rule stores the rule under ruledict[rule.name] and in rules on every normal path', mod, 'NinjaBuild.add_rule', nar.fn,
                'a rule passed to add_rule can fail to reach ruledict[rule.name] / rules: build statements naming it reference an undefined rule')

    # uses
    uses: T.List[T.Tuple[str, ast.AST, ast.AST]] = []
    for q, f in funcs.items():
        for c in _own_calls(f):
            if _is_ctor(c, ELEMENT):
                e = _rule_arg(mod, c, f'{ELEMENT}.__init__', 'rulename')
                if e is None:
                    raise Undecided(f'{q}: `{short(c, 60)}` has no rulename argument')
                uses.append((q, e, c))
        for st in walk_no_nested(f):
            if isinstance(st, ast.Assign):
                for t in st.targets:
                    if isinstance(t, ast.Attribute) and t.attr == 'rulename':
                        uses.append((q, st.value, st))
    # the set of definitions is closed only if no NinjaRule is built where this rule does not look
    elsewhere = [q for q, f in mod.funcs().items() if not q.startswith(BACKEND + '.') and not q.startswith('NinjaRule.')
                 and any(_is_ctor(c, 'NinjaRule') or call_method(c) == 'add_rule' for c in _own_calls(f)) and q != 'NinjaBuild.add_rule']
    nuse = 0
    for q, e, anchor in uses:
        shs = ev.site(q, e, anchor)
        missing = sorted(L.show(s) for s in shs if s != ('phony',) and s not in defined)
        if missing and elsewhere:
            raise Undecided(f'{q}: rule name(s) {missing} are not among the definitions found in {BACKEND}, but {elsewhere} also create or add rules')
        nuse += 1
        ctx.require(not missing, f'{q}: rule `{short(e, 40)}` = {sorted(L.show(s) for s in shs)} is defined', mod, q, anchor if isinstance(anchor, ast.Call) else norm(anchor),
                    f'build statement uses rule name(s) {missing} (from `{short(e, 50)}`) that no add_rule(NinjaRule(...)) defines; defined shapes: '
                    f'{sorted(L.show(s) for s in defined)[:40]}', anchor)
    ctx.floor('rule-name uses (constructions + rulename stores)', nuse, 1)
    ctx.note(f'defined rule-name shapes: {sorted(L.show(s) for s in defined)}')


def _yield_eff(st: ast.AST) -> T.Optional[str]:
    return ('yield ' + norm(st.value.value)) if isinstance(st, ast.Expr) and isinstance(st.value, ast.Yield) and st.value.value is not None else None


def _unrolled_comprehension(e: ast.AST) -> T.Optional[T.List[ast.stmt]]:
    """`[elt for <targets> in (<display of displays>) if <cond>]` over a constant display the source spells out, as the statements
    `if <cond_i>: yield <elt_i>` of its elements in order (the finite domain is declared by the source; nothing is evaluated: the target
    names are replaced by the expressions of each element)."""
    if not isinstance(e, (ast.ListComp, ast.GeneratorExp, ast.SetComp)) or len(e.generators) != 1 or e.generators[0].is_async:
        return None
    gen = e.generators[0]
    if not isinstance(gen.iter, (ast.Tuple, ast.List)) or any(isinstance(x, ast.Starred) for x in gen.iter.elts):
        return None
    out: T.List[ast.stmt] = []
    for item in gen.iter.elts:
        if isinstance(gen.target, ast.Name):
            env = {gen.target.id: item}
        elif isinstance(gen.target, (ast.Tuple, ast.List)) and all(isinstance(t, ast.Name) for t in gen.target.elts) and isinstance(item, (ast.Tuple, ast.List)) \
                and len(item.elts) == len(gen.target.elts) and not any(isinstance(x, ast.Starred) for x in item.elts):
            env = {t.id: v for t, v in zip(gen.target.elts, item.elts)}  # type: ignore[attr-defined]
        else:
            return None

        class Sub(ast.NodeTransformer):
            def visit_Name(self, n: ast.Name, env: T.Dict[str, ast.AST] = env) -> ast.AST:
                return copy.deepcopy(env[n.id]) if n.id in env and isinstance(n.ctx, ast.Load) else n
        elt = Sub().visit(copy.deepcopy(e.elt))
        conds = [Sub().visit(copy.deepcopy(c)) for c in gen.ifs]
        y: ast.stmt = ast.Expr(value=ast.Yield(value=elt))
        st = y if not conds else ast.If(test=conds[0] if len(conds) == 1 else ast.BoolOp(op=ast.And(), values=conds), body=[y], orelse=[])
        out.append(ast.fix_missing_locations(ast.copy_location(st, e)))
    return out


def _variant_table(mod: Module, infos: L.Infos, info: L.FnInfo, src: ast.AST, at: T.Any, depth: int = 0) -> T.Tuple[tables.Table, ast.AST]:
    """The decision table `conditions -> yield <suffix>` of the expression a loop over the rule variants iterates.  Read: a call of a nested
    generator / generator method; a call of a helper that returns one of the other forms; a local list that starts empty and is filled by
    append(<suffix>) under conditions; a comprehension over a display of (suffix, condition) records.  Anything else is Undecided."""
    fnq = info.qn if hasattr(info, 'qn') else ''
    while isinstance(src, ast.Call) and call_name(src) in ('list', 'tuple', 'iter') and len(src.args) == 1 and not src.keywords:
        src = src.args[0]
    if isinstance(src, ast.Call) and not src.args and not src.keywords and depth < 2:
        gen_q = None
        cn = call_name(src) or ''
        if isinstance(src.func, ast.Name) and mod.has_func(f'{fnq}.{src.func.id}'):
            gen_q = f'{fnq}.{src.func.id}'
        elif cn.startswith('self.') and cn.count('.') == 1 and mod.has_func(f'NinjaRule.{cn[5:]}'):
            gen_q = f'NinjaRule.{cn[5:]}'
        if gen_q is None:
            raise Undecided(f'NinjaRule.write: the rule variants come from `{short(src, 60)}`, a call the rule does not resolve')
        g = mod.func(gen_q)
        if any(isinstance(x, (ast.Yield, ast.YieldFrom)) for x in walk_no_nested(g, include_root=False)):
            if any(isinstance(x, ast.YieldFrom) for x in walk_no_nested(g, include_root=False)):
                raise Undecided(f'{gen_q}: `yield from` in the generator of the rule variants')
            return _extract(g, effects=_yield_eff, name='rule variants'), g
        gi = infos.get(gen_q)
        rets = [x for x in walk_no_nested(g, include_root=False) if isinstance(x, ast.Return)]
        if len(rets) != 1 or rets[0].value is None or rets[0] is not g.body[-1]:
            raise Undecided(f'{gen_q}: the helper that names the rule variants is not a generator and does not end in its one `return <variants>`')
        return _variant_table(mod, infos, gi, rets[0].value, gi.node_of(rets[0]), depth + 1)
    if isinstance(src, ast.Name):
        # the variants are collected in a local list: empty at first, then `append(<suffix>)` under conditions
        lv = src.id
        lds = info.reaching(lv, at)
        if len(lds) == 1 and isinstance(lds[0], L.Def) and lds[0].kind == 'assign' and isinstance(lds[0].value, (ast.ListComp, ast.GeneratorExp)) \
                and not info.mutations().get(lv, []):
            return _variant_table(mod, infos, info, lds[0].value, lds[0].node, depth)
        if len(lds) != 1 or not isinstance(lds[0], L.Def) or lds[0].kind != 'assign' or not (
                (isinstance(lds[0].value, ast.List) and not lds[0].value.elts) or (isinstance(lds[0].value, ast.Call) and call_name(lds[0].value) == 'list' and not lds[0].value.args)):
            raise Undecided(f'NinjaRule.write: the variant list `{lv}` does not start as one empty list')
        muts = info.mutations().get(lv, [])
        if not muts or any(c.func.attr != 'append' or len(c.args) != 1 for _, c in muts):  # type: ignore[union-attr]
            raise Undecided(f'NinjaRule.write: the variant list `{lv}` is filled by something other than append(<suffix>)')
        mut_ids = {id(c) for _, c in muts}
        stmts = [st for st in info.fn.body if any(id(x) in mut_ids for x in ast.walk(st))]
        if any(isinstance(st, (ast.For, ast.While, ast.Try, ast.With)) for st in stmts):
            raise Undecided(f'NinjaRule.write: the variant list `{lv}` is filled inside a loop/try')

        def leff(st: ast.AST, lv: str = lv) -> T.Optional[str]:
            if isinstance(st, ast.Expr) and isinstance(st.value, ast.Call) and call_name(st.value) == f'{lv}.append':
                return 'yield ' + norm(st.value.args[0])
            return None
        return _extract(info.fn, body=stmts, effects=leff, inline=False, name='rule variants'), info.fn
    un = _unrolled_comprehension(src)
    if un is not None:
        return _extract(info.fn, body=un, effects=_yield_eff, inline=False, name='rule variants'), info.fn
    raise Undecided(f'NinjaRule.write: the rule variants come from `{short(src, 60)}`, a form the rule does not read')


def r3b(ctx: RuleCtx) -> None:
    """The `_RSP` twin of a rule: referenced, counted and written under the same condition."""
    mod = ctx.repo.module(NB)
    infos = _infos(ctx)
    # 1. element.write: the suffix '_RSP' is appended to self.rulename exactly when self._should_use_rspfile
    w = _build_writer(infos, mod)
    node, _ = _build_line(w)
    # find the rule expression right of the colon: first non-literal part after the colon literal
    parts = None
    for e in walk_no_nested(node.ast):
        if isinstance(e, (ast.JoinedStr, ast.BinOp)):
            p = _flatten_concat(e)
            if len(p) > 1 and isinstance(p[0], str) and p[0].startswith('build '):
                parts = p
                break
    assert parts is not None
    rule_e = None
    seen_colon = False
    for p in parts:
        if isinstance(p, str):
            if ':' in p:
                seen_colon = True
        elif seen_colon:
            rule_e = p
            break
    if rule_e is None or not isinstance(rule_e, ast.Name):
        raise Undecided('write(): rule expression right of the colon is not a local name')
    rs = w.reaching(rule_e.id, node)
    rsp_tests = []
    for t in w.cfg.nodes:
        if t.kind != 'test':
            continue
        tt = L.inline_locals(w, t.ast.test, t)  # type: ignore[union-attr]
        pol = True
        while isinstance(tt, ast.UnaryOp) and isinstance(tt.op, ast.Not):
            pol = not pol
            tt = tt.operand
        if attr_chain(tt) == 'self._should_use_rspfile':
            rsp_tests.append((t, pol))
    got: T.Dict[str, T.Set[str]] = {}
    for d in rs:
        if not isinstance(d, L.Def) or d.kind != 'assign' or d.value is None:
            raise Undecided('write(): rule name local is not assigned from an expression')
        parts_v = _flatten_concat(d.value)
        if len(parts_v) == 1 and not isinstance(parts_v[0], str) and attr_chain(parts_v[0]) == 'self.rulename':
            kind = 'plain name'
        elif len(parts_v) == 2 and not isinstance(parts_v[0], str) and attr_chain(parts_v[0]) == 'self.rulename' and parts_v[1] == '_RSP':
            kind = 'name + _RSP'
        else:
            raise Undecided(f'write(): rule name `{short(d.value, 50)}` is neither self.rulename nor self.rulename + "_RSP"')
        conds: T.Set[str] = set()
        for t, pol in rsp_tests:
            for lab in (True, False):
                here = [w.cfg.nodes[b] for b, l2 in w.cfg.succ[t.id] if l2 is lab]
                there = [w.cfg.nodes[b] for b, l2 in w.cfg.succ[t.id] if l2 is (not lab)]
                if d.node.id in w.cfg.reachable(here, [node], include_start=True) and d.node.id not in w.cfg.reachable(there, [node], include_start=True):
                    conds.add('rspfile' if lab is pol else 'no rspfile')
        got.setdefault(kind, set()).update(conds)
    want = {'name + _RSP': {'rspfile'}, 'plain name': {'no rspfile'}}
    ctx.require(got == want, 'write(): rule name is self.rulename + "_RSP" exactly when _should_use_rspfile', mod, f'{ELEMENT}.write', rule_e.id,
                f'the rule name written is {got}; expected {want}: the statement references the wrong rule variant', node.ast)

    # 2. count_rule_references bumps rsprefcount under the same condition, refcount otherwise; phony is not counted
    cr = mod.func(f'{ELEMENT}.count_rule_references')

    def eff(st: ast.AST) -> T.Optional[str]:
        if isinstance(st, ast.AugAssign) and isinstance(st.op, ast.Add) and isinstance(st.value, ast.Constant) and st.value.value == 1:
            return norm(st.target)
        if isinstance(st, (ast.Assign, ast.AugAssign)):
            return 'other:' + norm(st)
        return None
    tab = _extract(cr, effects=eff, name='count_rule_references')
    A_RSP = tables.Atom('truth', ('self._should_use_rspfile',))
    A_PH = tables.Atom('cmp', ('eq', 'self.rulename', "'phony'"))
    unknown = [a for a in tab.atoms() if a not in (A_RSP, A_PH)]
    if unknown:
        raise Undecided(f'count_rule_references: unknown atoms {unknown}')
    okc = True
    why = ''
    for wd in tab.worlds([A_RSP, A_PH]):
        rows = tab.fire(wd)
        if len(rows) != 1:
            raise Undecided(f'count_rule_references: {len(rows)} rows fire for {wd}')
        ex = () if wd[A_PH] else (('self.rule.rsprefcount',) if wd[A_RSP] else ('self.rule.refcount',))
        if tuple(rows[0].effects) != ex:
            okc = False
            why = f'for phony={wd[A_PH]}, rspfile={wd[A_RSP]} the counters bumped are {list(rows[0].effects)}, expected {list(ex)}'
    ctx.require(okc, 'count_rule_references: rsprefcount iff _should_use_rspfile, refcount otherwise, phony not counted', mod,
                f'{ELEMENT}.count_rule_references', cr, f'{why}: the rule variant the statement references is not the one that gets written')

    # 3. NinjaRule.write: emits `rule <name>` when refcount, `rule <name>_RSP` when rsprefcount
    rw = infos.get('NinjaRule.write')
    header = None
    rwp = _param_names(rw.fn)
    for n in rw.cfg.nodes:
        for c in L.node_calls(n):
            if rwp and _uses_file(c, rwp[0]):
                for wa in _written_exprs(c):
                    try:
                        p = _flatten_concat(L.inline_locals(rw, wa, n))
                    except Undecided:
                        continue
                    if len(p) > 1 and isinstance(p[0], str) and p[0].startswith('rule '):
                        header = (n, p)
    if header is None:
        raise Undecided('NinjaRule.write: the statement that writes the `rule <name>` header was not found')
    hn, hp = header
    exprs = [x for x in hp if not isinstance(x, str)]
    if len(exprs) != 2 or attr_chain(exprs[0]) != 'self.name' or not isinstance(exprs[1], ast.Name):
        raise Undecided(f'NinjaRule.write: header parts {[norm(x) for x in hp]}')
    rsv = rw.reaching(exprs[1].id, hn)
    if len(rsv) != 1 or not isinstance(rsv[0], L.Def) or rsv[0].kind != 'iter' or rsv[0].value is None:
        raise Undecided('NinjaRule.write: the header suffix is not the variable of a loop over the variants')
    gt, g = _variant_table(mod, infos, rw, rsv[0].value, rsv[0].node)
    def counter(a: tables.Atom) -> T.Optional[T.Tuple[str, bool]]:
        """atom about a reference counter -> (field, truth of the atom when the counter is non-zero): `x`, `x > 0`, `x != 0`, `x >= 1`, `x == 0` ..."""
        if a.kind == 'truth' and a.args[0] in ('self.refcount', 'self.rsprefcount'):
            return a.args[0], True
        if a.kind == 'cmp':
            op, x, y = a.args
            for fld in ('self.refcount', 'self.rsprefcount'):
                if op == 'lt' and x == '0' and y == fld:
                    return fld, True          # 0 < n
                if op == 'lt' and x == fld and y == '1':
                    return fld, False         # n < 1
                if op == 'eq' and {x, y} == {fld, '0'}:
                    return fld, False         # n == 0
        return None
    sem = {a: counter(a) for a in gt.atoms()}
    unknown = [a for a, c_ in sem.items() if c_ is None]
    if unknown:
        raise Undecided(f'NinjaRule.write variants: unknown atoms {unknown}')
    okg = True
    why = ''
    for ref in (True, False):
        for rspc in (True, False):
            val = {'self.refcount': ref, 'self.rsprefcount': rspc}
            wd = {a: (val[c_[0]] if c_[1] else not val[c_[0]]) for a, c_ in sem.items() if c_ is not None}
            rows = gt.fire(wd)
            ex = tuple(x for x, on in (("yield ''", ref), ("yield '_RSP'", rspc)) if on)
            if len(rows) != 1:
                raise Undecided(f'NinjaRule.write variants: {len(rows)} rows fire for refcount={ref}, rsprefcount={rspc}')
            if tuple(sorted(rows[0].effects)) != tuple(sorted(ex)):
                okg = False
                why = f'for refcount={ref}, rsprefcount={rspc} the variants written are {[list(r.effects) for r in rows]}, expected {list(ex)}'
    ctx.require(okg, 'NinjaRule.write: plain variant iff refcount, _RSP variant iff rsprefcount', mod, 'NinjaRule.write', g,
                f'{why}: a referenced rule variant is not written (or an unreferenced one is)')

    # 4. NinjaBuild.write counts references before writing the rules
    bw = infos.get('NinjaBuild.write')
    cnt = [n for n in bw.cfg.nodes if any(call_method(c) == 'count_rule_references' for c in L.node_calls(n))]
    rules_w = [n for n in bw.cfg.nodes if n.kind == 'iter' and 'rules' in L.self_fields(L.Tracer(bw).origins(n.ast.iter, n))]  # type: ignore[union-attr]
    cnt_loops = [n for n in bw.cfg.nodes if n.kind == 'iter' and 'build_elements' in L.self_fields(L.Tracer(bw).origins(n.ast.iter, n))  # type: ignore[union-attr]
                 and any(c.id in bw.cfg.reachable([n], [], edge_ok=lambda a, b, lab: not (a.id == n.id and lab == 'done')) for c in cnt)]
    if not cnt or not rules_w or not cnt_loops:
        _absence_provable(bw, 'the loop that counts rule references / the loop that writes the rules')
        if rules_w and not cnt:
            pass        # rules are written and nothing counts references: a finding (below)
        else:
            raise Undecided('NinjaBuild.write: the counting loop or the rule-writing loop was not recognised')
    okb = bool(cnt) and bool(rules_w) and bool(cnt_loops) and all(
        bw.cfg.dominated_by_any(rwn, cnt_loops) and not any(rwn.id in bw.cfg.reachable([cl], [], edge_ok=lambda a, b, lab, cl=cl: not (a.id == cl.id and lab == 'done'))
                                                             for cl in cnt_loops) for rwn in rules_w)
    ctx.require(okb, 'NinjaBuild.write counts rule references of all elements before it writes the rules', mod, 'NinjaBuild.write', bw.fn,
                'NinjaBuild.write writes the rules before (or without) counting the references of every build element: referenced rules are omitted')


# ----------------------------------------------------------------------------
# R4  aggregates
# ----------------------------------------------------------------------------
AGGREGATES = {   # property statement: built by default -> all; what a test runs or depends on -> meson-test-prereq (benchmarks alike)
    'all': ('get_build_by_default_targets', None),
    'meson-test-prereq': ('get_testlike_targets', False),
    'meson-benchmark-prereq': ('get_testlike_targets', True),
}


def _source_of(e: ast.AST) -> T.Optional[T.Tuple[str, T.Optional[bool]]]:
    x = e
    if isinstance(x, ast.Call) and isinstance(x.func, ast.Attribute) and x.func.attr == 'values' and not x.args:
        x = x.func.value
        dict_values = True
    else:
        dict_values = False
    if not isinstance(x, ast.Call):
        return None
    cn = call_name(x)
    if cn == 'self.get_build_by_default_targets' and not x.args and not x.keywords and dict_values:
        return ('get_build_by_default_targets', None)
    if cn == 'self.get_testlike_targets' and not dict_values:
        b: T.Any = False
        if x.args:
            b = x.args[0]
        elif x.keywords:
            b = kwarg(x, 'benchmark')
        if isinstance(b, ast.Constant):
            b = b.value
        if isinstance(b, bool):
            return ('get_testlike_targets', b)
    return None


def r4(ctx: RuleCtx) -> None:
    mod = ctx.repo.module(NB)
    infos = _infos(ctx)
    # find the aggregate construction by role: (a) a loop over a constant display of (name constant, targets) pairs, or
    # (b) a helper with (name, targets) parameters that is called with name constants - in any method of the backend
    funcs = _backend_funcs(mod)
    form = None
    outer: T.Optional[Node] = None
    rows: T.List[T.Tuple[str, ast.AST]] = []
    for q0, f0 in funcs.items():
        for st in walk_no_nested(f0):
            if isinstance(st, ast.For) and isinstance(st.iter, (ast.List, ast.Tuple)) and isinstance(st.target, ast.Tuple) and len(st.target.elts) == 2 \
                    and all(isinstance(x, ast.Name) for x in st.target.elts) and st.iter.elts \
                    and all(isinstance(x, ast.Tuple) and len(x.elts) == 2 and isinstance(x.elts[0], ast.Constant) for x in st.iter.elts) \
                    and any(x.elts[0].value in AGGREGATES for x in st.iter.elts):  # type: ignore[union-attr]
                if form is not None:
                    raise Undecided('aggregates: more than one (aggregate name, targets) table')
                form, qn = 'loop', q0
                info = infos.get(q0)
                outer = info.cfg.stmt_nodes(st)[0] if info.cfg.stmt_nodes(st) else None
                nvar, dvar = (x.id for x in st.target.elts)  # type: ignore[union-attr]
                rows = [(x.elts[0].value, x.elts[1]) for x in st.iter.elts]  # type: ignore[union-attr]
            elif isinstance(st, ast.For) and isinstance(st.iter, (ast.List, ast.Tuple)) and isinstance(st.target, ast.Name) and st.iter.elts \
                    and all(isinstance(x, ast.Call) and isinstance(x.func, ast.Name) and mod.has_cls(x.func.id) for x in st.iter.elts) \
                    and len({x.func.id for x in st.iter.elts}) == 1:  # type: ignore[union-attr]
                # rows are records (NamedTuple / dataclass) of a class of this module: bind the row arguments to its fields
                rc_ = mod.cls(st.iter.elts[0].func.id)  # type: ignore[union-attr]
                fields = [b_.target.id for b_ in rc_.body if isinstance(b_, ast.AnnAssign) and isinstance(b_.target, ast.Name)]
                recs = []
                for x in st.iter.elts:
                    if any(isinstance(a_, ast.Starred) for a_ in x.args) or any(k_.arg is None for k_ in x.keywords) or len(x.args) > len(fields):  # type: ignore[union-attr]
                        recs = []
                        break
                    rec = dict(zip(fields, x.args))  # type: ignore[union-attr]
                    rec.update({k_.arg: k_.value for k_ in x.keywords})  # type: ignore[union-attr]
                    recs.append(rec)
                namef = [f_ for f_ in fields if recs and all(isinstance(r_.get(f_), ast.Constant) and isinstance(r_[f_].value, str) for r_ in recs)
                         and any(r_[f_].value in AGGREGATES for r_ in recs)]
                others_ = [f_ for f_ in fields if f_ not in namef]
                if len(namef) == 1 and len(others_) == 1 and all(others_[0] in r_ for r_ in recs):
                    if form is not None:
                        raise Undecided('aggregates: more than one (aggregate name, targets) table')
                    form, qn = 'loop', q0
                    info = infos.get(q0)
                    outer = info.cfg.stmt_nodes(st)[0] if info.cfg.stmt_nodes(st) else None
                    nvar, dvar = f'{st.target.id}.{namef[0]}', f'{st.target.id}.{others_[0]}'
                    rows = [(r_[namef[0]].value, r_[others_[0]]) for r_ in recs]
    if form is None:
        for q0, f0 in funcs.items():
            ps0 = _param_names(f0)
            if len(ps0) != 2:
                continue
            sites = [c for q1, f1 in funcs.items() for c in _own_calls(f1) if call_name(c) == f'self.{q0.split(".")[-1]}']
            bound = [_bound(mod, c, q0) for c in sites]
            if sites and all(isinstance(dict.get(b, ps0[0]), ast.Constant) for b in bound) and any(dict.get(b, ps0[0]).value in AGGREGATES for b in bound):
                if form is not None:
                    raise Undecided('aggregates: more than one helper is called with aggregate names')
                form, qn = 'helper', q0
                info = infos.get(q0)
                nvar, dvar = ps0
                rows = [(b[ps0[0]].value, b[ps0[1]]) for b in bound if ps0[1] in b]
    if form is None or (form == 'loop' and outer is None):
        raise Undecided('aggregates: neither a (name, targets) table loop nor a helper called with the aggregate names was found in the backend')
    cfg = info.cfg
    ctx.note(f'aggregates are built in {qn} ({form} form)')
    got: T.Dict[str, T.Any] = {}
    for nm, src in rows:
        got[nm] = _source_of(src) or ('?', norm(src))
    anchor_node = outer.ast if outer is not None else info.fn
    for name, want in AGGREGATES.items():
        if name not in got:
            raise Undecided(f'aggregates: the aggregate table has no constant row `{name}` (built elsewhere?)')
        if got[name][0] == '?':
            raise Undecided(f'aggregates: aggregate `{name}` is fed from `{short(got[name][1], 60)}`, a source the rule does not read')
        ctx.require(got.get(name) == want, f'aggregate {name} is fed from {want[0]}({"benchmark=" + str(want[1]) if want[1] is not None else ""})', mod, qn,
                    f'aggregate {name}', f'aggregate `{name}` is fed from {got.get(name)}; the property requires {want}', anchor_node)
    # the element: outputs = name variable, rule phony, inputs = list filled in the inner loop
    sites = [(c, _construction_args(mod, c)) for c in _own_calls(info.fn)]
    elems = [c for c, a_ in sites if a_ is not None and a_.get('outfilenames') is not None and norm(a_['outfilenames']) == nvar]
    if len(elems) != 1:
        raise Undecided(f'aggregates: {len(elems)} elements named by the table variable')
    el = elems[0]
    ea = _construction_args(mod, el)
    assert ea is not None
    en = info.node_of(el)
    rule_e = L.inline_locals(info, ea['rulename'], en) if 'rulename' in ea else None
    ctx.require(isinstance(rule_e, ast.Constant) and rule_e.value == 'phony', 'the aggregates are phony statements', mod, qn, el,
                f'aggregate statement uses rule {norm(rule_e)}, not phony', el)
    inf_e = ea.get('infilenames')
    if inf_e is None:
        raise Undecided('aggregates: the aggregate statement names no inputs')

    def drained(e: ast.AST) -> ast.AST:
        """list(X) / tuple(X) / [*X] -> X: the sequence whose elements become the inputs."""
        while True:
            if isinstance(e, ast.Call) and isinstance(e.func, ast.Name) and e.func.id in ('list', 'tuple') and len(e.args) == 1 and not e.keywords:
                e = e.args[0]
            elif isinstance(e, (ast.List, ast.Tuple)) and len(e.elts) == 1 and isinstance(e.elts[0], ast.Starred):
                e = e.elts[0].value
            else:
                return e

    def agg_helper(e: ast.AST) -> T.Optional[T.Tuple[str, str, str]]:
        """`self.h(.., <row targets>, ..)` / `h(self, <row targets>)`: a backend method or module function that receives the targets of the row
        -> (qualified name, its parameter that holds the targets, the name the backend has inside it)."""
        if not isinstance(e, ast.Call):
            return None
        cn_ = call_name(e) or ''
        if cn_.startswith('self.') and cn_.count('.') == 1 and f'{BACKEND}.{cn_[5:]}' in funcs:
            hq_ = f'{BACKEND}.{cn_[5:]}'
            implicit = 'staticmethod' not in decorator_names(funcs[hq_])
        elif isinstance(e.func, ast.Name) and mod.has_func(e.func.id) and not info.defs().get(e.func.id) and e.func.id not in info.params:
            hq_, implicit = e.func.id, False
        else:
            return None
        bd = L.bind_call(e, mod.func(hq_), implicit) or {}
        if '*' in bd or '**' in bd:
            raise Undecided(f'aggregates: `{short(e, 60)}` passes star arguments to the helper that collects the inputs')
        tp = [p_ for p_, a_ in bd.items() if norm(a_) == dvar]
        if len(tp) != 1:
            return None
        recv = next((p_ for p_, a_ in bd.items() if isinstance(a_, ast.Name) and a_.id == 'self'), 'self')
        return hq_, tp[0], recv

    helper: T.Optional[T.Tuple[str, str, str]] = None
    hnode = en
    if isinstance(inf_e, ast.Name):
        lst = inf_e.id
        ldefs = info.base_defs(lst, en)
        if len(ldefs) == 1 and isinstance(ldefs[0], L.Def) and ldefs[0].kind == 'assign' and ldefs[0].value is not None:
            helper = agg_helper(drained(ldefs[0].value))
            hnode = ldefs[0].node
            if helper is not None and [n_ for n_, _c, _a in info.additions(lst)]:
                raise Undecided(f'aggregates: `{lst}` is collected by {helper[0]} and also added to in {qn}')
    else:
        helper = agg_helper(drained(inf_e))
        lst = '<inputs>'
        if helper is None:
            raise Undecided('aggregates: aggregate inputs are neither a local list nor the result of a backend helper that receives the targets of the row')
    if outer is not None:
        in_outer = cfg.reachable([cfg.nodes[b] for b, lab in cfg.succ[outer.id] if lab == 'iter'], [outer], include_start=True)
    else:
        in_outer = {n.id for n in cfg.nodes}
    comp = None
    recv = 'self'
    if helper is not None:
        # accumulate-in-loop <-> generator / list-building helper (refactoring kinds D7, E1): the obligations are read in the helper
        hq, hparam, recv = helper
        rdh = info.reaching(dvar.split('.')[0], hnode)
        ctx.require(len(rdh) == 1 and ((isinstance(rdh[0], L.Def) and outer is not None and rdh[0].node.id == outer.id) or (outer is None and rdh[0] == L.ENTRY)),
                    'the inner loop iterates the targets of the current table row', mod, qn,
                    dvar, f'`{dvar}` is rebound between the table row and the call of {hq} that collects its inputs', el)
        if hnode.id not in in_outer:
            ctx.violation(mod, qn, f'{lst} = []', f'the inputs of the aggregate statement are collected by {hq} outside the table loop: aggregates would share inputs', el)
        ainfo = infos.get(hq)
        aqn = hq
        acfg = ainfo.cfg
        inner = [n for n in acfg.nodes if n.kind == 'iter' and norm(n.ast.iter) == hparam and isinstance(n.ast.target, ast.Name)]  # type: ignore[union-attr]
        if len(inner) != 1:
            raise Undecided(f'aggregates: {len(inner)} loops over the aggregate targets in {hq}')
        il = inner[0]
        tv = il.ast.target.id  # type: ignore[union-attr]
        if ainfo.reaching(hparam, il) != [L.ENTRY]:
            raise Undecided(f'aggregates: {hq} rebinds its parameter `{hparam}` before the loop over it')
        inner_body = {id(x) for st in il.ast.body for x in ast.walk(st)}  # type: ignore[union-attr]
        is_gen = any(isinstance(x, (ast.Yield, ast.YieldFrom)) for x in walk_no_nested(ainfo.fn, include_root=False))
        adds: T.List[T.Tuple[Node, ast.AST, T.Optional[ast.AST]]] = []
        if is_gen:
            for n in acfg.nodes:
                for r_ in L.node_roots(n):
                    for y in walk_no_nested(r_):
                        if id(y) in inner_body and isinstance(y, ast.Yield) and y.value is not None:
                            adds.append((n, y, y.value))
                        elif id(y) in inner_body and isinstance(y, ast.YieldFrom):
                            adds.append((n, y, None))
            lst = f'<values yielded by {hq.split(".")[-1]}>'
        else:
            rets = [n for n in acfg.nodes if n.kind == 'stmt' and isinstance(n.ast, ast.Return)]
            rnames = {norm(drained(n.ast.value)) if n.ast.value is not None else 'None' for n in rets}  # type: ignore[union-attr]
            if len(rnames) != 1 or not next(iter(rnames)).isidentifier() or next(iter(rnames)) == 'None':
                raise Undecided(f'aggregates: {hq} does not return one local list on every path')
            hl = next(iter(rnames))
            for rn_ in rets:
                hd = ainfo.base_defs(hl, rn_)
                if not (len(hd) == 1 and isinstance(hd[0], L.Def) and isinstance(hd[0].value, ast.List) and not hd[0].value.elts):
                    raise Undecided(f'aggregates: the list `{hl}` returned by {hq} does not start as one empty list display')
            adds = [(n, c, a) for n, c, a in ainfo.additions(hl) if id(c) in inner_body]
            lst = hl
        ends = [il, acfg.exit_return]
        ctx.ok(f'the inputs of each aggregate are collected afresh by {hq} from the targets of the row')
    else:
        ainfo, aqn, acfg = info, qn, cfg
        if len(ldefs) == 1 and isinstance(ldefs[0], L.Def) and isinstance(ldefs[0].value, ast.ListComp):
            lc = ldefs[0].value
            droot = dvar.split('.')[0]
            if len(lc.generators) == 1 and norm(lc.generators[0].iter) == dvar and isinstance(lc.generators[0].target, ast.Name) \
                    and not lc.generators[0].ifs and info.reaching(droot, ldefs[0].node) == info.reaching(droot, en):
                comp = lc
            else:
                raise Undecided(f'aggregates: `{lst}` starts as the comprehension `{short(lc, 70)}`, a form the rule does not read')
        fresh = len(ldefs) == 1 and isinstance(ldefs[0], L.Def) and ldefs[0].node.id in in_outer and \
            (comp is not None or (isinstance(ldefs[0].value, ast.List) and not ldefs[0].value.elts))
        stale = [d for d in ldefs if not isinstance(d, L.Def) or d.node.id not in in_outer]
        if not fresh and not stale:
            raise Undecided(f'aggregates: `{lst}` is created inside the table loop, but not as one empty list display')
        ctx.require(fresh, f'the input list `{lst}` starts empty for each aggregate', mod, qn, f'{lst} = []',
                    f'the input list `{lst}` of the aggregate statement is not re-created empty inside the table loop: aggregates would share inputs', el)
        inner = [n for n in cfg.nodes if n.kind == 'iter' and norm(n.ast.iter) == dvar and isinstance(n.ast.target, ast.Name)]  # type: ignore[union-attr]
        if comp is not None:
            inner = [n for n in inner if any(id(c) in {id(x) for st in n.ast.body for x in ast.walk(st)} for _, c, _e in info.additions(lst))]  # type: ignore[union-attr]
        if len(inner) != (0 if comp is not None and not inner else 1):
            raise Undecided(f'aggregates: {len(inner)} loops over the aggregate targets')
        il = inner[0] if inner else ldefs[0].node  # type: ignore[union-attr]
        tv = il.ast.target.id if inner else comp.generators[0].target.id  # type: ignore[union-attr]
        rd = info.reaching(dvar.split('.')[0], il)
        ctx.require(len(rd) == 1 and ((isinstance(rd[0], L.Def) and outer is not None and rd[0].node.id == outer.id) or (outer is None and rd[0] == L.ENTRY)),
                    'the inner loop iterates the targets of the current table row', mod, qn,
                    dvar, f'`{dvar}` is rebound between the table row and the loop over it', il.ast)
        inner_body = {id(x) for st in il.ast.body for x in ast.walk(st)} if inner else set()  # type: ignore[union-attr]
        adds = [(n, c, a) for n, c, a in info.additions(lst) if id(c) in inner_body]
        if comp is not None:
            adds.append((ldefs[0].node, comp, comp.elt))  # type: ignore[union-attr]
        ends = [il, en]
    # the first-output append on every iteration
    want_dir = f'{recv}.get_target_dir({tv})'
    want_out = f'{tv}.get_outputs()[0]'

    def output_index(e: ast.AST) -> T.Optional[ast.AST]:
        """`<tv>.get_outputs()[k]` -> k, anything else -> None."""
        if isinstance(e, ast.Subscript) and isinstance(e.value, ast.Call) and call_name(e.value) == f'{tv}.get_outputs' and not e.value.args:
            return e.slice
        return None
    firsts = []
    unknown = []
    total = 0
    for n, c, a0 in adds:
        total += 1
        if a0 is None:
            unknown.append(c)
            continue
        a = L.inline_locals(ainfo, a0, n) if c is not comp else a0
        if isinstance(a, ast.Call) and call_name(a) == 'os.path.join' and len(a.args) == 2 and not a.keywords:
            k = output_index(a.args[1])
            if k is None:
                if f'{tv}.get_outputs' in norm(a):
                    unknown.append(c)
                continue                      # some other input of the aggregate (e.g. the import library)
            firsts.append((n, c, a))
            ctx.require(norm(a.args[0]) == want_dir and norm(k) == '0', f'aggregate input is os.path.join({want_dir}, {want_out})', mod, aqn, c,
                        f'aggregate input is `{short(a, 90)}`; the path under which the statement that builds the target registers its first output is '
                        f'os.path.join({want_dir}, {want_out})', c)
        elif output_index(a) is not None:
            firsts.append((n, c, a))
            ctx.violation(mod, aqn, c, f'aggregate input is the bare output name `{short(a, 60)}`: the statement that builds the target produces '
                          f'os.path.join({want_dir}, {want_out}), so targets in sub-directories are not reachable from the aggregate', c)
        else:
            unknown.append(c)
    if not firsts:
        if unknown:
            raise Undecided(f'aggregates: the inputs of the aggregate are added in a form the rule does not understand: `{short(unknown[0], 80)}`')
        ctx.violation(mod, aqn, f'{lst}.append(<output of {tv}>)', f'the loop over `{dvar}` never adds an output of `{tv}` to the inputs `{lst}` of the aggregate '
                      f'({total} additions of other kinds)', il.ast)
        return
    fn_nodes = [n for n, c, a in firsts]
    starts = [acfg.nodes[b] for b, lab in acfg.succ[il.id] if lab == 'iter'] if inner and not any(c is comp for _, c, _a in firsts) else []
    esc = False
    for s in starts:
        if s in fn_nodes:
            continue
        r = acfg.reachable([s], fn_nodes, include_start=True)
        if any(e_.id in r for e_ in ends):
            esc = True
    ctx.require(not esc, 'every target of the row contributes its first output (no iteration skips the append)', mod, aqn, f'{lst}.append(first output)',
                f'an iteration of the loop over `{dvar if helper is None else hparam}` can end without appending the first output of `{tv}` to `{lst}`: that target is not reachable from the aggregate', il.ast)
    if helper is None:
        after = en.id in info.reach(il, []) and not (il.id in cfg.reachable([en], [outer] if outer is not None else []))
        if not after:
            raise Undecided('aggregates: the aggregate statement is not created straight after the loop over its targets')
    ctx.ok('the aggregate statement is created after the loop over its targets')

    # the sources
    bk = ctx.repo.module(BK)
    g = bk.func('Backend.get_build_by_default_targets')
    body = [s for s in g.body if not (isinstance(s, ast.Expr) and isinstance(s.value, ast.Constant))]
    okd = False
    if len(body) == 1 and isinstance(body[0], ast.Return) and isinstance(body[0].value, ast.DictComp):
        dc = body[0].value
        gen = dc.generators[0]
        if len(dc.generators) == 1 and isinstance(gen.target, ast.Tuple) and len(gen.target.elts) == 2 and norm(gen.iter) == 'self.build.targets.items()':
            k, v = (norm(x) for x in gen.target.elts)
            if not (norm(dc.key) == k and norm(dc.value) == v):
                raise Undecided('get_build_by_default_targets: the comprehension does not map key to value unchanged')
            # same normal form as the loop spelling below: a table over the filter with the effect "included"
            tests_ = gen.ifs
            fake = ast.If(test=ast.BoolOp(op=ast.And(), values=list(tests_)) if len(tests_) > 1 else tests_[0], body=[ast.Expr(value=ast.Constant(value='included'))], orelse=[]) \
                if tests_ else ast.Expr(value=ast.Constant(value='included'))
            ast.fix_missing_locations(fake)
            ftab = _extract(g, body=[fake], effects=lambda st: 'included' if isinstance(st, ast.Expr) and isinstance(st.value, ast.Constant) and st.value.value == 'included' else None,
                                  inline=False, name='build_by_default filter')
        else:
            raise Undecided('get_build_by_default_targets does not iterate self.build.targets.items() in one comprehension')
    else:
        # loop spelling: result = {}; for k, v in self.build.targets.items(): if ...: result[k] = v; return result
        loops_ = [s_ for s_ in body if isinstance(s_, ast.For)]
        rets_ = [s_ for s_ in body if isinstance(s_, ast.Return)]
        if len(loops_) != 1 or len(rets_) != 1 or not isinstance(rets_[0].value, ast.Name) or norm(loops_[0].iter) != 'self.build.targets.items()' or \
                not (isinstance(loops_[0].target, ast.Tuple) and len(loops_[0].target.elts) == 2):
            raise Undecided('get_build_by_default_targets is neither one dict comprehension nor one loop over self.build.targets.items() that fills the returned dict')
        res = rets_[0].value.id
        k, v = (norm(x) for x in loops_[0].target.elts)
        inits = [s_ for s_ in body if isinstance(s_, (ast.Assign, ast.AnnAssign)) and norm(s_.targets[0] if isinstance(s_, ast.Assign) else s_.target) == res]
        if len(inits) != 1 or norm(inits[0].value) not in ('{}', 'dict()'):
            raise Undecided(f'get_build_by_default_targets: `{res}` does not start as an empty dict')

        def eff_store(st: ast.AST) -> T.Optional[str]:
            if isinstance(st, ast.Assign) and len(st.targets) == 1 and isinstance(st.targets[0], ast.Subscript) and norm(st.targets[0].value) == res:
                return 'included' if norm(st.targets[0].slice) == k and norm(st.value) == v else 'other:' + norm(st)
            if isinstance(st, (ast.Assign, ast.AugAssign, ast.Delete)) or (isinstance(st, ast.Expr) and isinstance(st.value, ast.Call) and norm(st.value.func).startswith(res + '.')):
                return 'other:' + norm(st)
            return None
        ftab = _extract(g, body=loops_[0].body, effects=eff_store, inline=False, name='build_by_default filter')
    A_BD = tables.Atom('truth', (f'{v}.build_by_default',))
    extra_atoms = [a for a in ftab.atoms() if a != A_BD]
    if extra_atoms:
        if A_BD not in ftab.atoms():
            raise Undecided(f'get_build_by_default_targets: the filter {extra_atoms} is in a form the rule does not read')
    okd = True
    why_d = ''
    for wd in ftab.worlds([A_BD]):
        rows_ = ftab.fire(wd)
        if len(rows_) != 1:
            raise Undecided(f'get_build_by_default_targets: {len(rows_)} rows fire')
        if any(e.startswith('other:') for e in rows_[0].effects):
            raise Undecided(f'get_build_by_default_targets: `{rows_[0].effects}` is not a plain store of the target')
        inc = 'included' in rows_[0].effects
        if inc != wd[A_BD]:
            okd = False
            why_d = f'a target with build_by_default={wd[A_BD]} is {"included" if inc else "left out"} when {wd}'
    ctx.require(okd, 'get_build_by_default_targets = every target of build.targets with build_by_default', bk, 'Backend.get_build_by_default_targets', g,
                f'get_build_by_default_targets does not return exactly the targets of self.build.targets whose build_by_default is set: {why_d}')
    t = bk.func('Backend.get_testlike_targets')
    ti = L.FnInfo(bk, 'Backend.get_testlike_targets', t)
    tps = _param_names(t)
    if tps != ['benchmark']:
        raise Undecided(f'get_testlike_targets parameters {tps}')
    loops = [n for n in ti.cfg.nodes if n.kind == 'iter']
    top = [n for n in loops if isinstance(n.ast.target, ast.Name) and isinstance(n.ast.iter, ast.Name)]  # type: ignore[union-attr]
    sel = None
    for n in top:
        rs = ti.reaching(n.ast.iter.id, n)  # type: ignore[union-attr]
        if len(rs) == 1 and isinstance(rs[0], L.Def) and isinstance(rs[0].value, ast.IfExp):
            ie = rs[0].value
            pol = True
            tt = ie.test
            while isinstance(tt, ast.UnaryOp) and isinstance(tt.op, ast.Not):
                pol = not pol
                tt = tt.operand
            if isinstance(tt, ast.Name) and tt.id == 'benchmark':
                a, b = (ie.body, ie.orelse) if pol else (ie.orelse, ie.body)
                sel = (n, norm(a), norm(b))
        elif len(rs) == 2 and all(isinstance(r, L.Def) and r.kind == 'assign' for r in rs):
            vals = {}
            for r in rs:
                assert isinstance(r, L.Def)
                # which branch of `if benchmark` holds this definition
                for tn in ti.cfg.nodes:
                    if tn.kind != 'test':
                        continue
                    tt = tn.ast.test  # type: ignore[union-attr]
                    pol = True
                    while isinstance(tt, ast.UnaryOp) and isinstance(tt.op, ast.Not):
                        pol = not pol
                        tt = tt.operand
                    if isinstance(tt, ast.Name) and tt.id == 'benchmark':
                        for lab in (True, False):
                            st = [ti.cfg.nodes[x] for x, l2 in ti.cfg.succ[tn.id] if l2 is lab]
                            ot = [ti.cfg.nodes[x] for x, l2 in ti.cfg.succ[tn.id] if l2 is (not lab)]
                            if r.node.id in ti.cfg.reachable(st, [], include_start=True) and r.node.id not in ti.cfg.reachable(ot, [], include_start=True):
                                vals[lab is pol] = norm(r.value)
            if set(vals) == {True, False}:
                sel = (n, vals[True], vals[False])
    if sel is None:
        raise Undecided('get_testlike_targets: selection between tests and benchmarks not recognised')
    ln, on_b, on_t = sel
    ctx.require(on_b == 'self.build.get_benchmarks()' and on_t == 'self.build.get_tests()', 'get_testlike_targets(benchmark) walks get_benchmarks() / get_tests()', bk,
                'Backend.get_testlike_targets', 'benchmark selection', f'benchmark=True walks {on_b}, benchmark=False walks {on_t}', ln.ast)
    tvn = ln.ast.target.id  # type: ignore[union-attr]
    # the per-test part may live in a generator helper: `for t in targets: yield from self._h(t)` -> analyse the helper's body for its parameter
    lb = ln.ast.body  # type: ignore[union-attr]
    if len(lb) == 1 and isinstance(lb[0], ast.Expr) and isinstance(lb[0].value, ast.YieldFrom) and isinstance(lb[0].value.value, ast.Call):
        hc = lb[0].value.value
        hn = call_name(hc) or ''
        if hn.startswith('self.') and hn.count('.') == 1 and bk.has_func(f'Backend.{hn[5:]}'):
            hb = _bound(bk, hc, f'Backend.{hn[5:]}')
            hp = [p_ for p_, a_ in hb.items() if isinstance(a_, ast.Name) and a_.id == tvn]
            if len(hb) == 1 and len(hp) == 1:
                hf = bk.func(f'Backend.{hn[5:]}')
                ti = L.FnInfo(bk, f'Backend.{hn[5:]}', hf)
                tvn = hp[0]

                class _Body:
                    ast = ast.For(target=ast.Name(id=tvn, ctx=ast.Store()), iter=ast.Name(id='<tests>', ctx=ast.Load()), body=hf.body, orelse=[])
                ln = _Body()  # type: ignore[assignment]
    trc = L.Tracer(ti)
    ys: T.Dict[str, int] = {'exe': 0, 'cmd_args': 0, 'depends': 0}
    for n in ti.cfg.nodes:
        for r in L.node_roots(n):
            for y in walk_no_nested(r):
                if isinstance(y, ast.Yield) and y.value is not None:
                    org = trc.origins(y.value, n)
                    for f in ys:
                        if f'attr:{tvn}.{f}' in org:
                            ys[f] += 1
    delegating = [short(x, 50) for n in ti.cfg.nodes for r in L.node_roots(n) for x in walk_no_nested(r)
                  if isinstance(x, ast.YieldFrom) or (isinstance(x, ast.Call) and any(isinstance(a, ast.Name) and a.id == tvn for a in x.args) and call_name(x) != 'isinstance')]
    for f, cnt in ys.items():
        if cnt == 0 and delegating:
            raise Undecided(f'get_testlike_targets: nothing yielded flows from {tvn}.{f} directly, but `{delegating[0]}` may yield it')
        ctx.require(cnt > 0, f'get_testlike_targets yields targets taken from {tvn}.{f}', bk, 'Backend.get_testlike_targets', f'{tvn}.{f}',
                    f'no yielded value of get_testlike_targets flows from `{tvn}.{f}`: targets a test {"runs" if f == "exe" else "uses as " + f} are not prerequisites of `test`', t)
    _testlike_exhaustive(ctx, bk, t, ti, ln, tvn)


def _expand_ann(repo: T.Any, mod: Module, e: T.Optional[ast.AST], out: T.List[T.Tuple[Module, ast.ClassDef]], depth: int = 0) -> None:
    """Leaf classes of a type annotation: unions, containers (element type), quoted names and TypeAlias assignments are expanded."""
    if e is None:
        return
    if depth > 10:
        raise Undecided(f'{mod.rel}: type alias chain too deep at `{short(e, 50)}`')
    if isinstance(e, ast.Constant):
        if isinstance(e.value, str):
            _expand_ann(repo, mod, ast.parse(e.value, mode='eval').body, out, depth + 1)
        return
    if isinstance(e, ast.Subscript):
        sl = e.slice
        for x in (sl.elts if isinstance(sl, ast.Tuple) else [sl]):
            _expand_ann(repo, mod, x, out, depth + 1)
        return
    if isinstance(e, ast.BinOp) and isinstance(e.op, ast.BitOr):
        _expand_ann(repo, mod, e.left, out, depth + 1)
        _expand_ann(repo, mod, e.right, out, depth + 1)
        return
    c = attr_chain(e)
    if c is None:
        return
    r = repo.resolve_class(mod, c)
    if r is not None:
        if not any(r[1] is x[1] for x in out):
            out.append(r)
        return
    # a type alias: NAME (: TypeAlias) = <annotation>, in this module or in the module the name is imported from
    imps = mod.imports()
    head, _, tail = c.partition('.')
    cands: T.List[T.Tuple[Module, str]] = []
    if not tail:
        cands.append((mod, c))
        if c in imps and '.' in imps[c]:
            m2 = repo.module_by_dotted(imps[c].rsplit('.', 1)[0])
            if m2 is not None:
                cands.append((m2, imps[c].rsplit('.', 1)[1]))
    elif head in imps:
        m2 = repo.module_by_dotted(imps[head])
        if m2 is not None and '.' not in tail:
            cands.append((m2, tail))
    for m2, name in cands:
        if m2.has_assign(name):
            _expand_ann(repo, m2, m2.assign_value(name), out, depth + 1)
            return
    # builtins (str, int), typing names: not repository classes


def _field_annotation(mod: Module, cls: ast.ClassDef, field: str) -> T.Optional[ast.AST]:
    """Annotation of `self.<field>` of a class: class-level / `self.f: ann` annotation, or that of the __init__ parameter stored in it."""
    for st in cls.body:
        if isinstance(st, ast.AnnAssign) and isinstance(st.target, ast.Name) and st.target.id == field:
            return st.annotation
    init = next((f for f in cls.body if isinstance(f, ast.FunctionDef) and f.name == '__init__'), None)
    if init is None:
        return None
    params = {a.arg: a.annotation for a in init.args.posonlyargs + init.args.args + init.args.kwonlyargs}
    for st in ast.walk(init):
        if isinstance(st, ast.AnnAssign) and attr_chain(st.target) == f'self.{field}':
            return st.annotation
    for st in ast.walk(init):
        if isinstance(st, ast.Assign) and any(attr_chain(x) == f'self.{field}' for x in st.targets) and isinstance(st.value, ast.Name) and st.value.id in params:
            return params[st.value.id]
    return None


def _defines_attr(repo: T.Any, mod: Module, cls: ast.ClassDef, name: str) -> bool:
    for m, c in repo.mro(mod, cls):
        for st in c.body:
            if isinstance(st, ast.AnnAssign) and isinstance(st.target, ast.Name) and st.target.id == name:
                return True
            if isinstance(st, ast.Assign) and any(isinstance(x, ast.Name) and x.id == name for x in st.targets):
                return True
            if isinstance(st, (ast.FunctionDef, ast.AsyncFunctionDef)):
                if st.name == name:
                    return True
                for x in ast.walk(st):
                    if isinstance(x, ast.Attribute) and x.attr == name and isinstance(x.ctx, ast.Store) and isinstance(x.value, ast.Name) and x.value.id == 'self':
                        return True
    return False


def _testlike_exhaustive(ctx: RuleCtx, bk: Module, t: ast.AST, ti: L.FnInfo, ln: Node, tvn: str) -> None:
    import itertools
    """For each source of a test (exe, cmd_args element, depends element) every class the annotations of Test admit there and that is (or wraps)
    something get_testlike_targets may yield has a row of the decision table that yields the target."""
    repo = ctx.repo
    qn = 'Backend.get_testlike_targets'
    # what the function may yield: the classes of its return annotation
    ylds: T.List[T.Tuple[Module, ast.ClassDef]] = []
    _expand_ann(repo, bk, t.returns, ylds)  # type: ignore[attr-defined]
    if not ylds:
        raise Undecided('get_testlike_targets: return annotation names no repository class')

    def below(k: T.Tuple[Module, ast.ClassDef], tops: T.List[T.Tuple[Module, ast.ClassDef]]) -> bool:
        return any(c is y[1] for _, c in repo.mro(k[0], k[1]) for y in tops)

    # the element class of build.tests: resolve through the annotation of Build.get_tests
    bm = repo.module('mesonbuild/build.py')
    tests: T.List[T.Tuple[Module, ast.ClassDef]] = []
    _expand_ann(repo, bm, bm.func('Build.get_tests').returns, tests)
    if len(tests) != 1:
        raise Undecided(f'Build.get_tests: element class of the returned list not resolved ({[c.name for _, c in tests]})')
    tm, tc = tests[0]
    eff = lambda st: ('yield ' + norm(st.value.value)) if isinstance(st, ast.Expr) and isinstance(st.value, ast.Yield) else None  # noqa: E731
    trc = L.Tracer(ti)
    nob = 0
    for field in ('exe', 'cmd_args', 'depends'):
        ann = _field_annotation(tm, tc, field)
        if ann is None:
            raise Undecided(f'{tc.name}.{field}: no annotation found')
        admitted: T.List[T.Tuple[Module, ast.ClassDef]] = []
        _expand_ann(repo, tm, ann, admitted)
        kinds: T.List[T.Tuple[T.Tuple[Module, ast.ClassDef], str]] = []
        for k in admitted:
            if below(k, ylds):
                kinds.append((k, 'direct'))
                continue
            fa = next((st.annotation for st in k[1].body if isinstance(st, ast.AnnAssign) and isinstance(st.target, ast.Name) and st.target.id == 'target'), None)
            if fa is not None:
                inner: T.List[T.Tuple[Module, ast.ClassDef]] = []
                _expand_ann(repo, k[0], fa, inner)
                if inner and all(below(x, ylds) for x in inner):
                    kinds.append((k, 'index'))
        if not kinds:
            raise Undecided(f'{tc.name}.{field}: annotation `{short(ann, 60)}` admits no buildable class')
        wrappers: T.List[T.Tuple[T.Tuple[Module, ast.ClassDef], str]] = []
        w_of: T.Dict[str, T.List[T.Tuple[Module, ast.ClassDef]]] = {}
        kind_ids = {id(k[1]) for k, _ in kinds}
        for k in admitted:
            if id(k[1]) in kind_ids:
                continue
            for cq, cdef in bm.classes().items():
                if '.' in cq or cdef is k[1] or not any(x[1] is k[1] for x in repo.mro(bm, cdef)):
                    continue
                init = next((f_ for f_ in cdef.body if isinstance(f_, ast.FunctionDef) and f_.name == '__init__'), None)
                if init is None:
                    continue
                for a_ in init.args.args[1:]:
                    inner_: T.List[T.Tuple[Module, ast.ClassDef]] = []
                    _expand_ann(repo, bm, a_.annotation, inner_)
                    if not any(below(x, ylds) for x in inner_):
                        continue
                    stored = [st_ for st_ in ast.walk(init) if isinstance(st_, ast.Assign) and isinstance(st_.value, ast.Name) and st_.value.id == a_.arg
                              and len(st_.targets) == 1 and (attr_chain(st_.targets[0]) or '').startswith('self.')]
                    if len(stored) == 1:
                        if not any(x[0][1] is cdef for x in wrappers):
                            wrappers.append(((bm, cdef), attr_chain(stored[0].targets[0]).split('.', 1)[1]))  # type: ignore[union-attr]
                        w_of.setdefault(cdef.name, []).append(k)
        # the part of the loop body that handles this source, and the subject expression
        def splice(stmts: T.List[ast.stmt]) -> T.List[ast.stmt]:
            out_: T.List[ast.stmt] = []
            for s_ in stmts:
                if isinstance(s_, ast.If) and isinstance(s_.test, ast.Constant) and s_.test.value and not s_.orelse:
                    out_.extend(splice(s_.body))      # `if True:` wrapper
                else:
                    out_.append(s_)
            return out_
        ti_f, tab_fn, helper = ti, t, False
        src_loops = [s for s in ast.walk(ln.ast) if isinstance(s, ast.For) and s is not ln.ast and ti.nodes_of(s.iter) and  # type: ignore[arg-type]
                     f'attr:{tvn}.{field}' in trc.origins(s.iter, ti.nodes_of(s.iter)[0])]
        plain = [s for s in splice(ln.ast.body) if not isinstance(s, (ast.For, ast.AsyncFor))]  # type: ignore[union-attr]
        plain_reads = any(f'{tvn}.{field}' in norm(s_) for s_ in plain)
        if field == 'exe' and not plain_reads and len(src_loops) == 1 and isinstance(src_loops[0].target, ast.Name):
            # the program is handled together with other values by one loop (e.g. over chain([t.exe], t.cmd_args))
            body = src_loops[0].body
            subject = src_loops[0].target.id
        elif field == 'exe':
            body = plain
            if any(isinstance(x, (ast.For, ast.AsyncFor, ast.While)) for s_ in body for x in ast.walk(s_)):
                raise Undecided('get_testlike_targets:exe: the statements that handle the test program contain loops')
            if not plain_reads:
                raise Undecided(f'get_testlike_targets:exe: no statement of the per-test code reads {tvn}.exe directly or iterates over it')
            subject = f'{tvn}.exe'
        else:
            loops = [s for s in ast.walk(ln.ast) if isinstance(s, ast.For) and s is not ln.ast and ti.nodes_of(s.iter) and  # type: ignore[arg-type]
                     f'attr:{tvn}.{field}' in trc.origins(s.iter, ti.nodes_of(s.iter)[0])]
            if len(loops) != 1 or not isinstance(loops[0].target, ast.Name):
                raise Undecided(f'get_testlike_targets: {len(loops)} loops over {tvn}.{field}')
            body = loops[0].body
            subject = loops[0].target.id
        subject_src = subject
        # map-and-filter through a helper: `r = self.h(S)` + `if r is not None: yield r`  ==  the helper's body with `return X` read as `yield X`
        sb = splice(list(body))
        if len(sb) == 2 and isinstance(sb[0], ast.Assign) and len(sb[0].targets) == 1 and isinstance(sb[0].targets[0], ast.Name) and isinstance(sb[0].value, ast.Call) \
                and isinstance(sb[1], ast.If) and not sb[1].orelse and len(sb[1].body) == 1 and isinstance(sb[1].body[0], ast.Expr) and isinstance(sb[1].body[0].value, ast.Yield):
            rn = sb[0].targets[0].id
            hc = sb[0].value
            tst = sb[1].test
            tst_ok = (isinstance(tst, ast.Name) and tst.id == rn) or (isinstance(tst, ast.Compare) and len(tst.ops) == 1 and isinstance(tst.ops[0], ast.IsNot)
                                                                        and norm(tst.left) == rn and norm(tst.comparators[0]) == 'None')
            yv = sb[1].body[0].value.value
            hn = call_name(hc) or ''
            hq = None
            if hn.count('.') == 1 and hn.split('.')[0] in ('self', 'cls', 'Backend') and bk.has_func(f'Backend.{hn.split(".")[1]}'):
                hq = f'Backend.{hn.split(".")[1]}'
            elif isinstance(hc.func, ast.Name) and bk.has_func(hc.func.id):
                hq = hc.func.id
            if tst_ok and isinstance(yv, ast.Name) and yv.id == rn and hq is not None and len(hc.args) == 1 and not hc.keywords and norm(hc.args[0]) == subject:
                hfn = bk.func(hq)
                hps = [a_.arg for a_ in hfn.args.posonlyargs + hfn.args.args if a_.arg not in ('self', 'cls')]
                if len(hps) != 1:
                    raise Undecided(f'get_testlike_targets:{field}: helper {hq} does not take exactly the value')
                ti_f, tab_fn, helper = L.FnInfo(bk, hq, hfn), hfn, True
                body = hfn.body
                subject_src = hps[0]
                subject = 'ARG1'
        trc_f = L.Tracer(ti_f)
        for st in body:
            for x in walk_no_nested(st):
                if isinstance(x, ast.YieldFrom) or (isinstance(x, ast.Call) and call_name(x) not in ('isinstance', 'getattr', 'hasattr', 'type', 'id') and ti_f.nodes_of(x) and any(
                        (isinstance(a, ast.Name) and a.id == subject_src) or f'attr:{subject_src}' in trc_f.origins(a, ti_f.nodes_of(x)[0]) or
                        (isinstance(a, ast.Name) and a.id == tvn and not helper)
                        for a in list(x.args) + [k.value for k in x.keywords])):
                    raise Undecided(f'get_testlike_targets:{field}: `{short(x, 60)}` handles the value in code the row table does not contain')
        tab = _extract(tab_fn, body=body, effects=eff, name=f'get_testlike_targets:{field}')  # type: ignore[arg-type]

        def row_yields(r: tables.Row, helper: bool = helper) -> T.Set[str]:
            ys_ = {e_ for e_ in r.effects if e_.startswith('yield ')}
            if helper and r.outcome[0] == 'return' and r.outcome[1] not in ('None',):
                ys_.add('yield ' + r.outcome[1])      # what the helper returns is what the caller yields
            return ys_
        if not helper and not any(a.kind == 'isinstance' for a in tab.atoms()) and not any(subject in y_ for r_ in tab.rows for y_ in row_yields(r_)):
            raise Undecided(f'get_testlike_targets:{field}: the code for this source neither classifies nor yields `{subject}`')
        if field == 'exe' and not helper and subject == f'{tvn}.exe':
            # the classified value is `t.exe` itself or a local that holds it (possibly re-bound while unwrapping)
            subs = {a.args[0] for a in tab.atoms() if a.kind == 'isinstance'}
            cands = set()
            for sname in subs:
                if sname == subject:
                    cands.add(sname)
                elif sname.isidentifier() and any(d.value is not None and f'attr:{subject}' in trc.origins(d.value, d.node) for d in ti.defs().get(sname, [])):
                    cands.add(sname)
            if len(cands) > 1:
                raise Undecided(f'get_testlike_targets:exe: the test program is classified under several names {sorted(cands)}')
            if cands:
                subject = next(iter(cands))
                subject_src = subject
        free = []
        for a in tab.atoms():
            if a.kind == 'isinstance' and a.args[0] == subject:
                continue
            free.append(a)
        if len(free) > 6:
            raise Undecided(f'get_testlike_targets:{field}: {len(free)} atoms besides the isinstance tests on {subject}')
        for k, how in kinds:
            world0: T.Dict[tables.Atom, bool] = {}
            for a in tab.atoms():
                if a.kind == 'isinstance' and a.args[0] == subject:
                    tops = []
                    for cn in a.args[1]:
                        rc = repo.resolve_class(bk, cn)
                        if rc is None:
                            raise Undecided(f'get_testlike_targets: class `{cn}` of an isinstance test is not a repository class')
                        tops.append(rc)
                    world0[a] = below(k, tops)
            accept = {f'yield {subject}.target'} if how == 'index' else {f'yield {subject}'}
            ga = f"yield getattr({subject}, 'target', {subject})"
            if how == 'index' or not _defines_attr(repo, k[0], k[1], 'target'):
                accept.add(ga)
            bad: T.Any = None
            fired_any = False
            for combo in itertools.product([True, False], repeat=len(free)):
                w = dict(world0)
                w.update(dict(zip(free, combo)))
                rows = tab.fire(w)
                if not rows:
                    continue     # inconsistent assignment of the free atoms
                fired_any = True
                for r in rows:
                    if r.outcome[0] == 'raise':
                        continue
                    if not (accept & row_yields(r)):
                        bad = r
            nob += 1
            if not fired_any:
                raise Undecided(f'get_testlike_targets:{field}: no row of the table fires for a {k[1].name}')
            ctx.require(bad is None, f'get_testlike_targets: a {k[1].name} in {tvn}.{field} yields {"its parent target" if how == "index" else "the target"}', bk, qn,
                        f'{tc.name}.{field}: {k[1].name}',
                        f'{tc.name}.{field} admits a {k[1].name} (annotation `{short(ann, 60)}`), but for such a value the code takes the row `{bad}` which does not '
                        f'{sorted(accept)[0]}: {"the custom target behind an indexed output" if how == "index" else "that target"} used by a test is not reachable from '
                        'meson-test-prereq', t)
        # wrapper classes: repository subclasses of an admitted non-buildable class that hold a buildable (build.LocalProgram.program)
        for w, wfield in wrappers:
            nob += 1
            done = False
            if subject_src.isidentifier():
                for n in ti_f.cfg.nodes:
                    st = n.ast if n.kind == 'stmt' else None
                    if isinstance(st, ast.Assign) and len(st.targets) == 1 and isinstance(st.targets[0], ast.Name) and st.targets[0].id == subject_src and \
                            isinstance(st.value, ast.Attribute) and isinstance(st.value.value, ast.Name) and st.value.value.id == subject_src and st.value.attr == wfield and \
                            any(id(st) == id(x) for b_ in body for x in ast.walk(b_)) and _under_isinstance(ctx, ti_f, bk, n, subject_src, w[1].name):
                        # the unwrapping must come before the classification of the value: its isinstance test dominates the other tests on the value
                        in_body = {id(x) for b_ in body for x in ast.walk(b_)}
                        ws = [m for m in ti_f.cfg.nodes if m.kind == 'test' and id(m.ast) in in_body and f'isinstance({subject_src}, ' in norm(m.ast.test)  # type: ignore[union-attr]
                              and norm(m.ast.test).rstrip(')').endswith(w[1].name)]  # type: ignore[union-attr]
                        others = [m for m in ti_f.cfg.nodes if m.kind == 'test' and id(m.ast) in in_body and f'isinstance({subject_src}, ' in norm(m.ast.test) and m not in ws]  # type: ignore[union-attr]
                        if ws and all(ti_f.cfg.dominated_by_any(m, ws) for m in others):
                            done = True
            if done:
                ctx.ok(f'get_testlike_targets: a {w[1].name} in {tvn}.{field} is replaced by its .{wfield} before the value is classified')
                continue
            world0 = {}
            for a in tab.atoms():
                if a.kind == 'isinstance' and a.args[0] == subject:
                    tops = []
                    for cn in a.args[1]:
                        rc = repo.resolve_class(bk, cn)
                        if rc is None:
                            raise Undecided(f'get_testlike_targets: class `{cn}` of an isinstance test is not a repository class')
                        tops.append(rc)
                    world0[a] = below(w, tops)
            badr: T.Any = None
            fired_any = False
            for combo in itertools.product([True, False], repeat=len(free)):
                wd = dict(world0)
                wd.update(dict(zip(free, combo)))
                for r in tab.fire(wd):
                    fired_any = True
                    if r.outcome[0] == 'raise':
                        continue
                    ys_ = sorted(row_yields(r))
                    if not ys_:
                        badr = r
                    elif not any(f'{subject}.{wfield}' in e or 'get_target' in e for e in ys_):
                        raise Undecided(f'get_testlike_targets:{field}: a {w[1].name} yields `{ys_}`, a form the rule does not read')
            if not fired_any:
                raise Undecided(f'get_testlike_targets:{field}: no row of the table fires for a {w[1].name}')
            ctx.require(badr is None, f'get_testlike_targets: a {w[1].name} in {tvn}.{field} yields the target it wraps', bk, qn, f'{tc.name}.{field}: {w[1].name}',
                        f'{tc.name}.{field} admits a {w[1].name} (a {"/".join(sorted(x[1].name for x in w_of[w[1].name]))} that wraps a build target in `.{wfield}`: e.g. the result of '
                        f'find_program() on a name overridden with an executable), but for such a value the code takes the row `{badr}` which yields nothing: the wrapped target '
                        'is not a prerequisite of `meson test` although the test runs it', t)
    ctx.floor('(source, admitted buildable class) pairs of get_testlike_targets', nob, 1)


# ----------------------------------------------------------------------------
# R5  name collisions rejected at configure time
# ----------------------------------------------------------------------------
def r5(ctx: RuleCtx) -> None:
    im = ctx.repo.module(INTERP)
    qn = 'Interpreter.add_target'
    info = L.FnInfo(im, qn, im.func(qn))
    cfg = info.cfg
    ps = _param_names(info.fn)
    def stores_of(c_: T.Any) -> T.List[Node]:
        return [n for n in c_.nodes if n.kind == 'stmt' and isinstance(n.ast, ast.Assign) and any(
            isinstance(t, ast.Subscript) and attr_chain(t.value) == 'self.build.targets' for t in n.ast.targets)]
    stores = stores_of(cfg)
    store_fn = qn
    if not stores:
        # the registration phase may be a private method of the interpreter called from add_target alone: the call stands for the store
        # (value and key are the helper's, with its parameters replaced by the arguments of the call)
        phases = []
        for n in cfg.nodes:
            for c in L.node_calls(n):
                cn_ = call_name(c) or ''
                if cn_.startswith('self.') and cn_.count('.') == 1 and im.has_func(f'Interpreter.{cn_[5:]}'):
                    hs = stores_of(L.FnInfo(im, f'Interpreter.{cn_[5:]}', im.func(f'Interpreter.{cn_[5:]}')).cfg)
                    if hs:
                        phases.append((n, c, f'Interpreter.{cn_[5:]}', hs))
        if len(phases) != 1 or len(phases[0][3]) != 1 or phases[0][0].kind != 'stmt':
            raise Undecided(f'add_target: 0 stores into self.build.targets ({len(phases)} helper calls that store)')
        sn, pc, store_fn, (hst,) = phases[0]
        pb = _bound(im, pc, store_fn)
        if '*' in pb or '**' in pb:
            raise Undecided(f'add_target: `{short(pc, 60)}` passes star arguments to the registration helper')
        hps = set(_param_names(im.func(store_fn)))
        if any(isinstance(x, ast.Name) and isinstance(x.ctx, ast.Store) and x.id in hps for x in ast.walk(im.func(store_fn))):
            raise Undecided(f'{store_fn}: a parameter of the registration helper is re-bound')
        others_ = [q_ for q_, f_ in im.funcs().items() for c in _own_calls(f_) if call_method(c) == store_fn.split('.')[-1] and c is not pc]
        if others_:
            raise Undecided(f'{store_fn}: the registration helper is also called from {others_[:3]}')

        class Sub(ast.NodeTransformer):
            def visit_Name(self, n_: ast.Name) -> ast.AST:
                return copy.deepcopy(pb[n_.id]) if n_.id in pb and isinstance(n_.ctx, ast.Load) else n_
        h_assign = T.cast(ast.Assign, hst.ast)
        h_info = L.FnInfo(im, store_fn, im.func(store_fn))
        key = Sub().visit(copy.deepcopy(L.inline_locals(h_info, [t for t in h_assign.targets if isinstance(t, ast.Subscript)][0].slice, hst)))
        value = Sub().visit(copy.deepcopy(L.inline_locals(h_info, h_assign.value, hst)))
        store_ast: ast.AST = ast.fix_missing_locations(ast.copy_location(ast.Assign(targets=[ast.Subscript(
            value=ast.parse('self.build.targets', mode='eval').body, slice=key, ctx=ast.Store())], value=value), sn.ast))
    else:
        if len(stores) != 1:
            raise Undecided(f'add_target: {len(stores)} stores into self.build.targets')
        sn = stores[0]
        store_ast = sn.ast
        key = [t for t in sn.ast.targets if isinstance(t, ast.Subscript)][0].slice  # type: ignore[union-attr]
        value = sn.ast.value  # type: ignore[union-attr]
    ctx.require(isinstance(value, ast.Name) and len(ps) > 1 and value.id == ps[1], 'add_target stores the target object it was given', im, qn, store_ast,
                'the value stored in self.build.targets is not the target parameter', sn.ast)
    val = [n for n in cfg.nodes if any(call_name(c) == 'self.validate_forbidden_targets' and _passes(im, c, 'Interpreter.validate_forbidden_targets', ps[0])
                                       for c in L.node_calls(n))]
    if not val:
        _absence_provable(info, 'the call of validate_forbidden_targets on the target name', ignore=['self.validate_build_subdir', 'self.add_languages', 'self.add_stdlib_info'])
    ctx.require(bool(val) and cfg.dominated_by_any(sn, val) and not info.defs().get(ps[0], []), 'validate_forbidden_targets(name, ...) dominates the store into build.targets', im, qn,
                'self.validate_forbidden_targets(name, ...)',
                'a path of add_target reaches `self.build.targets[...] = ...` without calling validate_forbidden_targets on the target name: reserved names are accepted', sn.ast)
    # duplicate-id test
    dups = []
    for n in cfg.nodes:
        if n.kind != 'test':
            continue
        t = n.ast.test  # type: ignore[union-attr]
        pol = True
        while isinstance(t, ast.UnaryOp) and isinstance(t.op, ast.Not):
            pol = not pol
            t = t.operand
        mb = _membership(L.inline_locals(info, t, n))
        if mb is not None and attr_chain(mb[1]) == 'self.build.targets':
            dups.append((n, pol if mb[2] else not pol, mb[0]))
    good = []
    for n, pol, left in dups:
        present = [cfg.nodes[b] for b, lab in cfg.succ[n.id] if lab is pol]
        r = cfg.reachable(present, [], include_start=True)
        same_key = norm(L.inline_locals(info, left, n)) == norm(L.inline_locals(info, key, sn))
        if sn.id not in r and cfg.exit_return.id not in r and cfg.exit_raise.id in r and same_key:
            good.append(n)
    if not dups:
        raise Undecided('add_target: no membership test against self.build.targets was recognised')
    ctx.require(bool(good) and cfg.dominated_by_any(sn, good), 'the duplicate-id test (raising) dominates the store and tests the stored key', im, qn,
                f'{norm(key)} in self.build.targets',
                f'`self.build.targets[{norm(key)}] = ...` can be reached without the test `{norm(key)} in self.build.targets` having raised for an existing id: '
                'a second target with the same id silently replaces the first', sn.ast)
    # only add_target stores targets
    writers = []
    files = ctx.repo.py_files('mesonbuild') if ctx.thorough else [INTERP, 'mesonbuild/build.py', 'mesonbuild/interpreter/mesonmain.py', 'mesonbuild/modules/__init__.py'] + \
        [f for f in ctx.repo.py_files('mesonbuild/backend')]
    for rel in files:
        if not ctx.repo.exists(rel):
            continue
        m2 = ctx.repo.module(rel)
        if 'build.targets' not in m2.src:
            continue
        for node in ast.walk(m2.tree):
            tg: T.List[ast.AST] = []
            if isinstance(node, ast.Assign):
                tg = list(node.targets)
            elif isinstance(node, (ast.AugAssign, ast.AnnAssign)):
                tg = [node.target]
            elif isinstance(node, ast.Delete):
                tg = list(node.targets)
            for t in tg:
                if isinstance(t, ast.Subscript) and (attr_chain(t.value) or '').endswith('build.targets'):
                    writers.append(f'{rel}:{m2.enclosing_func(node)}')
            if isinstance(node, ast.Call) and isinstance(node.func, ast.Attribute) and node.func.attr in ('update', 'setdefault', 'pop', 'clear', 'popitem') and \
                    (attr_chain(node.func.value) or '').endswith('build.targets'):
                writers.append(f'{rel}:{m2.enclosing_func(node)}')
    ctx.floor('writers of build.targets found by the scan', len(writers), 1)
    ctx.require(writers == [f'{INTERP}:{store_fn}'], 'build.targets is written only by Interpreter.add_target', im, qn, 'writers of build.targets',
                f'build.targets is also written by {[w for w in writers if w != f"{INTERP}:{store_fn}"]}, bypassing the name checks')

    # validate_forbidden_targets: decision table
    vq = 'Interpreter.validate_forbidden_targets'
    vf = im.func(vq)
    tab = _extract(vf, name='validate_forbidden_targets')
    from ..consteval import fold_expr

    def const_str(m: Module, e: ast.AST) -> T.Optional[str]:
        if isinstance(e, ast.Constant):
            return e.value if isinstance(e.value, str) else None
        try:
            v = fold_expr(ctx.repo, m, e)
        except Exception:
            return None
        return v if isinstance(v, str) else None
    # the internal-name prefix the backend builds (constant part in front of the user-visible name)
    mod = ctx.repo.module(NB)
    infos = _infos(ctx)
    cp = infos.get(f'{BACKEND}.create_phony_target')
    ctors = [(c, a_) for c in _own_calls(cp.fn) for a_ in [_construction_args(mod, c)] if a_ is not None]
    cps = _param_names(cp.fn)
    prefixes = set()
    for c, ca in ctors:
        for arg in (ca.get('outfilenames'), ca.get('infilenames')):
            if arg is None:
                continue
            parts = L.template_parts(L.inline_locals(cp, arg, cp.node_of(c)))
            if parts and len(parts) == 2 and isinstance(parts[1], ast.Name) and parts[1].id == cps[0]:
                pv = parts[0] if isinstance(parts[0], str) else const_str(mod, parts[0])
                if pv:
                    prefixes.add(pv)
    if len(prefixes) != 1:
        raise Undecided(f'create_phony_target: the internal name is not built as one <constant prefix> + <name> (found {sorted(prefixes)})')
    prefix = next(iter(prefixes))
    # atoms of the table: startswith(<constant>) on the name, membership in the reserved set, the in_root flag
    A_FORB = A_ROOT = None
    starts: T.Dict[tables.Atom, str] = {}
    for a in tab.atoms():
        if a.kind == 'truth':
            e = ast.parse(a.args[0], mode='eval').body
            if isinstance(e, ast.Call) and isinstance(e.func, ast.Attribute) and e.func.attr == 'startswith' and norm(e.func.value) == 'ARG1' and len(e.args) == 1:
                cv = const_str(im, e.args[0])
                if cv is None:
                    raise Undecided(f'validate_forbidden_targets: `{a.args[0]}` tests a prefix that does not fold to a constant')
                starts[a] = cv
            elif a.args[0] == 'ARG2':
                A_ROOT = a
        elif a.kind == 'in' and a.args[0] == 'ARG1':
            try:
                fv = fold_expr(ctx.repo, im, ast.parse(a.args[1], mode='eval').body)
            except Exception:
                fv = None
            if isinstance(fv, (set, frozenset)) and fv == fold_const(ctx.repo, ctx.repo.module(CORE), 'FORBIDDEN_TARGET_NAMES'):
                A_FORB = a
    if A_FORB is None or A_ROOT is None:
        raise Undecided(f'validate_forbidden_targets: atoms {tab.atoms()} do not contain the reserved-set / in_root tests')
    if not any(prefix.startswith(cv) for cv in starts.values()):
        # no prefix test that a name starting with the internal prefix is bound to satisfy: the rejection may be written in a form the
        # table does not show (regular expression, lookup) - nothing can be concluded about such names
        raise Undecided(f'validate_forbidden_targets: no startswith() test covers names that begin with the internal prefix {prefix!r}; '
                        'the rejection may be written in another form')
    nw = np_ = 0
    badw = badp = None
    for wd in tab.worlds():
        rows = tab.fire(wd)
        if len(rows) != 1:
            raise Undecided(f'validate_forbidden_targets: {len(rows)} rows for {wd}')
        if wd[A_FORB] and wd[A_ROOT]:
            nw += 1
            if rows[0].outcome[0] != 'raise':
                badw = (wd, rows[0])
        # worlds of a name that starts with the backend's internal prefix: startswith(c) holds whenever c is a prefix of it
        if all(wd[a] for a, cv in starts.items() if prefix.startswith(cv)) and not any(wd[a] for a, cv in starts.items() if not prefix.startswith(cv) and not cv.startswith(prefix)):
            np_ += 1
            if rows[0].outcome[0] != 'raise':
                badp = (wd, rows[0])
    ctx.require(badw is None and nw > 0, f'validate_forbidden_targets raises for reserved names in the root ({nw} worlds)', im, vq, vf,
                f'validate_forbidden_targets does not raise in world {badw[0] if badw else None} (row {badw[1] if badw else None}): a reserved name is accepted')
    ctx.require(badp is None and np_ > 0, f'validate_forbidden_targets raises for every name that starts with the internal prefix {prefix!r} of create_phony_target ({np_} worlds)',
                im, vq, f'names starting with {prefix!r}',
                f'create_phony_target builds internal names with the prefix {prefix!r}, but validate_forbidden_targets accepts such a name in world '
                f'{badp[0] if badp else None} (row {badp[1] if badp else None}): a user target can collide with the internal name')
    forb = fold_const(ctx.repo, ctx.repo.module(CORE), 'FORBIDDEN_TARGET_NAMES')
    if not isinstance(forb, (set, frozenset)):
        raise Undecided('FORBIDDEN_TARGET_NAMES does not fold to a set')

    # backend utility targets: guard name == created name
    funcs = _backend_funcs(mod)
    nguard = 0
    classes: T.Dict[str, T.List[str]] = {'reserved': [], 'meson-prefix': [], 'guarded': [], 'caught-by-R1/R2': []}
    for q, f in funcs.items():
        if q == f'{BACKEND}.create_phony_target':
            continue
        gi = None
        for c in _own_calls(f):
            name_e = None
            if call_name(c) == 'self.create_phony_target':
                name_e = _bound(mod, c, f'{BACKEND}.create_phony_target').get(_param_names(mod.func(f'{BACKEND}.create_phony_target'))[0])
            elif _construction_args(mod, c) is not None:
                oe = _construction_args(mod, c).get('outfilenames')  # type: ignore[union-attr]
                if isinstance(oe, ast.Constant) and isinstance(oe.value, str):
                    name_e = oe
            if name_e is None:
                continue
            gi = gi or infos.get(q)
            cn = gi.node_of(c)
            guards = []
            for n in gi.cfg.nodes:
                if n.kind != 'test':
                    continue
                forced = _present_forces(L.inline_locals(gi, n.ast.test, n))  # type: ignore[union-attr]
                if forced is None:
                    continue
                lab, found = forced
                # the edge taken when the name is present must not reach the creation, and the test must dominate it
                t_succ = [gi.cfg.nodes[b] for b, l2 in gi.cfg.succ[n.id] if l2 is lab]
                if cn.id in gi.cfg.reachable(t_succ, [], include_start=True):
                    continue
                if not gi.cfg.dominated_by_any(cn, [n]):
                    continue
                guards.append((n, found))
            label = norm(name_e)
            if guards:
                nguard += 1
                n, found = guards[0]
                a = norm(L.inline_locals(gi, _membership(found)[0], n))  # type: ignore[index]
                b = norm(L.inline_locals(gi, name_e, cn))
                same = a == b and (not isinstance(name_e, ast.Name) or {id(d) for d in gi.reaching(name_e.id, n)} == {id(d) for d in gi.reaching(name_e.id, cn)}
                                   or [d.node.id if isinstance(d, L.Def) else d for d in gi.reaching(name_e.id, n)] == [d.node.id if isinstance(d, L.Def) else d for d in gi.reaching(name_e.id, cn)])
                ctx.require(same, f'{q}: guard `{a} in self.all_outputs` protects the creation of {b}', mod, q, c,
                            f'the guard tests `{a} in self.all_outputs` but the target created is `{b}`: an existing user target of that name makes the generation fail '
                            'with "Multiple producers" instead of being left alone', c)
                classes['guarded'].append(label)
            elif isinstance(name_e, ast.Constant):
                v = name_e.value
                if v in forb:
                    classes['reserved'].append(v)
                elif v.startswith('meson-') and '.' not in v:
                    classes['meson-prefix'].append(v)
                else:
                    classes['caught-by-R1/R2'].append(v)
    ctx.floor('guarded utility targets', nguard, 1)
    ctx.note(f'backend target names: reserved by FORBIDDEN_TARGET_NAMES {sorted(set(classes["reserved"]))}; reserved by the meson- prefix {sorted(set(classes["meson-prefix"]))}; '
             f'created under an all_outputs guard {sorted(set(classes["guarded"]))}; neither (collision caught at generation time by check_outputs) {sorted(set(classes["caught-by-R1/R2"]))}')


# ----------------------------------------------------------------------------
# R6  receiver agreement: an output name is joined with the directory of the target that owns it (K8)
# ----------------------------------------------------------------------------
OWN_DIR = {'self.get_target_dir', 'self.get_custom_target_output_dir'}
PRIVATE_DIR = {'self.get_target_private_dir'}
OUT_CALLS = {'get_filename', 'get_debug_filename'}
OUT_LISTS = {'get_outputs'}
OUT_ATTRS = {'import_filename', 'debug_filename'}


def _comp_env(mod: Module, fn: ast.AST, node: ast.AST) -> T.Dict[str, ast.AST]:
    """comprehension variable -> iterable, for the comprehensions enclosing `node`."""
    env: T.Dict[str, ast.AST] = {}
    pm = mod.parent_map()
    p = pm.get(node)
    while p is not None and p is not fn:
        if isinstance(p, (ast.ListComp, ast.SetComp, ast.GeneratorExp, ast.DictComp)):
            for g in p.generators:
                if isinstance(g.target, ast.Name):
                    env.setdefault(g.target.id, g.iter)
                else:
                    for t in ast.walk(g.target):
                        if isinstance(t, ast.Name):
                            env.setdefault(t.id, ast.Constant(value=None))
        p = pm.get(p)
    return env


def _outputs_of(e: ast.AST) -> T.Optional[str]:
    """`Y.get_outputs()` -> 'Y' (Y a plain name)."""
    if isinstance(e, ast.Call) and isinstance(e.func, ast.Attribute) and e.func.attr in OUT_LISTS and not e.args and isinstance(e.func.value, ast.Name):
        return e.func.value.id
    return None


def _owners(info: L.FnInfo, e: ast.AST, at: Node, env: T.Dict[str, ast.AST], depth: int = 0) -> T.Set[T.Tuple[str, int]]:
    """Targets whose output name `e` *directly is* (no derivation): {(local name of the target, id of the node where the name is read)}."""
    out: T.Set[T.Tuple[str, int]] = set()
    if depth > 4:
        return out
    if isinstance(e, ast.Call) and isinstance(e.func, ast.Attribute) and e.func.attr in OUT_CALLS and not e.args and isinstance(e.func.value, ast.Name):
        out.add((e.func.value.id, at.id))
    elif isinstance(e, ast.Subscript) and _outputs_of(e.value) is not None and not isinstance(e.slice, ast.Slice):
        out.add((_outputs_of(e.value) or '', at.id))
    elif isinstance(e, ast.Attribute) and e.attr in OUT_ATTRS and isinstance(e.value, ast.Name) and e.value.id not in ('self', 'cls'):
        out.add((e.value.id, at.id))
    elif isinstance(e, ast.Name):
        if e.id in env:
            y = _outputs_of(L.inline_locals(info, env[e.id], at))
            if y is not None:
                src = env[e.id]
                out.add((y if _outputs_of(src) is not None else y, at.id))
            return out
        for d in info.reaching(e.id, at):
            if not isinstance(d, L.Def) or d.value is None:
                continue
            if d.kind == 'assign':
                out |= _owners(info, d.value, d.node, {}, depth + 1)
            elif d.kind == 'iter' and d.index is None:
                if _outputs_of(d.value) is not None:
                    out.add((_outputs_of(d.value) or '', d.node.id))
                else:
                    inl = L.inline_locals(info, d.value, d.node)
                    # `outs = Y.get_outputs(); for o in outs`: owner read where the list was taken
                    if _outputs_of(inl) is not None and isinstance(d.value, ast.Name):
                        for d2 in info.reaching(d.value.id, d.node):
                            if isinstance(d2, L.Def) and d2.kind == 'assign' and d2.value is not None and _outputs_of(d2.value) is not None:
                                out.add((_outputs_of(d2.value) or '', d2.node.id))
    return out


def _dir_alternatives(info: L.FnInfo, e: ast.AST, at: Node, depth: int = 0) -> T.List[T.Tuple[str, ast.AST, Node]]:
    """(kind own|private, argument expression, node where it is evaluated) for a directory expression."""
    out: T.List[T.Tuple[str, ast.AST, Node]] = []
    if isinstance(e, ast.Call) and len(e.args) + len(e.keywords) == 1 and not any(isinstance(x, ast.Starred) for x in e.args) and all(k.arg for k in e.keywords):
        cn = call_name(e)
        only = e.args[0] if e.args else e.keywords[0].value
        if cn in OWN_DIR:
            out.append(('own', only, at))
        elif cn in PRIVATE_DIR:
            out.append(('private', only, at))
    elif isinstance(e, ast.Name) and depth < 3:
        for d in info.reaching(e.id, at):
            if isinstance(d, L.Def) and d.kind == 'assign' and d.value is not None:
                out.extend(_dir_alternatives(info, d.value, d.node, depth + 1))
    return out


def _defs_key(info: L.FnInfo, name: str, node_id: int) -> T.FrozenSet[T.Any]:
    return frozenset((d.node.id if isinstance(d, L.Def) else d) for d in info.reaching(name, info.cfg.nodes[node_id]))


def _under_isinstance(ctx: RuleCtx, info: L.FnInfo, mod: Module, n: Node, subject: str, cls_name: str) -> bool:
    """Is node n only reachable through the true edge of a test `isinstance(<subject>, <class named cls_name>)`?"""
    cfg = info.cfg
    for t in cfg.nodes:
        if t.kind != 'test':
            continue
        tt = None
        pol = True
        for cand in (t.ast.test, L.inline_locals(info, t.ast.test, t)):  # type: ignore[union-attr]
            pol = True
            while isinstance(cand, ast.UnaryOp) and isinstance(cand.op, ast.Not):
                pol = not pol
                cand = cand.operand
            if isinstance(cand, ast.Call) and call_name(cand) == 'isinstance' and len(cand.args) == 2 and isinstance(cand.args[0], ast.Name) and cand.args[0].id == subject:
                tt = cand
                break
        if tt is None:
            continue
        names = tt.args[1].elts if isinstance(tt.args[1], ast.Tuple) else [tt.args[1]]
        if len(names) != 1:
            continue
        rc = ctx.repo.resolve_class(mod, attr_chain(names[0]) or '')
        if rc is None or rc[1].name != cls_name:
            continue
        false_succ = [cfg.nodes[b] for b, lab in cfg.succ[t.id] if lab is (not pol)]
        if cfg.dominated_by_any(n, [t]) and n.id not in cfg.reachable(false_succ, [t], include_start=True):
            return True
    return False


def r6(ctx: RuleCtx) -> None:
    n_own = n_priv = 0
    for rel, cls in ((BK, 'Backend'), (NB, BACKEND)):
        mod = ctx.repo.module(rel)
        infos = _infos(ctx) if rel == NB else L.Infos(mod)
        for q, f in mod.funcs().items():
            if not q.startswith(cls + '.'):
                continue
            for c in _own_calls(f):
                if call_name(c) != 'os.path.join' or len(c.args) < 2 or c.keywords or any(isinstance(a, ast.Starred) for a in c.args):
                    continue
                if not (isinstance(c.args[0], ast.Name) or (isinstance(c.args[0], ast.Call) and call_name(c.args[0]) in OWN_DIR | PRIVATE_DIR)):
                    continue
                info = infos.get(q)
                nodes = info.nodes_of(c)
                if not nodes:
                    continue
                at = nodes[0]
                dirs = _dir_alternatives(info, c.args[0], at)
                if not dirs:
                    continue
                env = _comp_env(mod, f, c)
                owners: T.Set[T.Tuple[str, int]] = set()
                for a in c.args[1:]:
                    owners |= _owners(info, a, at, env)
                if not owners:
                    continue
                for kind, xarg, xnode in dirs:
                    for y, ynode in sorted(owners):
                        if kind == 'own':
                            n_own += 1
                            same = isinstance(xarg, ast.Name) and xarg.id == y and _defs_key(info, y, xnode.id) == _defs_key(info, y, ynode)
                            if not same and isinstance(xarg, ast.Name) and xarg.id == y and y in env:
                                same = True
                            if not same and not isinstance(xarg, ast.Name):
                                raise Undecided(f'{q}: directory argument `{short(xarg, 40)}` in `{short(c, 80)}` is not a plain local')
                            ctx.require(same, f'{q}: output of `{y}` is joined with the directory of `{norm(xarg)}`', mod, q, c,
                                        f'`{short(c, 100)}` joins an output name of `{y}` with the directory of `{norm(xarg)}`: the statement that builds `{y}` produces the file in '
                                        f'the directory of `{y}`, so this path is neither produced by any statement nor existing when the two live in different directories', c)
                        else:
                            n_priv += 1
                            guard_node = xnode
                            ok = _under_isinstance(ctx, info, mod, guard_node, y, 'GeneratedList') or _under_isinstance(ctx, info, mod, at, y, 'GeneratedList')
                            if not ok and y in info.params and not info.defs().get(y):
                                # the class of a parameter is what its annotation says, or what the callers pass: not visible here
                                pa = next((a_.annotation for a_ in info.fn.args.posonlyargs + info.fn.args.args + info.fn.args.kwonlyargs if a_.arg == y), None)
                                acl: T.List[T.Tuple[Module, ast.ClassDef]] = []
                                _expand_ann(ctx.repo, mod, pa, acl)
                                if acl and all(c_[1].name == 'GeneratedList' for c_ in acl):
                                    ok = True
                                elif not acl or any(c_[1].name == 'GeneratedList' for c_ in acl):
                                    raise Undecided(f'{q}: `{short(c, 80)}` uses the private directory for outputs of the parameter `{y}`, whose class is decided by the callers')
                            ctx.require(ok, f'{q}: outputs of `{y}` are placed in the private directory of `{norm(xarg)}` only when `{y}` is a GeneratedList', mod, q, c,
                                        f'`{short(c, 100)}` joins an output name of `{y}` with the *private* directory of `{norm(xarg)}` on a path where `{y}` is not known to be a '
                                        'GeneratedList (only generator outputs live in the private directory of their consumer; a target\'s outputs live in its own directory)', c)
    ctx.floor('output names joined with the owning target\'s directory', n_own, 1)
    ctx.floor('generator outputs joined with the consumer\'s private directory under isinstance(.., GeneratedList)', n_priv, 1)


# ----------------------------------------------------------------------------
# R7  no stale copy: get_outputs()[0] and get_filename() of a build target agree when a method returns (K4)
# ----------------------------------------------------------------------------
BUILD = 'mesonbuild/build.py'


def _getter_field(mod: Module, cls: str, meth: str) -> str:
    fn = mod.func(f'{cls}.{meth}')
    body = [s for s in fn.body if not (isinstance(s, ast.Expr) and isinstance(s.value, ast.Constant))]
    if len(body) == 1 and isinstance(body[0], ast.Return) and body[0].value is not None:
        c = attr_chain(body[0].value)
        if c and c.startswith('self.') and c.count('.') == 1:
            return c.split('.')[1]
    raise Undecided(f'{cls}.{meth} is not `return self.<field>`')


def r7(ctx: RuleCtx) -> None:
    bm = ctx.repo.module(BUILD)
    mod = ctx.repo.module(NB)
    root = 'BuildTarget'
    # the pair is read off the getters the backend uses: the link statement is named after get_filename(), the aggregates after get_outputs()[0]
    f_name = _getter_field(bm, root, 'get_filename')
    f_outs = _getter_field(bm, root, 'get_outputs')
    gtf = ctx.repo.module(BK).func('Backend.get_target_filename')
    ctx.require(any(isinstance(c, ast.Call) and call_method(c) == 'get_filename' for c in ast.walk(gtf)), 'Backend.get_target_filename names a build target by get_filename()',
                BK, 'Backend.get_target_filename', 'get_filename()', 'Backend.get_target_filename no longer reads get_filename(): the (filename, outputs[0]) pair of R7 is stale')
    rootcls = bm.cls(root)
    family = [q for q, c in bm.classes().items() if '.' not in q and any(x[1] is rootcls for x in ctx.repo.mro(bm, c))]
    # classes for which no link statement is written: generate_target leaves before generate_link when isinstance(target, K)
    gi = _infos(ctx).get(f'{BACKEND}.generate_target')
    links = [n for n in gi.cfg.nodes if any(call_name(c) == 'self.generate_link' for c in L.node_calls(n))]
    exempt: T.Dict[str, str] = {}
    for t in gi.cfg.nodes:
        if t.kind != 'test':
            continue
        tt = L.inline_locals(gi, t.ast.test, t)  # type: ignore[union-attr]
        if isinstance(tt, ast.Call) and call_name(tt) == 'isinstance' and len(tt.args) == 2 and not isinstance(tt.args[1], ast.Tuple):
            rc = ctx.repo.resolve_class(mod, attr_chain(tt.args[1]) or '')
            if rc is not None and rc[0] is bm and links:
                ts = [gi.cfg.nodes[b] for b, lab in gi.cfg.succ[t.id] if lab is True]
                r = gi.cfg.reachable(ts, [], include_start=True)
                subj = tt.args[0].id if isinstance(tt.args[0], ast.Name) else None
                delegated = subj is None or any((call_name(c) or '').startswith('self.') and any(isinstance(a, ast.Name) and a.id == subj for a in c.args)
                                                for i in r for c in L.node_calls(gi.cfg.nodes[i]))
                if not any(l.id in r for l in links) and gi.cfg.exit_return.id in r and all(gi.cfg.dominated_by_any(l, [t]) for l in links) and not delegated:
                    exempt[rc[1].name] = ('generate_target returns before generate_link for this class without handing the target to another generator: '
                                          'no statement is named after get_filename()')

    def is_sync(st: ast.AST) -> bool:
        if not isinstance(st, ast.Assign) or len(st.targets) != 1:
            return False
        tg, v = st.targets[0], st.value
        if isinstance(tg, ast.Subscript) and attr_chain(tg.value) == f'self.{f_outs}' and isinstance(tg.slice, ast.Constant) and tg.slice.value == 0:
            return attr_chain(v) == f'self.{f_name}'
        if attr_chain(tg) == f'self.{f_outs}' and isinstance(v, ast.List) and v.elts:
            return attr_chain(v.elts[0]) == f'self.{f_name}'
        return False

    def is_desync(st: ast.AST) -> T.Optional[str]:
        tgs: T.List[ast.AST] = []
        if isinstance(st, ast.Assign):
            tgs = list(st.targets)
        elif isinstance(st, (ast.AugAssign, ast.AnnAssign)) and getattr(st, 'value', None) is not None:
            tgs = [st.target]
        for tg in tgs:
            for x in (tg.elts if isinstance(tg, (ast.Tuple, ast.List)) else [tg]):
                if attr_chain(x) == f'self.{f_name}':
                    return f'self.{f_name} is written'
                if attr_chain(x) == f'self.{f_outs}' or (isinstance(x, ast.Subscript) and attr_chain(x.value) == f'self.{f_outs}' and
                                                         not (isinstance(x.slice, ast.Constant) and isinstance(x.slice.value, int) and x.slice.value > 0)):
                    return f'self.{f_outs}[0] is overwritten'
        for c in ast.walk(st) if isinstance(st, ast.Expr) else []:
            if isinstance(c, ast.Call) and isinstance(c.func, ast.Attribute) and attr_chain(c.func.value) == f'self.{f_outs}' and c.func.attr in ('insert', 'clear', 'pop', 'remove', 'reverse', 'sort'):
                return f'self.{f_outs} is reordered'
        return None

    always_sync: T.Dict[str, bool] = {}

    def method_info(cls: str, meth: str) -> T.Optional[L.FnInfo]:
        found = ctx.repo.find_method(bm, bm.cls(cls), meth)
        if found is None or found[0] is not bm:
            return None
        return L.FnInfo(bm, f'{found[1].name}.{meth}', found[2])

    def syncs(cls: str, info: L.FnInfo, depth: int) -> T.List[Node]:
        out = []
        for n in info.cfg.nodes:
            if n.kind == 'stmt' and is_sync(n.ast):  # type: ignore[arg-type]
                out.append(n)
            elif depth < 2:
                for c in L.node_calls(n):
                    cn = call_name(c) or ''
                    if cn.startswith('self.') and cn.count('.') == 1:
                        key = f'{cls}.{cn[5:]}'
                        if key not in always_sync:
                            always_sync[key] = False
                            hi = method_info(cls, cn[5:])
                            if hi is not None:
                                hs = syncs(cls, hi, depth + 1)
                                des = [m for m in hi.cfg.nodes if m.kind == 'stmt' and not is_sync(m.ast) and is_desync(m.ast)]  # type: ignore[arg-type]
                                always_sync[key] = bool(hs) and hi.cfg.exit_return.id not in hi.reach(hi.cfg.entry, hs) and \
                                    not any(hi.cfg.exit_return.id in hi.reach(m, hs) for m in des)
                        if always_sync[key]:
                            out.append(n)
        return out

    nob = 0
    for cls in family:
        own_getters = [g for g in ('get_filename', 'get_outputs') if cls != root and bm.has_func(f'{cls}.{g}')]
        if own_getters:
            ctx.note(f'{cls}: overrides {own_getters}; the (filename, outputs[0]) pair of {root} does not apply')
            continue
        for meth, fn in bm.methods(cls).items():
            if f'self.{f_name}' not in ast.unparse(fn) and f'self.{f_outs}' not in ast.unparse(fn):
                continue
            info = L.FnInfo(bm, f'{cls}.{meth}', fn)
            des = [(n, is_desync(n.ast)) for n in info.cfg.nodes if n.kind == 'stmt' and not is_sync(n.ast) and is_desync(n.ast)]  # type: ignore[arg-type]
            if not des:
                continue
            sy = syncs(cls, info, 0)
            for n, why in des:
                nob += 1
                esc = info.cfg.exit_return.id in info.reach(n, sy)
                if esc and cls in exempt:
                    ctx.ok(f'{cls}.{meth}: `{short(n.ast, 50)}` leaves outputs[0] != filename; exempt: {exempt[cls]}')
                    continue
                if esc:
                    # could a callee on the way re-establish the copy in a form this rule does not read?
                    reach = info.reach(n, sy)
                    for m in info.cfg.nodes:
                        if m.id in reach or m.id == n.id:
                            for c in L.node_calls(m):
                                cn = call_name(c) or ''
                                if cn.startswith('self.') and cn.count('.') == 1 and m.id != n.id:
                                    hi = method_info(cls, cn[5:])
                                    if hi is None or any(f'self.{f_outs}' in ast.unparse(x) for x in ast.walk(hi.fn) if isinstance(x, (ast.Assign, ast.AugAssign))):
                                        raise Undecided(f'{cls}.{meth}: after `{short(n.ast, 50)}` the call `{short(c, 50)}` may re-establish {f_outs}[0] in a form the rule does not read')
                ctx.require(not esc, f'{cls}.{meth}: after `{short(n.ast, 50)}` every path re-assigns {f_outs}[0] from {f_name} before returning', bm, f'{cls}.{meth}', n.ast,
                            f'{why} by `{short(n.ast, 60)}` and a path reaches the end of {cls}.{meth} without `self.{f_outs}[0] = self.{f_name}`: get_outputs()[0] (the name '
                            f'`all` / meson-test-prereq / installation use) and get_filename() (the name of the link statement) differ, so the aggregates refer to a file no statement produces',
                            n.ast)
    ctx.floor('writes of filename / outputs[0] in the BuildTarget family followed to the end of their method', nob, 1)
    ctx.note(f'pair: get_filename() -> self.{f_name}, get_outputs() -> self.{f_outs}; family {family}; exempt {sorted(exempt)}')


# ----------------------------------------------------------------------------
# R8  every separator of the build line is escaped (or rejected) by the quoting applied to paths (K11 / K5 writer-quoter agreement)
# ----------------------------------------------------------------------------
class _EscapeTable(T.NamedTuple):
    """The escaping of a quoter given as a str.translate table instead of a pattern: `pattern` is the table itself (hashable, printable)."""
    chars: T.FrozenSet[str]

    @property
    def pattern(self) -> '_EscapeTable':
        return self

    def __repr__(self) -> str:
        return 'translate table escaping ' + repr(''.join(sorted(self.chars)))


def r8(ctx: RuleCtx) -> None:
    from .. import rx
    from ..consteval import fold_expr, Regex
    mod = ctx.repo.module(NB)
    infos = _infos(ctx)
    w = _build_writer(infos, mod)
    in_write = w.qn == f'{ELEMENT}.write'
    ps = _param_names(w.fn)
    node, _left = _build_line(w)
    # the variable that holds the build line, and every constant text that is put between the quoted paths
    lv = None
    if isinstance(node.ast, ast.Assign) and len(node.ast.targets) == 1 and isinstance(node.ast.targets[0], ast.Name):
        lv = node.ast.targets[0].id
    if lv is None:
        raise Undecided('write(): the build line is not first bound to a local')
    consts: T.List[str] = []
    quoter = None
    joined_at: T.Optional[Node] = None
    trw = L.Tracer(w)

    def harvest(e: ast.AST, at: Node, depth: int = 0, fi: T.Optional[L.FnInfo] = None) -> None:
        nonlocal quoter
        fi = fi or w
        parts = L.template_parts(e)
        if parts is None:
            raise Undecided(f'write(): `{short(e, 60)}` uses format specs')
        for p_ in parts:
            if isinstance(p_, str):
                consts.append(p_)
            elif p_ is e:
                # not a template: a join of quoted paths, a local holding one, or the line so far
                if isinstance(p_, ast.Call) and isinstance(p_.func, ast.Attribute) and p_.func.attr == 'join' and isinstance(p_.func.value, ast.Constant):
                    consts.append(str(p_.func.value.value))
                    for c in ast.walk(p_):
                        if not isinstance(c, ast.Call) or c is p_:
                            continue
                        if isinstance(c.func, ast.Name) and c.func.id == 'map' and len(c.args) >= 2 and not c.keywords and isinstance(c.args[0], (ast.Name, ast.Attribute)):
                            # map(f, xs)  ==  [f(x) for x in xs]
                            c = ast.copy_location(ast.Call(func=c.args[0], args=[ast.Name(id='_element', ctx=ast.Load()) for _ in c.args[1:]], keywords=[]), c)
                        res = _resolve_callee(mod, fi, c, at)
                        if res is None:
                            continue
                        qn_, merged, implicit = res
                        if 'is_build_line' not in _param_names(mod.func(qn_), skip_self=False):
                            continue
                        b = L.bind_call(merged, mod.func(qn_), implicit) or {}
                        flag = b.get('is_build_line')
                        if flag is None and '*' not in b and '**' not in b:
                            qa = mod.func(qn_).args
                            dflt = dict(zip(reversed([a_.arg for a_ in qa.posonlyargs + qa.args]), reversed(qa.defaults)))
                            flag = dflt.get('is_build_line')
                        if isinstance(flag, ast.Constant) and flag.value is True:
                            if quoter not in (None, qn_):
                                raise Undecided('write(): paths of the build line are quoted by different functions')
                            quoter = qn_
                        elif isinstance(flag, ast.Constant) and flag.value is False:
                            ctx.violation(mod, fi.qn, c, f'`{short(c, 70)}` quotes a path of the build line with is_build_line=False: the pattern for variable lines is used, '
                                          'which does not escape the separators of a build line', c)
                        else:
                            raise Undecided(f'write(): `{short(c, 60)}` quotes a path of the build line with an is_build_line value the rule does not read')
                elif isinstance(p_, ast.Call) and isinstance(p_.func, ast.Name) and mod.has_func(p_.func.id) and depth < 3 and \
                        'is_build_line' not in _param_names(mod.func(p_.func.id), skip_self=False):
                    # a module-level helper that builds part of the line: harvest its return expressions
                    hi = L.FnInfo(mod, p_.func.id, mod.func(p_.func.id))
                    rets = [x for x in walk_no_nested(hi.fn, include_root=False) if isinstance(x, ast.Return) and x.value is not None]
                    if not rets:
                        raise Undecided(f'write(): helper `{p_.func.id}` returns nothing')
                    for r_ in rets:
                        if hi.cfg.stmt_nodes(r_):
                            harvest(r_.value, hi.cfg.stmt_nodes(r_)[0], depth + 1, hi)  # type: ignore[arg-type]
                elif isinstance(p_, ast.Name) and p_.id != lv and depth < 3:
                    # a local is part of the path lists only if quoted paths flow into it (the rule name does not)
                    org = L.Tracer(fi).origins(p_, at)
                    if any((o.startswith('call:') and mod.has_func(o[5:])) or (o.startswith('free:') and (mod.has_func(o[5:]) or mod.has_assign(o[5:]))) for o in org):
                        for d in fi.reaching(p_.id, at):
                            if isinstance(d, L.Def) and d.value is not None and d.kind in ('assign', 'aug'):
                                harvest(d.value, d.node, depth + 1, fi)
                elif isinstance(p_, ast.Name) or attr_chain(p_) is not None:
                    pass            # the line so far / a field (the rule name): no constant text of this function
                else:
                    raise Undecided(f'write(): part `{short(p_, 60)}` of the build line is not a constant, a quoted path list or a local')
            else:
                harvest(p_, at, depth, fi)
    # the pieces may first be collected in a list that is joined once: [template, ...] + append/extend/+= ... ; line = SEP.join(pieces)
    if isinstance(node.ast, ast.Assign) and isinstance(node.ast.value, ast.List):
        pieces: T.List[T.Tuple[Node, T.Optional[ast.AST]]] = [(node, e_) for e_ in node.ast.value.elts] + [(n_, a_) for n_, c_, a_ in w.additions(lv)]
        if any(a_ is None or isinstance(a_, ast.Starred) for _, a_ in pieces):
            raise Undecided(f'write(): pieces are added to `{lv}` in a form the rule does not itemise')
        def join_of(v: ast.AST) -> T.Optional[ast.Call]:
            """`SEP.join(<pieces>)`, possibly the receiver of a chain of method calls that rewrite the whole text (`.replace(..)`)"""
            while isinstance(v, ast.Call) and isinstance(v.func, ast.Attribute):
                if v.func.attr == 'join' and isinstance(v.func.value, ast.Constant) and len(v.args) == 1 and not v.keywords and isinstance(v.args[0], ast.Name) and v.args[0].id == lv:
                    return v
                v = v.func.value
            return None
        joins = [n_ for n_ in w.cfg.nodes if n_.kind == 'stmt' and isinstance(n_.ast, ast.Assign) and len(n_.ast.targets) == 1 and isinstance(n_.ast.targets[0], ast.Name)
                 and join_of(n_.ast.value) is not None]
        if len(joins) != 1:
            raise Undecided(f'write(): the piece list `{lv}` is not joined exactly once')
        consts.append(str(join_of(joins[0].ast.value).func.value.value))  # type: ignore[union-attr]
        joined_at = joins[0]
        for n_, a_ in pieces:
            assert a_ is not None
            harvest(a_, n_)
        node = joins[0]
        lv = node.ast.targets[0].id  # type: ignore[union-attr]
    if in_write:
        first_write = [n for n in w.cfg.nodes if any(_uses_file(c, ps[0]) and any(isinstance(x, ast.Name) and x.id == lv for x in _written_exprs(c)) for c in L.node_calls(n))]
    else:
        # the line is formed by a helper method of the element: what it returns is what write() hands to the file
        first_write = [n for n in w.cfg.nodes if n.kind == 'stmt' and isinstance(n.ast, ast.Return) and n.ast.value is not None
                       and any(isinstance(x, ast.Name) and x.id == lv for x in ast.walk(n.ast.value))]
    if not first_write:
        raise Undecided('write(): the build line local is not written to the file')
    # all definitions of the line variable that reach its write, except rewrites of the finished line (replace / split on Windows)
    fresh_defs = [d.node for d in w.defs().get(lv, []) if d.kind == 'assign' and d.value is not None and not any(isinstance(x, ast.Name) and x.id == lv for x in ast.walk(d.value))
                  and d.node.id != node.id]
    region = w.cfg.reachable([node], fresh_defs, include_start=True)
    first_write = [fw for fw in first_write if fw.id in region]
    if not first_write:
        raise Undecided('write(): the build line is re-bound before it is written')
    for d in w.defs().get(lv, []):
        if d.node.id not in region or not any(fw.id in w.cfg.reachable([d.node], fresh_defs, include_start=True) for fw in first_write):
            continue
        if d.value is None or (joined_at is not None and d.node.id == joined_at.id):
            continue        # (the join of the piece list: its pieces were harvested above)
        if any(isinstance(x, ast.Name) and x.id == lv for x in ast.walk(d.value)) and d.kind == 'assign':
            continue        # line = f(line): a rewrite of the whole line, no new separator is introduced by constants we could attribute
        harvest(d.value, d.node)
    seps = sorted({ch for c_ in consts for ch in c_ if not ch.isalnum()})
    if quoter is None:
        raise Undecided('write(): no call that quotes the paths of the build line with is_build_line=True was found')
    ctx.note(f'separator characters written between the paths of a build line: {seps!r}; paths are quoted by {quoter}(.., is_build_line=True)')
    # what the quoter escapes or rejects
    qf = mod.func(quoter)
    qi = L.FnInfo(mod, quoter, qf)
    qp = _param_names(qf, skip_self='.' in quoter and 'staticmethod' not in decorator_names(qf))
    text_p = qp[0]
    # the pattern used for build lines: `A if is_build_line else B`, or assigned under `if is_build_line:`; a single unconditional pattern also counts
    pats = []
    allre = []
    pmq = mod.parent_map()
    for n in qi.cfg.nodes:
        for r in L.node_roots(n):
            for x in walk_no_nested(r):
                if not isinstance(x, (ast.Name, ast.Attribute, ast.Call)) or isinstance(pmq.get(x), ast.Attribute):
                    continue
                if isinstance(x, ast.Name) and (x.id in qi.params or qi.defs().get(x.id)):
                    continue
                try:
                    v = fold_expr(ctx.repo, mod, x)
                except Exception:
                    continue
                if isinstance(v, dict) and v and all(isinstance(k_, int) for k_ in v):
                    # a str.translate table: the characters mapped to '$' + themselves are the escaped ones (same role as the character class of the pattern)
                    if isinstance(x, ast.Call) and not (call_name(x) or '').endswith('maketrans'):
                        continue
                    v = _EscapeTable(frozenset(chr(k_) for k_, t_ in v.items() if t_ == '$' + chr(k_)))
                elif not isinstance(v, Regex):
                    continue
                allre.append(v.pattern)
                par = pmq.get(x)
                if isinstance(par, ast.IfExp) and isinstance(par.test, ast.Name) and par.test.id == 'is_build_line':
                    if par.body is x:
                        pats.append(v.pattern)
                    continue
                for t_ in qi.cfg.nodes:
                    if t_.kind == 'test' and isinstance(t_.ast.test, ast.Name) and t_.ast.test.id == 'is_build_line':  # type: ignore[union-attr]
                        ts = [qi.cfg.nodes[b] for b, lab in qi.cfg.succ[t_.id] if lab is True]
                        fs = [qi.cfg.nodes[b] for b, lab in qi.cfg.succ[t_.id] if lab is False]
                        if n.id in qi.cfg.reachable(ts, [], include_start=True) and n.id not in qi.cfg.reachable(fs, [], include_start=True):
                            pats.append(v.pattern)
    if not pats and len(set(allre)) == 1:
        pats = [allre[0]]
    pats = sorted(set(pats), key=repr)
    if len(pats) != 1:
        raise Undecided(f'{quoter}: the regular expression used for build lines was not found ({len(pats)} candidates)')
    rejected = set()
    for n in qi.cfg.nodes:
        if n.kind != 'test':
            continue
        tt = n.ast.test  # type: ignore[union-attr]
        ops = tt.values if isinstance(tt, ast.BoolOp) and isinstance(tt.op, ast.And) else [tt]
        chars = [o.left.value for o in ops if isinstance(o, ast.Compare) and len(o.ops) == 1 and isinstance(o.ops[0], ast.In) and isinstance(o.left, ast.Constant)
                 and isinstance(o.left.value, str) and len(o.left.value) == 1 and isinstance(o.comparators[0], ast.Name) and o.comparators[0].id == text_p]
        rest = [o for o in ops if not (isinstance(o, ast.Compare) and isinstance(o.left, ast.Constant)) and not (isinstance(o, ast.Name) and o.id == 'is_build_line')]
        if len(chars) == 1 and not rest:
            ts = [qi.cfg.nodes[b] for b, lab in qi.cfg.succ[n.id] if lab is True]
            r_ = qi.cfg.reachable(ts, [], include_start=True)
            if qi.cfg.exit_return.id not in r_ and qi.cfg.exit_raise.id in r_:
                rejected.add(chars[0])
    nsep = 0
    for ch in seps:
        if ch == '$':
            continue
        nsep += 1
        esc = (ch in pats[0].chars) if isinstance(pats[0], _EscapeTable) else rx.matches_char(pats[0], ch)
        ctx.require(esc or ch in rejected, f'separator {ch!r} of the build line is {"escaped" if esc else "rejected"} by {quoter}', mod, quoter, f'separator {ch!r}',
                    f'write() separates the paths of a build statement with {ch!r}, but {quoter}(.., is_build_line=True) neither escapes {ch!r} (pattern {pats[0]!r}) nor rejects a '
                    f'path that contains it: an output or input name with {ch!r} is written verbatim and read by ninja as a separator', qf)
    ctx.floor('separator characters of the build line checked', nsep, 1)



# ----------------------------------------------------------------------------
# R9  isinstance chains: an arm for a subclass is not shadowed by an earlier arm for its base class that leaves (K7 chain order)
# ----------------------------------------------------------------------------
R9_SCOPE = ((BK, 'Backend.'), (NB, BACKEND + '.'), ('mesonbuild/interpreter/interpreterobjects.py', 'Test.'))


def _isinstance_test(e: ast.AST) -> T.Optional[T.Tuple[str, T.List[str], bool]]:
    pol = True
    while isinstance(e, ast.UnaryOp) and isinstance(e.op, ast.Not):
        pol = not pol
        e = e.operand
    if isinstance(e, ast.Call) and call_name(e) == 'isinstance' and len(e.args) == 2 and isinstance(e.args[0], ast.Name) and not e.keywords:
        cl = e.args[1].elts if isinstance(e.args[1], ast.Tuple) else [e.args[1]]
        names = [attr_chain(x) for x in cl]
        if all(names):
            return e.args[0].id, T.cast(T.List[str], names), pol
    return None


def r9(ctx: RuleCtx) -> None:
    repo = ctx.repo
    nfun = npairs = 0
    for rel, prefix in R9_SCOPE:
        mod = repo.module(rel)
        for q, f in mod.funcs().items():
            if not q.startswith(prefix) or q.count('.') != 1:
                continue
            subj: T.Dict[str, int] = {}
            for x in walk_no_nested(f):
                if isinstance(x, (ast.If, ast.While)):
                    it = _isinstance_test(x.test)
                    if it is not None:
                        subj[it[0]] = subj.get(it[0], 0) + 1
            if not any(v >= 2 for v in subj.values()):
                continue
            nfun += 1
            info = _infos(ctx).get(q) if rel == NB else L.FnInfo(mod, q, f)
            cfg = info.cfg
            tests = []
            for n in cfg.nodes:
                if n.kind == 'test':
                    it = _isinstance_test(n.ast.test)  # type: ignore[union-attr]
                    if it is not None and subj.get(it[0], 0) >= 2:
                        tests.append((n, it))

            def classes(names: T.List[str]) -> T.Optional[T.List[T.Tuple[Module, ast.ClassDef]]]:
                out = []
                for nm in names:
                    rc = repo.resolve_class(mod, nm)
                    if rc is None:
                        return None
                    out.append(rc)
                return out
            for t1, (s1, c1, p1) in tests:
                for t2, (s2, c2, p2) in tests:
                    if t1 is t2 or s1 != s2:
                        continue
                    k1, k2 = classes(c1), classes(c2)
                    if k1 is None or k2 is None:
                        continue
                    # every class tested by t2 is a (strict or equal) subclass of one tested by t1
                    if not all(any(any(b[1] is x[1] for x in repo.mro(a[0], a[1])) for b in k1) for a in k2):
                        continue
                    if all(any(a[1] is b[1] for b in k1) for a in k2) and all(any(a[1] is b[1] for a in k2) for b in k1):
                        continue        # the same classes tested again (after a re-binding or in another branch): not a shadowing question
                    yes1 = [cfg.nodes[b] for b, lab in cfg.succ[t1.id] if lab is p1]
                    no1 = [cfg.nodes[b] for b, lab in cfg.succ[t1.id] if lab is (not p1)]
                    # t2 is evaluated only when t1 said "not an instance": reachable through the no-edge, not through the yes-edge, and t1 dominates it
                    if t2.id in cfg.reachable(yes1, [t1], include_start=True) or t2.id not in cfg.reachable(no1, [t1], include_start=True) or not cfg.dominated_by_any(t2, [t1]):
                        continue
                    # the value must be the same object at both tests
                    if [d.node.id if isinstance(d, L.Def) else d for d in info.reaching(s1, t1)] != [d.node.id if isinstance(d, L.Def) else d for d in info.reaching(s1, t2)]:
                        continue
                    npairs += 1
                    yes2 = [cfg.nodes[b] for b, lab in cfg.succ[t2.id] if lab is p2]
                    no2 = [cfg.nodes[b] for b, lab in cfg.succ[t2.id] if lab is (not p2)]
                    same = cfg.reachable(yes2, [t2], include_start=True) == cfg.reachable(no2, [t2], include_start=True)
                    if same:
                        continue        # both outcomes of t2 continue alike: nothing is lost
                    ctx.violation(mod, q, t2.ast.test, f'`{short(t2.ast.test, 70)}` is only evaluated after `{short(t1.ast.test, 70)}` was false, but {", ".join(c2)} '  # type: ignore[union-attr]
                                  f'is a subclass of {", ".join(c1)}: the arm for the subclass can never be taken, values of that class are handled by the base-class arm', t2.ast)
    ctx.floor('functions with an isinstance chain on one value', nfun, 1)
    if not any(c.rule_id == 'C04.R9' and c.findings for c in ctx.check.ctxs):
        ctx.ok(f'{nfun} functions with isinstance chains: no subclass arm is shadowed by an earlier base-class arm ({npairs} ordered base/subclass pairs looked at)')



# ----------------------------------------------------------------------------
# R10  pool closure: a pool named by a rule is declared, under a condition that the naming condition implies (K5/K8)
# ----------------------------------------------------------------------------
def _threshold(info: L.FnInfo, n: Node) -> T.Optional[T.Tuple[str, int, bool]]:
    """test node `E > k` / `E >= k` / `E` (truthiness) / negations on an int quantity -> (normalised E, smallest value of E for which the
    true edge is taken, edge polarity).  None when the test is not of that form."""
    return _threshold_expr(info, n.ast.test, n)  # type: ignore[union-attr]


def _threshold_expr(info: L.FnInfo, test: ast.AST, n: Node) -> T.Optional[T.Tuple[str, int, bool]]:
    e = L.inline_locals(info, test, n)
    pol = True
    while isinstance(e, ast.UnaryOp) and isinstance(e.op, ast.Not):
        pol = not pol
        e = e.operand
    if isinstance(e, ast.Compare) and len(e.ops) == 1:
        l, r, op = e.left, e.comparators[0], e.ops[0]
        if isinstance(l, ast.Constant) and isinstance(l.value, int) and not isinstance(r, ast.Constant):
            # k < E  ==  E > k
            flip = {ast.Lt: ast.Gt, ast.LtE: ast.GtE, ast.Gt: ast.Lt, ast.GtE: ast.LtE}
            if type(op) not in flip:
                return None
            l, r, op = r, l, flip[type(op)]()
        if isinstance(r, ast.Constant) and isinstance(r.value, int) and not isinstance(r.value, bool):
            if isinstance(op, ast.Gt):
                return norm(l), r.value + 1, pol
            if isinstance(op, ast.GtE):
                return norm(l), r.value, pol
            if isinstance(op, ast.LtE):
                return norm(l), r.value + 1, not pol
            if isinstance(op, ast.Lt):
                return norm(l), r.value, not pol
            if isinstance(op, ast.NotEq) and r.value == 0:
                return norm(l), 1, pol          # for a non-negative count
        return None
    if isinstance(e, (ast.Call, ast.Attribute, ast.Name, ast.Subscript)):
        return norm(e), 1, pol                  # truthiness of a non-negative count
    return None


def r10(ctx: RuleCtx) -> None:
    import re as _re
    mod = ctx.repo.module(NB)
    infos = _infos(ctx)
    decl: T.Dict[str, T.List[T.Tuple[str, ast.AST, T.Optional[T.Tuple[str, int]]]]] = {}
    uses: T.Dict[str, T.List[T.Tuple[str, ast.AST, T.Optional[T.Tuple[str, int]]]]] = {}

    def guard(info: L.FnInfo, n: Node) -> T.Optional[T.Tuple[str, int]]:
        """The innermost threshold test on whose taken edge the node lies (None: unconditional as far as thresholds go)."""
        cfg = info.cfg
        best = None
        for t in cfg.nodes:
            if t.kind != 'test' or not isinstance(t.ast, ast.If):
                continue
            th = _threshold(info, t)
            if th is None:
                continue
            yes = [cfg.nodes[b] for b, lab in cfg.succ[t.id] if lab is th[2]]
            no = [cfg.nodes[b] for b, lab in cfg.succ[t.id] if lab is (not th[2])]
            if n.id in cfg.reachable(yes, [t], include_start=True) and n.id not in cfg.reachable(no, [t], include_start=True) and cfg.dominated_by_any(n, [t]):
                if best is not None and best[0] != th[0]:
                    raise Undecided(f'{info.qn}: `{short(n.ast, 50)}` is guarded by thresholds on two quantities')
                best = (th[0], max(th[1], best[1]) if best else th[1])
        return best
    for q, f in _backend_funcs(mod).items():
        txt_consts = [x for x in walk_no_nested(f) if (isinstance(x, ast.Constant) and isinstance(x.value, str) and 'pool' in x.value) or
                      (isinstance(x, ast.JoinedStr) and any(isinstance(v, ast.Constant) and 'pool' in str(v.value) for v in x.values))]
        if not txt_consts:
            continue
        info = infos.get(q)
        pm = mod.parent_map()
        for x in txt_consts:
            if isinstance(pm.get(x), ast.JoinedStr):
                continue
            lit = x.value if isinstance(x, ast.Constant) else ''.join(str(v.value) if isinstance(v, ast.Constant) else '\0' for v in x.values)
            m_use = _re.fullmatch(r'\s*pool\s*=\s*(\w+)\s*', lit)
            m_decl = _re.match(r'pool (\w+)\n', lit)
            if not m_use and not m_decl:
                continue
            nodes = info.nodes_of(x)
            if not nodes:
                continue
            g = guard(info, nodes[0])
            # conditional contexts inside the statement: `X if E > k else Y`
            child: ast.AST = x
            par = pm.get(child)
            while par is not None and not isinstance(par, ast.stmt):
                if isinstance(par, ast.IfExp) and child is not par.test:
                    th = _threshold_expr(info, par.test, nodes[0])
                    if th is None:
                        raise Undecided(f'{q}: `{short(par, 60)}` selects the pool text by a condition the rule does not read')
                    taken = (child is par.body) == th[2]
                    if taken:
                        if g is not None and g[0] != th[0]:
                            raise Undecided(f'{q}: `{short(par, 60)}` is guarded by thresholds on two quantities')
                        g = (th[0], max(th[1], g[1]) if g else th[1])
                    else:
                        raise Undecided(f'{q}: `{short(par, 60)}` uses the pool text when a threshold is NOT reached')
                elif isinstance(par, (ast.BoolOp, ast.comprehension, ast.ListComp, ast.GeneratorExp, ast.SetComp, ast.DictComp, ast.Lambda)):
                    raise Undecided(f'{q}: `{short(par, 60)}` selects the pool text in a form the rule does not read')
                child, par = par, pm.get(par)
            (uses if m_use else decl).setdefault((m_use or m_decl).group(1), []).append((q, x, g))  # type: ignore[union-attr]
    # add_item('pool', 'console'): ninja's built-in pool
    builtin = {'console'}
    nchk = 0
    for name, us in uses.items():
        if name in builtin:
            continue
        if name not in decl:
            raise Undecided(f'pool `{name}` is named by a rule, but no text `pool {name}` is written by a method of the backend (declared elsewhere?)')
        for q, x, gu in us:
            nchk += 1
            ok = False
            why = ''
            for qd, xd, gd in decl[name]:
                if gd is None:
                    ok = True
                elif gu is None:
                    why = f'the declaration in {qd} is written only when {gd[0]} >= {gd[1]}, the rule names the pool unconditionally'
                elif gu[0] != gd[0]:
                    raise Undecided(f'pool `{name}`: declared under a condition on `{gd[0]}`, named under a condition on `{gu[0]}`')
                elif gu[1] >= gd[1]:
                    ok = True
                else:
                    why = f'the declaration in {qd} is written only when {gd[0]} >= {gd[1]}, but {q} names the pool already when it is >= {gu[1]}'
            ctx.require(ok, f'{q}: pool `{name}` is declared whenever a rule names it', mod, q, x if isinstance(x, ast.AST) else name,
                        f'a rule names `pool = {name}`, but {why}: ninja rejects the manifest with "unknown pool name"', x)
    if nchk == 0:
        raise Undecided('no rule of the backend names a pool other than the built-in console pool in a form this rule reads')
    ctx.floor('rules that name a declared pool', nchk, 1)



# ----------------------------------------------------------------------------
# R11  call-site agreement on directory roles: all calls of one method pass the environment's directories in the same roles (K8)
# ----------------------------------------------------------------------------
ENVMOD = 'mesonbuild/environment.py'


def _env_field(ctx: RuleCtx, mod: Module, cls: str, info: L.FnInfo, e: ast.AST, at: Node, depth: int = 0) -> T.Optional[str]:
    """Canonical form of an expression that denotes a field of the Environment object: `self.environment.f`, `self.environment.get_f()` (getter that
    returns self.f), a backend attribute assigned once in __init__ from such an expression, or a local bound to one.  None: something else."""
    if depth > 4:
        return None
    e = L.strip_cast(e)
    if isinstance(e, ast.Name):
        rs = info.reaching(e.id, at)
        if len(rs) == 1 and isinstance(rs[0], L.Def) and rs[0].kind == 'assign' and rs[0].value is not None:
            return _env_field(ctx, mod, cls, info, rs[0].value, rs[0].node, depth + 1)
        return None
    c = attr_chain(e)
    if c is not None:
        parts = c.split('.')
        if len(parts) == 3 and parts[0] == 'self' and parts[1] == 'environment':
            return parts[2]
        if len(parts) == 2 and parts[0] == 'self':
            # an attribute of the backend: one assignment in an __init__ of the class hierarchy
            memo = ctx.repo.__dict__.setdefault('_c04_envattr', {})
            mk = (mod.rel, cls, c)
            if mk in memo:
                return memo[mk]
            memo[mk] = None
            found = None
            for m2, c2 in ctx.repo.mro(mod, mod.cls(cls)):
                init = next((f_ for f_ in c2.body if isinstance(f_, ast.FunctionDef) and f_.name == '__init__'), None)
                if init is None:
                    continue
                # all stores to attributes of self in this class, indexed once
                idx = ctx.repo.__dict__.setdefault('_c04_selfstores', {})
                ck = (m2.rel, c2.name)
                if ck not in idx:
                    table: T.Dict[str, T.List[T.Tuple[bool, ast.AST]]] = {}
                    for q_, f_ in m2.funcs().items():
                        if not q_.startswith(c2.name + '.'):
                            continue
                        for st in walk_no_nested(f_):
                            if isinstance(st, (ast.Assign, ast.AugAssign, ast.AnnAssign)):
                                for t_ in (st.targets if isinstance(st, ast.Assign) else [st.target]):
                                    ch = attr_chain(t_)
                                    if ch and ch.startswith('self.') and ch.count('.') == 1:
                                        table.setdefault(ch, []).append((f_ is init, st))
                    idx[ck] = table
                stores = [st for in_init, st in idx[ck].get(c, []) if in_init and isinstance(st, ast.Assign)]
                others = [st for in_init, st in idx[ck].get(c, []) if not in_init or not isinstance(st, ast.Assign)]
                if others or len(stores) > 1:
                    return None
                if len(stores) == 1:
                    ii = L.FnInfo(m2, f'{c2.name}.__init__', init)
                    ns = ii.cfg.stmt_nodes(stores[0])
                    if not ns:
                        return None
                    found = _env_field(ctx, m2, c2.name, ii, stores[0].value, ns[0], depth + 1)
                    break
            memo[mk] = found
            return found
        return None
    if isinstance(e, ast.Call) and not e.args and not e.keywords and isinstance(e.func, ast.Attribute) and attr_chain(e.func.value) == 'self.environment':
        env = ctx.repo.module(ENVMOD)
        q = f'Environment.{e.func.attr}'
        if env.has_func(q):
            body = [s_ for s_ in env.func(q).body if not (isinstance(s_, ast.Expr) and isinstance(s_.value, ast.Constant))]
            if len(body) == 1 and isinstance(body[0], ast.Return) and body[0].value is not None:
                rc = attr_chain(body[0].value)
                if rc and rc.startswith('self.') and rc.count('.') == 1:
                    return rc.split('.')[1]
    return None


def r11(ctx: RuleCtx) -> None:
    groups: T.Dict[T.Tuple[str, int], T.List[T.Tuple[Module, str, ast.Call, T.Tuple[T.Tuple[int, str], ...]]]] = {}
    cands: T.List[T.Tuple[Module, str, L.Infos, str, ast.Call, bool]] = []
    for rel, cls in ((BK, 'Backend'), (NB, BACKEND)):
        mod = ctx.repo.module(rel)
        infos = _infos(ctx) if rel == NB else L.Infos(mod)
        for q, f in mod.funcs().items():
            if not q.startswith(cls + '.'):
                continue
            for c in _own_calls(f):
                if not isinstance(c.func, ast.Attribute) or len(c.args) < 2 or c.keywords or any(isinstance(a, ast.Starred) for a in c.args):
                    continue
                simple = [a for a in c.args if isinstance(a, ast.Name) or attr_chain(a) is not None or
                          (isinstance(a, ast.Call) and not a.args and not a.keywords and attr_chain(a.func) is not None)]
                if len(simple) < 2:
                    continue        # fewer than two arguments of a shape that can denote a field of the environment
                direct = any(not isinstance(a, ast.Name) and (attr_chain(a) or attr_chain(a.func) or '').startswith('self.') for a in simple)  # type: ignore[union-attr]
                cands.append((mod, cls, infos, q, c, direct))
    # calls with an argument that is written as an attribute of self come first; calls through locals only are looked at for the methods found that way
    names_seen: T.Set[T.Tuple[str, int]] = set()
    for want_direct in (True, False):
        for mod, cls, infos, q, c, direct in cands:
            if direct != want_direct or (not direct and (c.func.attr, len(c.args)) not in names_seen):  # type: ignore[union-attr]
                continue
            if True:
                info = infos.get(q)
                nodes = info.nodes_of(c)
                if not nodes:
                    continue
                roles = tuple((i, fld) for i, a in enumerate(c.args) for fld in [_env_field(ctx, mod, cls, info, a, nodes[0])] if fld is not None)
                if len(roles) >= 2 and len({fld for _, fld in roles}) == len(roles):
                    groups.setdefault((c.func.attr, len(c.args)), []).append((mod, q, c, roles))  # type: ignore[union-attr]
                    names_seen.add((c.func.attr, len(c.args)))  # type: ignore[union-attr]
    nsite = 0
    for (meth, arity), sites in sorted(groups.items()):
        if len(sites) < 3:
            continue
        nsite += len(sites)
        count: T.Dict[T.Tuple[T.Tuple[int, str], ...], int] = {}
        for _, _, _, roles in sites:
            count[roles] = count.get(roles, 0) + 1
        ref, nref = max(count.items(), key=lambda kv: kv[1])
        if len(count) > 1 and nref * 3 < len(sites) * 2:
            raise Undecided(f'calls of .{meth}(): the environment directories are passed in several arrangements {count}, none clearly the reference')
        for mod, q, c, roles in sites:
            same_positions = {i for i, _ in roles} == {i for i, _ in ref}
            if roles != ref and not same_positions:
                continue        # other arguments resolve here: not comparable with the reference arrangement
            ctx.require(roles == ref, f'{q}: .{meth}() receives the environment directories as {dict(ref)}', mod, q, c,
                        f'`{short(c, 110)}` passes the environment fields {dict(roles)} by position, while {nref} of the {len(sites)} call sites of .{meth}() pass {dict(ref)}: '
                        'the same method cannot be right with both arrangements (source and build directory swapped)', c)
    if nsite == 0:
        raise Undecided('no method of the backends is called at three or more sites with two directories of the environment')
    ctx.floor('call sites compared for the roles of the environment directories', nsite, 3)



# ----------------------------------------------------------------------------
# R12  a per-target file name that one function turns into a statement output is only handed out for target classes
#      for which that function is called (producer / consumer class-guard agreement, K8)
# ----------------------------------------------------------------------------
def _class_constraints(ctx: RuleCtx, mod: Module, info: L.FnInfo, n: Node, var: str) -> T.List[T.Tuple[T.List[T.Tuple[Module, ast.ClassDef]], bool]]:
    """isinstance facts about `var` that hold whenever node n is reached: [(classes, is-instance?)]."""
    cfg = info.cfg
    out: T.List[T.Tuple[T.List[T.Tuple[Module, ast.ClassDef]], bool]] = []
    here = [d.node.id if isinstance(d, L.Def) else d for d in info.reaching(var, n)]
    for t in cfg.nodes:
        if t.kind != 'test' or t.id == n.id or not cfg.dominated_by_any(n, [t]):
            continue
        if [d.node.id if isinstance(d, L.Def) else d for d in info.reaching(var, t)] != here:
            continue
        yes = [cfg.nodes[b] for b, lab in cfg.succ[t.id] if lab is True]
        no = [cfg.nodes[b] for b, lab in cfg.succ[t.id] if lab is False]
        via_yes = n.id in cfg.reachable(yes, [t], include_start=True)
        via_no = n.id in cfg.reachable(no, [t], include_start=True)
        if via_yes == via_no:
            continue
        test = t.ast.test  # type: ignore[union-attr]
        # on the true edge every conjunct of an `and` holds; on the false edge every disjunct of an `or` fails
        if via_yes:
            parts = test.values if isinstance(test, ast.BoolOp) and isinstance(test.op, ast.And) else [test]
        else:
            parts = test.values if isinstance(test, ast.BoolOp) and isinstance(test.op, ast.Or) else [test]
        for p_ in parts:
            it = _isinstance_test(L.inline_locals(info, p_, t)) or _isinstance_test(p_)
            if it is None or it[0] != var:
                continue
            cls_: T.List[T.Tuple[Module, ast.ClassDef]] = []
            for nm in it[1]:
                rc = ctx.repo.resolve_class(mod, nm)
                if rc is None:
                    cls_ = []
                    break
                cls_.append(rc)
            if cls_:
                out.append((cls_, it[2] if via_yes else not it[2]))
    return out


def _name_producers(ctx: RuleCtx) -> T.Dict[str, T.List[T.Tuple[str, str]]]:
    """{F: [(P, param)]}: the backend function P(param) builds a statement whose output is self.F(param) (shared by R12 and R15)."""
    repo = ctx.repo
    mod = repo.module(NB)
    infos = _infos(ctx)
    funcs = _backend_funcs(mod)

    def is_name_fn(meth: str) -> bool:
        return mod.has_func(f'{BACKEND}.{meth}') or repo.find_method(mod, mod.cls(BACKEND), meth) is not None
    # producers: P(param) builds a statement whose output is self.F(param)
    prod: T.Dict[str, T.List[T.Tuple[str, str]]] = {}
    for q, f in funcs.items():
        ps = _param_names(f)
        for c in _own_calls(f):
            ca_ = _construction_args(mod, c)
            if ca_ is None:
                continue
            oe = ca_.get('outfilenames')
            if oe is None:
                continue
            info = infos.get(q)
            ns = info.nodes_of(c)
            if not ns:
                continue
            oi = L.inline_locals(info, oe, ns[0])
            if isinstance(oi, ast.Call) and (call_name(oi) or '').startswith('self.') and (call_name(oi) or '').count('.') == 1 and len(oi.args) == 1 and not oi.keywords \
                    and isinstance(oi.args[0], ast.Name) and oi.args[0].id in ps and not info.defs().get(oi.args[0].id) and is_name_fn(call_name(oi)[5:]):  # type: ignore[index]
                prod.setdefault(call_name(oi)[5:], []).append((q, oi.args[0].id))  # type: ignore[index]
    return prod


def r12(ctx: RuleCtx) -> None:
    repo = ctx.repo
    mod = repo.module(NB)
    bm = repo.module(BUILD)
    infos = _infos(ctx)
    funcs = _backend_funcs(mod)

    prod = _name_producers(ctx)
    nchk = 0
    domain = [(bm, c) for q_, c in bm.classes().items() if '.' not in q_]

    def possible(k: T.Tuple[Module, ast.ClassDef], cons: T.List[T.Tuple[T.List[T.Tuple[Module, ast.ClassDef]], bool]]) -> bool:
        mro = [x[1] for x in repo.mro(k[0], k[1])]
        return all(any(c_[1] in mro for c_ in cl) == want for cl, want in cons)
    for fname, ps_ in sorted(prod.items()):
        if len({q for q, _ in ps_}) != 1:
            continue            # several functions produce statements named by this function: no single producer to compare with
        pq, pparam = ps_[0]
        pmeth = pq.split('.')[-1]
        pidx = _param_names(mod.func(pq)).index(pparam)
        # every reference to the producer must be a plain call with a local as the target
        psites: T.Optional[T.List[T.Tuple[str, ast.Call, str]]] = []
        for q, f in funcs.items():
            for x in walk_no_nested(f):
                if isinstance(x, ast.Attribute) and x.attr == pmeth and attr_chain(x) == f'self.{pmeth}':
                    par = mod.parent_map().get(x)
                    if not (isinstance(par, ast.Call) and par.func is x):
                        psites = None      # referenced as a value (dispatch table, callback): its call sites are not all visible
                        break
                    b = _bound(mod, par, pq)
                    a = dict.get(b, _param_names(mod.func(pq))[pidx])
                    if not isinstance(a, ast.Name):
                        psites = None
                        break
                    psites.append((q, par, a.id))
                if psites is None:
                    break
            if psites is None:
                break
        if psites is None:
            ctx.note(f'{fname}(): the producer {pmeth}() is not only called with a plain local: its call sites are not all visible, not compared')
            continue
        if not psites:
            continue
        # single producer only if no other use of the name function can become the output of a statement elsewhere: it must not be handed
        # (directly or through a local) to another method of the backend or to an element constructor outside the producer
        leaks = False
        pm_ = mod.parent_map()
        for q, f in funcs.items():
            if q == pq or q == f'{BACKEND}.{fname}':
                continue
            for c in _own_calls(f):
                if call_name(c) != f'self.{fname}':
                    continue
                holders = [c]
                par = pm_.get(c)
                if isinstance(par, (ast.Assign, ast.AnnAssign)) and par.value is c:
                    tg = par.targets[0] if isinstance(par, ast.Assign) else par.target
                    if isinstance(tg, ast.Name):
                        holders += [x for x in ast.walk(f) if isinstance(x, ast.Name) and x.id == tg.id and isinstance(x.ctx, ast.Load)]
                    else:
                        leaks = True
                for h in holders:
                    hp = pm_.get(h)
                    hc = hp if isinstance(hp, ast.Call) and h in hp.args else (pm_.get(hp) if isinstance(hp, ast.keyword) else None)
                    if isinstance(hc, ast.Call) and (_is_ctor(hc, ELEMENT) or ((call_name(hc) or '').startswith('self.') and (call_name(hc) or '').count('.') == 1)):
                        leaks = True
        if leaks:
            ctx.note(f'{fname}(): its result is also handed to other backend methods / element constructors: no single producer, not compared')
            continue
        pcons = []
        for q, c, v in psites:
            info = infos.get(q)
            ns = info.nodes_of(c)
            if not ns:
                continue
            pcons.append(_class_constraints(ctx, mod, info, ns[0], v))
        # consumers: other uses of the name function on a local
        for q, f in funcs.items():
            if q == pq or q == f'{BACKEND}.{fname}':
                continue
            for c in _own_calls(f):
                if call_name(c) != f'self.{fname}' or len(c.args) != 1 or c.keywords or not isinstance(c.args[0], ast.Name):
                    continue
                info = infos.get(q)
                ns = info.nodes_of(c)
                if not ns:
                    continue
                ccons = _class_constraints(ctx, mod, info, ns[0], c.args[0].id)
                if not any(w for _, w in ccons):
                    ctx.note(f'{q}: `{short(c, 50)}` is not under a positive isinstance test: classes of the value unknown, not compared')
                    continue
                nchk += 1
                missing = [k[1].name for k in domain if possible(k, ccons) and not any(possible(k, pc) for pc in pcons)]
                ctx.require(not missing, f'{q}: {fname}() is handed out only for classes for which {pmeth}() is called', mod, q, c,
                            f'`{short(c, 60)}` hands out the file name for a {"/".join(missing)}, but {pmeth}(), the only function that writes a statement producing that file, is '
                            f'never called for such a target ({len(psites)} call site(s) examined): the name appears as an input that no statement produces', c)
    if nchk == 0:
        raise Undecided('no per-target file name with a single producing function and a class-guarded consumer was found')
    ctx.floor('class-guarded consumers of a produced per-target file name', nchk, 1)


# ----------------------------------------------------------------------------
# R13 / R14  conditions under which a file name may be used as an input: the producer's own predicate on the same target (R13),
#            an existence test on a raw path that no statement produces (R14)
# ----------------------------------------------------------------------------
def _edge_facts(e: ast.AST, truth: bool) -> T.List[T.Tuple[ast.AST, bool]]:
    """Atoms whose truth value is known when `e` evaluates to `truth`: not / and (true edge) / or (false edge) are opened."""
    if isinstance(e, ast.UnaryOp) and isinstance(e.op, ast.Not):
        return _edge_facts(e.operand, not truth)
    if isinstance(e, ast.BoolOp) and ((isinstance(e.op, ast.And) and truth) or (isinstance(e.op, ast.Or) and not truth)):
        return [f for v in e.values for f in _edge_facts(v, truth)]
    if isinstance(e, ast.NamedExpr):
        return _edge_facts(e.value, truth)
    return [(e, truth)]


def _dominating_facts(info: L.FnInfo, n: Node, var: T.Optional[str] = None) -> T.List[T.Tuple[ast.AST, bool]]:
    """(atom with single-definition locals inlined, truth) for every test that decides whether node n is reached.  With `var`: only tests
    at which `var` holds the same value as at n (same reaching definitions), i.e. tests about the current binding of the variable."""
    cfg = info.cfg
    out: T.List[T.Tuple[ast.AST, bool]] = []
    here = [d.node.id if isinstance(d, L.Def) else d for d in info.reaching(var, n)] if var is not None else None
    for t in cfg.nodes:
        if t.kind != 'test' or t.id == n.id or not cfg.dominated_by_any(n, [t]):
            continue
        if var is not None and [d.node.id if isinstance(d, L.Def) else d for d in info.reaching(var, t)] != here:
            continue
        yes = [cfg.nodes[b] for b, lab in cfg.succ[t.id] if lab is True]
        no = [cfg.nodes[b] for b, lab in cfg.succ[t.id] if lab is False]
        via_yes = n.id in cfg.reachable(yes, [t], include_start=True)
        via_no = n.id in cfg.reachable(no, [t], include_start=True)
        if via_yes == via_no:
            continue
        for atom, tv in _edge_facts(t.ast.test, via_yes):  # type: ignore[union-attr]
            for atom2, tv2 in _edge_facts(L.inline_locals(info, atom, t), tv):
                out.append((atom2, tv2))
            out.append((atom, tv))
    return out


def _comp_binding(mod: Module, c: ast.AST, var: str) -> T.Optional[T.Tuple[ast.AST, T.List[T.Tuple[ast.AST, bool]]]]:
    """If `var` at expression c is the variable of an enclosing comprehension: (its iterable, facts of the `if` clauses that filter it)."""
    pm = mod.parent_map()
    cur: T.Optional[ast.AST] = c
    prev: T.Optional[ast.AST] = None
    while cur is not None and not isinstance(cur, (ast.stmt, ast.Lambda)):
        if isinstance(cur, (ast.ListComp, ast.SetComp, ast.GeneratorExp, ast.DictComp)):
            for gi, g in enumerate(cur.generators):
                if var in names_in(g.target) and not any(prev is g2.iter or prev is g2 and any(c is x for x in ast.walk(g2.iter)) for g2 in cur.generators[:gi + 1]):
                    return g.iter, [f for g2 in cur.generators[gi:] for cond in g2.ifs for f in _edge_facts(cond, True)]
        prev, cur = cur, pm.get(cur)
    return None


def _self_pred(atom: ast.AST, subject: str) -> T.Optional[str]:
    """`self.G(subject)` -> 'G'."""
    if isinstance(atom, ast.Call) and len(atom.args) == 1 and not atom.keywords and isinstance(atom.args[0], ast.Name) and atom.args[0].id == subject:
        cn = call_name(atom) or ''
        if cn.startswith('self.') and cn.count('.') == 1:
            return cn[5:]
    return None


def r13(ctx: RuleCtx) -> None:
    repo = ctx.repo
    mod = repo.module(NB)
    infos = _infos(ctx)
    funcs = _backend_funcs(mod)

    def name_call(info: L.FnInfo, e: ast.AST, at: Node, depth: int = 0) -> T.Optional[T.Tuple[str, str, Node]]:
        """The `self.F(<local>)` an output expression is (a component of): through [x], x[k], plain and tuple-unpacking assignments."""
        if depth > 4:
            return None
        if isinstance(e, (ast.List, ast.Tuple)) and len(e.elts) == 1:
            return name_call(info, e.elts[0], at, depth + 1)
        if isinstance(e, (ast.Subscript, ast.Attribute)):
            return name_call(info, e.value, at, depth + 1)       # a component of the result: x[k] or a field of a record
        if isinstance(e, ast.Name):
            rs = info.reaching(e.id, at)
            if len(rs) == 1 and isinstance(rs[0], L.Def) and rs[0].kind in ('assign', 'unpack') and rs[0].value is not None:
                return name_call(info, rs[0].value, rs[0].node, depth + 1)
            return None
        if isinstance(e, ast.Call) and len(e.args) == 1 and not e.keywords and isinstance(e.args[0], ast.Name):
            cn = call_name(e) or ''
            if cn.startswith('self.') and cn.count('.') == 1 and (f'{BACKEND}.{cn[5:]}' in funcs or repo.find_method(mod, mod.cls(BACKEND), cn[5:]) is not None):
                return cn[5:], e.args[0].id, at
        return None

    def is_pred(g: str) -> bool:
        return f'{BACKEND}.{g}' in funcs or repo.find_method(mod, mod.cls(BACKEND), g) is not None

    def caller_guards(pq_: str, param: str) -> T.Set[str]:
        """The guard may sit with the callers (`if self.G(t): self.P(t)`): predicates on the argument that hold at every call site of P."""
        pmeth_ = pq_.split('.')[-1]
        sets: T.List[T.Set[str]] = []
        for q1, f1 in funcs.items():
            for x in walk_no_nested(f1):
                if isinstance(x, ast.Attribute) and x.attr == pmeth_ and attr_chain(x) == f'self.{pmeth_}':
                    par = mod.parent_map().get(x)
                    if not (isinstance(par, ast.Call) and par.func is x):
                        return set()          # referenced as a value: call sites not all visible
                    a = dict.get(_bound(mod, par, pq_), param)
                    i1 = infos.get(q1)
                    ns1 = i1.nodes_of(par)
                    if not isinstance(a, ast.Name) or not ns1:
                        return set()
                    sets.append({g for atom, tv in _dominating_facts(i1, ns1[0], a.id) if tv for g in [_self_pred(atom, a.id)] if g is not None and is_pred(g)})
        return set.intersection(*sets) if sets else set()

    # producers: P(p) writes a statement whose output is (a component of) self.F(p), on paths where self.G(p) holds
    prod: T.Dict[str, T.List[T.Tuple[str, str, T.Set[str]]]] = {}
    for q, f in funcs.items():
        ps = _param_names(f)
        for c in _own_calls(f):
            ca_ = _construction_args(mod, c)
            if ca_ is None:
                continue
            oe = dict.get(ca_, 'outfilenames')
            if oe is None or isinstance(oe, ast.Constant):
                continue
            info = infos.get(q)
            ns = info.nodes_of(c)
            if not ns:
                continue
            nc = name_call(info, oe, ns[0])
            if nc is None or nc[1] not in ps or info.reaching(nc[1], nc[2]) != [L.ENTRY] or info.reaching(nc[1], ns[0]) != [L.ENTRY]:
                continue
            gs = {g for atom, tv in _dominating_facts(info, ns[0], nc[1]) if tv for g in [_self_pred(atom, nc[1])] if g is not None and is_pred(g)}
            if not gs:
                gs = caller_guards(q, nc[1])
            prod.setdefault(nc[0], []).append((q, nc[1], gs))
    nchk = 0
    ntrip = 0
    for fname, ps_ in sorted(prod.items()):
        if len({q for q, _, _ in ps_}) != 1:
            continue        # several producing functions: no single guard to compare with
        guards = set.intersection(*[g for _, _, g in ps_])
        if not guards:
            continue        # produced unconditionally (or under conditions that are not predicates of the backend on the target)
        pq = ps_[0][0]
        ntrip += 1
        ctx.note(f'{fname}(x): the statements that produce it are written by {pq.split(".")[-1]}(x) only if {" and ".join("self." + g + "(x)" for g in sorted(guards))}')
        for q, f in funcs.items():
            if q == f'{BACKEND}.{fname}':
                continue
            for c in _own_calls(f):
                if call_name(c) != f'self.{fname}' or len(c.args) != 1 or c.keywords or not isinstance(c.args[0], ast.Name):
                    continue
                info = infos.get(q)
                ns = info.nodes_of(c)
                if not ns:
                    continue
                x = c.args[0].id
                cb = _comp_binding(mod, c, x)
                iter_e: T.Optional[ast.AST] = None
                iter_at = ns[0]
                if cb is not None:
                    iter_e, facts = cb
                    kind = 'member'
                else:
                    facts = _dominating_facts(info, ns[0], x)
                    rd = info.reaching(x, ns[0])
                    if rd == [L.ENTRY] and x in info.params:
                        kind = 'param'
                    elif len(rd) == 1 and isinstance(rd[0], L.Def) and rd[0].kind == 'iter' and isinstance(rd[0].node.ast.target, ast.Name):  # type: ignore[union-attr]
                        kind, iter_e, iter_at = 'member', rd[0].value, rd[0].node
                    else:
                        kind = 'other'
                held = {g for atom, tv in facts if tv for g in [_self_pred(atom, x)] if g is not None}
                what = f'{q}: {fname}({x}) is used only where {"/".join(sorted(guards))}({x}) holds'
                if guards <= held:
                    nchk += 1
                    ctx.ok(what)
                    continue
                if any(x in names_in(atom) for atom, _ in facts):
                    ctx.note(f'{q}: `{short(c, 50)}` is under another condition on `{x}`; whether it implies {"/".join(sorted(guards))}({x}) is not decided')
                    continue
                if kind != 'member' or iter_e is None:
                    ctx.note(f'{q}: `{short(c, 50)}`: `{x}` is not the member of a collection iterated here; its condition lies with the callers, not compared')
                    continue
                # an unconditional use for every member of a collection: fine only if the collection itself was filtered by the predicate
                ie = L.inline_locals(info, iter_e, iter_at) if cb is None else iter_e
                if isinstance(ie, (ast.ListComp, ast.SetComp, ast.GeneratorExp)) and len(ie.generators) == 1 and isinstance(ie.generators[0].target, ast.Name) \
                        and isinstance(ie.elt, ast.Name) and ie.elt.id == ie.generators[0].target.id:
                    fl = {g for cond in ie.generators[0].ifs for atom, tv in _edge_facts(cond, True) if tv for g in [_self_pred(atom, ie.elt.id)] if g is not None}
                    if guards <= fl:
                        nchk += 1
                        ctx.ok(what + ' (collection filtered by it)')
                        continue
                    if any(ie.elt.id in names_in(cond) for cond in ie.generators[0].ifs):
                        ctx.note(f'{q}: `{short(c, 50)}`: the collection is filtered by another condition on its members; whether it implies {"/".join(sorted(guards))}() is not decided')
                        continue
                    ie = ie.generators[0].iter      # a filter that says nothing about the member: the members are those of the underlying collection
                if isinstance(ie, ast.Call) and isinstance(ie.func, ast.Name) and ie.func.id == 'filter' and len(ie.args) == 2 and not ie.keywords \
                        and (attr_chain(ie.args[0]) or '').startswith('self.') and {(attr_chain(ie.args[0]) or '')[5:]} >= guards:
                    nchk += 1
                    ctx.ok(what + ' (collection filtered by it)')
                    continue
                opaque = [y for y in ast.walk(ie) if (isinstance(y, ast.Call) and ((call_name(y) or '').startswith('self.') or call_name(y) in ('filter', 'itertools.filterfalse') or
                                                                               (isinstance(y.func, ast.Name) and mod.has_func(y.func.id))))
                          or (isinstance(y, ast.Name) and isinstance(y.ctx, ast.Load) and y.id not in info.params and y.id != 'self' and info.defs().get(y.id))
                          or isinstance(y, (ast.ListComp, ast.SetComp, ast.GeneratorExp, ast.DictComp))]
                if opaque:
                    raise Undecided(f'{q}: `{short(c, 50)}` is used for every member of `{short(ie, 60)}`; whether that collection is already filtered by '
                                    f'{"/".join(sorted(guards))}() is not read')
                nchk += 1
                other = sorted({f'self.{g}({short(atom.args[0], 20)})' for atom, tv in _dominating_facts(info, ns[0]) if tv and isinstance(atom, ast.Call)  # type: ignore[attr-defined]
                                for g in [(call_name(atom) or '')[5:]] if g in guards and len(atom.args) == 1})
                ctx.violation(mod, q, f'{fname}(<member of {norm(ie)}>) without {"/".join(sorted(guards))}(<member>)',
                              f'`{short(c, 60)}` names the file of every member `{x}` of `{short(ie, 60)}` with no condition on `{x}`'
                              + (f' (the guard here is {", ".join(other)}, a different target)' if other else '') +
                              f', but {pq.split(".")[-1]}() writes the statement that produces that file only if self.{"/".join(sorted(guards))}(<that target>): for a member '
                              'for which the predicate is false the name is an input that exists nowhere and that no statement produces', c)
    if ntrip == 0:
        raise Undecided('no per-target file name whose only producer works under a predicate of the backend on the target was found')
    ctx.floor('uses of a predicate-guarded per-target file name checked against the predicate', nchk, 2)


_EXISTS = {'os.path.isfile', 'os.path.exists'}
_PURE_PATH = {'os.path.join', 'os.path.normpath', 'os.path.abspath', 'os.path.realpath', 'str', 'os.fspath', 'os.path.expanduser'}


def r14(ctx: RuleCtx) -> None:
    mod = ctx.repo.module(NB)
    qn = f'{BACKEND}.guess_external_link_dependencies'
    info = _infos(ctx).get(qn)
    cfg = info.cfg
    rets = [n for n in cfg.nodes if n.kind == 'stmt' and isinstance(n.ast, ast.Return) and n.ast.value is not None]
    if not rets:
        raise Undecided(f'{qn} returns nothing')

    def parts(e: ast.AST) -> T.List[ast.AST]:
        if isinstance(e, ast.BinOp) and isinstance(e.op, ast.Add):
            return parts(e.left) + parts(e.right)
        if isinstance(e, (ast.List, ast.Tuple)):
            return [y for x in e.elts for y in (parts(x.value) if isinstance(x, ast.Starred) else [ast.List(elts=[x], ctx=ast.Load())])]
        if isinstance(e, ast.Call) and isinstance(e.func, ast.Name) and e.func.id in ('list', 'tuple', 'sorted') and len(e.args) == 1 and not e.keywords:
            return parts(e.args[0])
        return [e]

    def exists_fact(facts: T.List[T.Tuple[ast.AST, bool]], v: ast.AST) -> bool:
        for atom, tv in facts:
            if not tv or not isinstance(atom, ast.Call):
                continue
            if call_name(atom) in _EXISTS and len(atom.args) == 1 and norm(atom.args[0]) == norm(v):
                return True
            f = atom.func      # Path(v).is_file() / Path(v).exists()
            if isinstance(f, ast.Attribute) and f.attr in ('is_file', 'exists') and not atom.args and isinstance(f.value, ast.Call) and \
                    (call_name(f.value) or '').split('.')[-1] in ('Path', 'PurePath') and len(f.value.args) == 1 and norm(f.value.args[0]) == norm(v):
                return True
        return False

    def hidden_test(facts: T.List[T.Tuple[ast.AST, bool]], v: ast.AST) -> T.Optional[ast.AST]:
        for atom, _tv in facts:
            for y in ast.walk(atom):
                if isinstance(y, ast.Call) and any(norm(a_) == norm(v) for a_ in list(y.args) + [k.value for k in y.keywords]) and \
                        ((call_name(y) or '').startswith('self.') or (isinstance(y.func, ast.Name) and mod.has_func(y.func.id))):
                    return y
        return None

    def judge(n: Node, construct: ast.AST, v: ast.AST, facts: T.List[T.Tuple[ast.AST, bool]], inlined: ast.AST) -> int:
        calls = [y for y in ast.walk(inlined) if isinstance(y, ast.Call) and call_name(y) not in _PURE_PATH]
        if calls:
            ctx.note(f'`{short(v, 50)}` is the result of `{short(calls[0], 50)}`: resolved by a helper, not examined here')
            return 0
        if not names_in(inlined):
            return 0
        if exists_fact(facts, v) or exists_fact(facts, inlined):
            ctx.ok(f'the raw path `{short(v, 40)}` is recorded as an implicit dependency only if it exists')
            return 1
        h = hidden_test(facts, v)
        if h is not None:
            raise Undecided(f'{qn}: the raw path `{short(v, 40)}` is recorded under `{short(h, 60)}`, which may test its existence in a form the rule does not read')
        ctx.violation(mod, cur[0].qn, 'raw command-line path recorded as an implicit dependency without an existence test',
                      f'`{short(construct, 70)}` records the path `{short(v, 40)}` taken from the link command line as an implicit input of the link statement although no '
                      f'dominating condition tests that the file exists (os.path.isfile / os.path.exists / Path.is_file): no statement produces an external library, so a path '
                      'that is absent at configure time is a dangling input', construct)
        return 1

    nraw = 0
    delegated: T.List[str] = []
    seen: T.Set[T.Tuple[str, str]] = set()
    cur: T.List[L.FnInfo] = [info]

    def scan(fi: L.FnInfo, rn: Node, value: ast.AST, depth: int) -> None:
        """the parts of one returned expression of `fi`; a local that is component i of the tuple a backend method returns is read in that method"""
        nonlocal nraw
        cur[0] = fi
        for pe in parts(value):
            if isinstance(pe, ast.List) and len(pe.elts) == 1 and not hasattr(pe, 'lineno'):
                nraw += judge(rn, rn.ast, pe.elts[0], _dominating_facts(fi, rn), L.inline_locals(fi, pe.elts[0], rn))
                continue
            if not isinstance(pe, ast.Name):
                if isinstance(pe, ast.Call):
                    ctx.note(f'`{short(pe, 50)}` is returned from a helper call: not examined here')
                    delegated.append(short(pe, 60))
                    continue
                raise Undecided(f'{fi.qn}: returned part `{short(pe, 60)}` is not a local list')
            if (fi.qn, pe.id) in seen:
                continue
            seen.add((fi.qn, pe.id))
            for d in fi.base_defs(pe.id, rn):
                if not isinstance(d, L.Def) or d.value is None:
                    raise Undecided(f'{fi.qn}: the returned list `{pe.id}` is not created in the function')
                dv = d.value
                if d.kind == 'unpack':
                    hq = f'{BACKEND}.{(call_name(dv) or "")[5:]}' if isinstance(dv, ast.Call) and (call_name(dv) or '').startswith('self.') and (call_name(dv) or '').count('.') == 1 else None
                    if hq is None or not mod.has_func(hq) or d.index is None or depth >= 2:
                        raise Undecided(f'{fi.qn}: the returned list `{pe.id}` is a component of `{short(dv, 50)}`, a form the rule does not read')
                    hi = _infos(ctx).get(hq)
                    hrets = [n_ for n_ in hi.cfg.nodes if n_.kind == 'stmt' and isinstance(n_.ast, ast.Return)]
                    if not hrets or any(not isinstance(n_.ast.value, ast.Tuple) or len(n_.ast.value.elts) <= d.index or any(isinstance(x, ast.Starred) for x in n_.ast.value.elts)  # type: ignore[union-attr]
                                        for n_ in hrets) or any(isinstance(x, (ast.Yield, ast.YieldFrom)) for x in walk_no_nested(hi.fn, include_root=False)):
                        raise Undecided(f'{hq}: does not return a tuple display with component {d.index} on every return')
                    for n_ in hrets:
                        scan(hi, n_, n_.ast.value.elts[d.index], depth + 1)  # type: ignore[union-attr]
                    cur[0] = fi
                    continue
                if (isinstance(dv, ast.List) and not dv.elts) or (isinstance(dv, ast.Call) and call_name(dv) in ('list', 'OrderedSet', 'set') and not dv.args):
                    continue
                if isinstance(dv, (ast.ListComp, ast.SetComp)) and len(dv.generators) == 1 and isinstance(dv.generators[0].target, ast.Name):
                    facts = [f for cond in dv.generators[0].ifs for f in _edge_facts(cond, True)] + _dominating_facts(fi, d.node)
                    nraw += judge(d.node, dv, dv.elt, facts, dv.elt)
                    continue
                if isinstance(dv, ast.Call) and (call_name(dv) or '').startswith('self.'):
                    ctx.note(f'`{pe.id}` starts as `{short(dv, 50)}`: resolved by a helper, not examined here')
                    delegated.append(short(dv, 60))
                    continue
                raise Undecided(f'{fi.qn}: the returned list `{pe.id}` starts as `{short(dv, 60)}`, a form the rule does not read')
            for n, c, a in fi.additions(pe.id):
                if a is None:
                    args = c.args if isinstance(c, ast.Call) else [getattr(c, 'value', None)]
                    if args and isinstance(args[0], ast.Call) and (call_name(args[0]) or '').startswith('self.'):
                        ctx.note(f'`{short(c, 60)}` adds the result of a helper: not examined here')
                        delegated.append(short(c, 60))
                        continue
                    raise Undecided(f'{fi.qn}: `{short(c, 60)}` adds to the returned list in a form the rule does not itemise')
                var = a.id if isinstance(a, ast.Name) else None
                nraw += judge(n, c, a, _dominating_facts(fi, n, var), L.inline_locals(fi, a, n))

    for rn in rets:
        scan(info, rn, rn.ast.value, 0)  # type: ignore[union-attr]
    if nraw == 0 and delegated:
        raise Undecided(f'{qn}: no raw path is added to the returned dependencies in this function itself; `{delegated[0]}` may do it in a form the rule does not read')
    ctx.floor('raw command-line paths recorded as implicit link dependencies', nraw, 1)



def _resolve_callee(mod: Module, fi: L.FnInfo, c: ast.Call, at: Node) -> T.Optional[T.Tuple[str, ast.Call, bool]]:
    """Repository function a call goes to: a module function, a method of the element class (`self.m`, `Cls.m`), or a local bound to
    functools.partial(f, ...) (the partial's arguments are merged into the call).  -> (qualified name, call with merged arguments, implicit first parameter)"""
    import copy
    from ..core import decorator_names as _dn
    f = c.func
    if isinstance(f, ast.Name):
        if mod.has_func(f.id) and '.' not in f.id and not (f.id in fi.params or fi.defs().get(f.id)):
            return f.id, c, False
        rs = fi.reaching(f.id, at) if (f.id in fi.params or fi.defs().get(f.id)) else []
        pc = None
        at2 = at
        if len(rs) == 1 and isinstance(rs[0], L.Def) and rs[0].kind == 'assign' and isinstance(rs[0].value, ast.Call):
            pc, at2 = rs[0].value, rs[0].node
        elif not rs and mod.has_assign(f.id) and isinstance(mod.assign_value(f.id), ast.Call):
            pc = mod.assign_value(f.id)          # a module-level binding: NAME = partial(f, ...)
        if isinstance(pc, ast.Call) and call_name(pc) in ('functools.partial', 'partial') and pc.args and isinstance(pc.args[0], ast.Name) and pc.args[0].id != f.id:
            inner = ast.Call(func=pc.args[0], args=list(pc.args[1:]) + list(c.args), keywords=list(pc.keywords) + list(c.keywords))
            ast.copy_location(inner, c)
            return _resolve_callee(mod, fi, inner, at2)
        return None
    cn = call_name(c) or ''
    if cn.count('.') == 1 and cn.split('.')[0] in ('self', 'cls', ELEMENT) and mod.has_func(f'{ELEMENT}.{cn.split(".")[1]}'):
        q = f'{ELEMENT}.{cn.split(".")[1]}'
        static = 'staticmethod' in _dn(mod.func(q))
        c2 = c
        if cn.split('.')[0] == ELEMENT and not static and c.args:
            c2 = copy.copy(c)
            c2.args = c.args[1:]
        return q, c2, not static
    return None


def _membership(e: ast.AST) -> T.Optional[T.Tuple[ast.AST, ast.AST, bool]]:
    """Normal form of a membership test: `k in C`, `k not in C`, `k in C.keys()`, `C.get(k) is not None`, `C.get(k) is None`, `C.get(k) != None`
    -> (k, C, True if the test holds when k is present)."""
    if isinstance(e, ast.Compare) and len(e.ops) == 1:
        op, l, r = e.ops[0], e.left, e.comparators[0]
        if isinstance(op, (ast.In, ast.NotIn)):
            if isinstance(r, ast.Call) and isinstance(r.func, ast.Attribute) and r.func.attr == 'keys' and not r.args:
                r = r.func.value
            return l, r, isinstance(op, ast.In)
        if isinstance(op, (ast.Is, ast.IsNot, ast.Eq, ast.NotEq)) and isinstance(r, ast.Constant) and r.value is None and \
                isinstance(l, ast.Call) and isinstance(l.func, ast.Attribute) and l.func.attr == 'get' and len(l.args) == 1 and not l.keywords:
            return l.args[0], l.func.value, isinstance(op, (ast.IsNot, ast.NotEq))
    return None


def _present_forces(test: ast.AST) -> T.Optional[T.Tuple[bool, ast.Compare]]:
    """If `X in self.all_outputs` being true forces the outcome of `test`: (forced outcome, the comparison); else None."""
    def rec(e: ast.AST) -> T.Optional[T.Tuple[bool, ast.Compare]]:
        # returns (value of e when the name is present, compare) if presence alone decides e
        if isinstance(e, ast.UnaryOp) and isinstance(e.op, ast.Not):
            r = rec(e.operand)
            return None if r is None else (not r[0], r[1])
        mb = _membership(e)
        if mb is not None and attr_chain(mb[1]) == 'self.all_outputs':
            return (mb[2], e)  # type: ignore[return-value]
        if isinstance(e, ast.BoolOp):
            absorbing = isinstance(e.op, ast.Or)      # a True operand decides an `or`, a False operand decides an `and`
            for v in e.values:
                r = rec(v)
                if r is not None and r[0] is absorbing:
                    return r
        return None
    return rec(test)


# ----------------------------------------------------------------------------
# R15  the name a target class is referenced under as a dependency is the name its statement is written under
# ----------------------------------------------------------------------------
_Cls = T.Tuple[Module, ast.ClassDef]


def _may_be(repo: T.Any, k: _Cls, elems: T.List[_Cls], excluded: T.List[_Cls]) -> bool:
    """Can a member of a collection declared to hold `elems` (minus instances of `excluded`) be a K?"""
    mk = [x[1] for x in repo.mro(k[0], k[1])]
    if any(x[1] in mk for x in excluded):
        return False
    return any(e[1] in mk or k[1] in [x[1] for x in repo.mro(e[0], e[1])] for e in elems)


def _generic_dep_namers(repo: T.Any, mod: Module) -> T.List[T.Tuple[Module, str, ast.AST, int, ast.Call, str, str, str]]:
    """Methods of the backend that name every member i of a collection parameter by join(self.<dir>(i), o) for o in i.<outputs>():
    (module, qualified name, function, index of the collection parameter, join call, member variable, dir method, outputs method)."""
    out = []
    for gm, gc in repo.mro(mod, mod.cls(BACKEND)):
        for g in gc.body:
            if not isinstance(g, (ast.FunctionDef, ast.AsyncFunctionDef)):
                continue
            ps = _param_names(g)
            for lp in walk_no_nested(g, include_root=False):
                if not (isinstance(lp, ast.For) and isinstance(lp.iter, ast.Name) and lp.iter.id in ps and isinstance(lp.target, ast.Name)):
                    continue
                i = lp.target.id
                for inner in ast.walk(lp):
                    if not (isinstance(inner, ast.For) and inner is not lp and isinstance(inner.target, ast.Name) and isinstance(inner.iter, ast.Call)
                            and isinstance(inner.iter.func, ast.Attribute) and isinstance(inner.iter.func.value, ast.Name) and inner.iter.func.value.id == i
                            and not inner.iter.args and not inner.iter.keywords):
                        continue
                    ginfo = L.FnInfo(gm, f'{gc.name}.{g.name}', g)
                    for c in ast.walk(inner):
                        if not (isinstance(c, ast.Call) and call_name(c) == 'os.path.join' and len(c.args) == 2 and isinstance(c.args[1], ast.Name)
                                and c.args[1].id == inner.target.id):
                            continue
                        cn_ = ginfo.nodes_of(c)
                        a0 = L.inline_locals(ginfo, c.args[0], cn_[0]) if cn_ and isinstance(c.args[0], ast.Name) else c.args[0]    # a hoisted `d = self.<dir>(i)`
                        if isinstance(a0, ast.Call) and (call_name(a0) or '').startswith('self.') \
                                and (call_name(a0) or '').count('.') == 1 and len(a0.args) == 1 and isinstance(a0.args[0], ast.Name) and a0.args[0].id == i:
                            out.append((gm, f'{gc.name}.{g.name}', g, ps.index(lp.iter.id), c, i, call_name(a0)[5:], inner.iter.func.attr))  # type: ignore[index]
    return out


def _generic_name_fields(repo: T.Any, mod: Module, k: _Cls, dir_meth: str, out_meth: str) -> T.Set[str]:
    """Every attribute name the generic dependency name of a K may read: the bodies of K.<out_meth>, of the backend's <dir_meth> and, transitively,
    of the backend methods these call on self and of the K methods they call on another receiver (an over-approximation: all attribute loads)."""
    seen: T.Set[T.Tuple[str, str]] = set()
    fields: T.Set[str] = set()
    work = [('b', dir_meth, 0), ('k', out_meth, 0)]
    while work:
        side, m, d = work.pop()
        if (side, m) in seen:
            continue
        seen.add((side, m))
        fm = repo.find_method(mod, mod.cls(BACKEND), m) if side == 'b' else repo.find_method(k[0], k[1], m)
        if fm is None:
            continue
        if d > 6:
            raise Undecided(f'the generic dependency name of a {k[1].name} is computed through more than 6 nested methods ({m})')
        fields |= {x.attr for x in ast.walk(fm[2]) if isinstance(x, ast.Attribute) and isinstance(x.ctx, ast.Load)}
        for c in _own_calls(fm[2]):
            if isinstance(c.func, ast.Attribute):
                on_self = isinstance(c.func.value, ast.Name) and c.func.value.id == 'self'
                work.append(('b' if side == 'b' and on_self else 'k', c.func.attr, d + 1))
    return fields


def _member_classes(ctx: RuleCtx, mod: Module, info: L.FnInfo, x: ast.AST, at: Node, depth: int = 0) -> T.Optional[T.Tuple[T.List[_Cls], T.List[_Cls]]]:
    """(declared member classes, classes filtered out) of a collection expression, from annotations: `v.m()` (return annotation of m in the annotated class of
    parameter v), `v.f` (annotation of the field), a parameter, a local with one reaching assignment, a comprehension `[d for d in SRC if [not] isinstance(d, C)]`."""
    repo = ctx.repo
    if depth > 4:
        return None

    def recv(e: ast.AST) -> T.List[_Cls]:
        if not (isinstance(e, ast.Name) and e.id in info.params and not info.defs().get(e.id)):
            return []
        a = info.fn.args
        ann = next((p.annotation for p in a.posonlyargs + a.args + a.kwonlyargs if p.arg == e.id), None)
        got: T.List[_Cls] = []
        _expand_ann(repo, mod, ann, got)
        return got
    if isinstance(x, ast.Call) and isinstance(x.func, ast.Attribute) and not x.args and not x.keywords:
        elems: T.List[_Cls] = []
        rc = recv(x.func.value)
        for c in rc:
            fm = repo.find_method(c[0], c[1], x.func.attr)
            if fm is None or fm[2].returns is None:
                return None
            _expand_ann(repo, fm[0], fm[2].returns, elems)
        return (elems, []) if rc and elems else None
    if isinstance(x, ast.Attribute):
        elems = []
        rc = recv(x.value)
        for c in rc:
            ann = next((a for a in (_field_annotation(m2, c2, x.attr) for m2, c2 in repo.mro(c[0], c[1])) if a is not None), None)
            m_ = next((m2 for m2, c2 in repo.mro(c[0], c[1]) if _field_annotation(m2, c2, x.attr) is not None), None)
            if ann is None or m_ is None:
                return None
            _expand_ann(repo, m_, ann, elems)
        return (elems, []) if rc and elems else None
    if isinstance(x, ast.ListComp) and len(x.generators) == 1 and isinstance(x.generators[0].target, ast.Name) and isinstance(x.elt, ast.Name) \
            and x.elt.id == x.generators[0].target.id:
        g = x.generators[0]
        base = _member_classes(ctx, mod, info, g.iter, at, depth + 1)
        if base is None:
            return None
        elems, excl = list(base[0]), list(base[1])
        for cond in g.ifs:
            for atom, truth in _edge_facts(cond, True):
                it = _isinstance_test(atom)
                if it is None or it[0] != g.target.id:
                    continue
                cl = [repo.resolve_class(mod, nm) for nm in it[1]]
                if any(c is None for c in cl):
                    continue
                if it[2] == truth:
                    elems = T.cast(T.List[_Cls], cl)
                else:
                    excl += T.cast(T.List[_Cls], cl)
        return elems, excl
    if isinstance(x, ast.Name):
        if x.id in info.params and not info.defs().get(x.id):
            got = recv(x)
            return (got, []) if got else None
        rs = info.reaching(x.id, at)
        if len(rs) == 1 and isinstance(rs[0], L.Def) and rs[0].kind == 'assign' and rs[0].value is not None:
            return _member_classes(ctx, mod, info, rs[0].value, rs[0].node, depth + 1)
    return None


def r15(ctx: RuleCtx) -> None:
    repo = ctx.repo
    mod = repo.module(NB)
    infos = _infos(ctx)
    funcs = _backend_funcs(mod)
    prod = _name_producers(ctx)
    # special namings: the statement of a K is written under self.F(K), and F computes the name from fields of the target alone
    special: T.List[T.Tuple[str, str, _Cls, T.Set[str]]] = []
    for fname, ps_ in sorted(prod.items()):
        fm = repo.find_method(mod, mod.cls(BACKEND), fname)
        if fm is None:
            continue
        finfo = L.FnInfo(fm[0], f'{fm[1].name}.{fname}', fm[2])
        fps = _param_names(fm[2])
        if len(fps) != 1:
            continue
        tr = L.Tracer(finfo)
        org: T.Set[str] = set()
        for st in walk_no_nested(fm[2], include_root=False):
            if isinstance(st, ast.Return) and st.value is not None:
                org |= tr.origins(st.value, finfo.node_of(st))
        if any(o.startswith('call:') for o in org):
            ctx.note(f'{fname}(): the name is computed through other calls ({", ".join(sorted(o[5:] for o in org if o.startswith("call:"))[:3])}): not a name formed from fields of the target alone, not compared')
            continue
        pf = {o.split('.')[1] for o in org if o.startswith(f'attr:{fps[0]}.')}
        a = fm[2].args
        ann = next((p.annotation for p in a.posonlyargs + a.args + a.kwonlyargs if p.arg == fps[0]), None)
        ks: T.List[_Cls] = []
        _expand_ann(repo, fm[0], ann, ks)
        if not pf or not ks:
            ctx.note(f'{fname}(): no annotated target class / no field of the target flows into the name: not compared')
            continue
        for k in ks:
            special.append((fname, ps_[0][0].split('.')[-1], k, pf))
    if not special:
        raise Undecided('no statement of the backend is written under a name that a naming method forms from fields of its target alone')
    ctx.floor('target classes whose statement is written under a name formed from fields of the target', len(special), 1)
    namers = _generic_dep_namers(repo, mod)
    if not namers:
        raise Undecided('no backend method names the members of a collection by join(self.<dir>(member), <output of member>)')
    nsites = 0
    for fname, pmeth, k, pf in special:
        for gm, gq, g, cidx, join, ivar, dmeth, ometh in namers:
            gname = gq.split('.')[-1]
            extra = pf - _generic_name_fields(repo, mod, k, dmeth, ometh)
            if not extra:
                ctx.note(f'{fname}() / {gname}(): every field of a {k[1].name} the producer-side name reads may also be read by the generic dependency name: agreement is value-level, not compared')
                continue
            ginfo = L.FnInfo(gm, gq, g)
            ns = ginfo.nodes_of(join)
            cons = _class_constraints(ctx, gm, ginfo, ns[0], ivar) if ns else []
            mk = [x[1] for x in repo.mro(k[0], k[1])]
            if not all(any(c_[1] in mk for c_ in cl) == want for cl, want in cons):
                nsites += 1
                ctx.ok(f'{gq}: the generic name join({dmeth}(x), x.{ometh}()) is not formed for a {k[1].name} (isinstance arm before it)')
                continue
            gparams = _param_names(g)
            for q, f in funcs.items():
                for c in _own_calls(f):
                    if call_name(c) != f'self.{gname}':
                        continue
                    b = L.bind_call(c, g, True) or {}
                    x = b.get(gparams[cidx])
                    if x is None or '*' in b or '**' in b:
                        ctx.note(f'{q}: `{short(c, 60)}`: the collection argument is not a plain argument, not compared')
                        continue
                    info = infos.get(q)
                    cn = info.nodes_of(c)
                    mc = _member_classes(ctx, mod, info, x, cn[0]) if cn else None
                    if mc is None:
                        ctx.note(f'{q}: `{short(c, 60)}`: the declared member classes of `{short(x, 30)}` are not readable (annotation of a parameter / field / getter), not compared')
                        continue
                    nsites += 1
                    ren = {p_: f'ARG{n_ + 1}' for n_, p_ in enumerate(_param_names(f))}
                    xi = copy.deepcopy(L.inline_locals(info, x, cn[0]))
                    for nd in ast.walk(xi):
                        if isinstance(nd, ast.Name) and nd.id in ren:
                            nd.id = ren[nd.id]
                    ctx.require(not _may_be(repo, k, mc[0], mc[1]),
                                f'{q}: no {k[1].name} among the members `{short(x, 40)}` hands to {gname}()', mod, q,
                                f'{gname}(.., {norm(xi)}) names a {k[1].name} without {fname}()',
                                f'`{short(c, 70)}`: the collection is declared to hold {"/".join(sorted(e[1].name for e in mc[0]))}, so a member may be a {k[1].name}; {gname}() references it as '
                                f'join(self.{dmeth}(x), x.{ometh}()), but the only statement that produces a {k[1].name} ({pmeth}) is written under self.{fname}(x), which also reads '
                                f'x.{"/x.".join(sorted(extra))} - a field the generic name never reads: for a target where that field matters the manifest names an input that no statement '
                                f'produces and that is no file (filter the members with isinstance and name them through {fname}(), or add an arm to {gname}())', c)
    if nsites == 0:
        raise Undecided('no call site of a generic dependency namer with readable member classes was found')
    ctx.floor('call sites of a generic dependency namer compared with the producer-side names', nsites, 3)


RULES = [
    Rule('C04.R1', 'every build statement created is registered (add_build) on every normal path', r1),
    Rule('C04.R2a', 'one output registry: constructions pass self.all_outputs; only check_outputs mutates it', r2a),
    Rule('C04.R2b', 'write() raises on output_errors before anything is written', r2b),
    Rule('C04.R2c', 'check_outputs tests and inserts every name; errors are never cleared', r2c),
    Rule('C04.R2d', 'every output field written left of the colon is registered', r2d),
    Rule('C04.R3', 'rule closure: every rule name used has the shape of a defined rule', r3),
    Rule('C04.R3b', 'the _RSP variant referenced is the variant counted and written', r3b),
    Rule('C04.R4', 'aggregates all / meson-test-prereq / meson-benchmark-prereq', r4),
    Rule('C04.R5', 'name collisions rejected at configure time', r5),
    Rule('C04.R6', 'an output name is joined with the directory of the target that owns it', r6),
    Rule('C04.R7', 'outputs[0] is re-assigned from filename after every write (no stale copy)', r7),
    Rule('C04.R8', 'every separator of the build line is escaped or rejected by the path quoting', r8),
    Rule('C04.R9', 'no isinstance arm for a subclass is shadowed by an earlier base-class arm', r9),
    Rule('C04.R10', 'a pool named by a rule is declared under an implied condition', r10),
    Rule('C04.R11', 'all call sites of a method pass the environment directories in the same roles', r11),
    Rule('C04.R12', 'a produced per-target file name is handed out only for classes whose producer is called', r12),
    Rule('C04.R13', 'a per-target file name produced under a predicate on the target is used for members of a collection only under that predicate', r13),
    Rule('C04.R14', 'a raw command-line path becomes an implicit link dependency only under an existence test', r14),
    Rule('C04.R15', 'a target class whose statement is written under a name formed from its fields is not referenced by the generic dependency name', r15),
]
