"""C20 - Cargo version requirements and cfg() expressions (DESIGN section 2 C20, data sheet A.17).

Every rule decides from structure: decision tables extracted by path enumeration (sa.tables / sa.paths),
worlds enumerated over the tables' own atoms, row effects compared *symbolically* (normalised expression shape
after copy propagation along the row), regex-language facts (sa.rx), CFG dominance / exception edges (sa.cfg).
No function body is evaluated on input values."""
from __future__ import annotations

import ast
import copy
import itertools
import builtins as _builtins
import re as _re
import typing as T

from ..core import Module, Undecided, norm, short, attr_chain, walk_no_nested, names_in
from ..report import Rule, RuleCtx
from ..cfg import CFG
from ..consteval import fold_expr, Regex
from ..paths import enumerate_paths, Path
from .. import rx, tables
from ..tables import Atom
from . import cmpcore

VERSION = 'mesonbuild/cargo/version.py'
CFGPY = 'mesonbuild/cargo/cfg.py'

EXPLANATION = (
    'Decides structural clauses of C20.  R1a: the prefix chain of split() (decision table of the loop body over startswith/endswith/== '
    'atoms; two-character operators win, slice lengths equal the operator length, wildcard -> tilde on the text without ".*", bare * '
    'skipped, default caret, strip before the tests).  R1b: the decision table of the cargo_parse loop body: per operator row the appended '
    '(comparator, bound) pairs compared symbolically with A.17 (bound = the version, or next_ver(index expression): count-1 for <=, 1/0 on '
    'count >= 2 for ~, first-non-zero search over three components with default 0 for ^), sticky pre-release flag, and the table of the '
    'returned matcher (gate, conjunction, operand order, empty requirement).  R1c: next_ver / list constructor / has_prerelease by '
    'expression shape (copy of the first three components, +1 at the index, zeroing loop over range(index+1, 3), slot 3).  R2a: one '
    'comparison core with symmetric ranking keys [kind: int below str, value, length].  R2b: tokenizer regex-language facts (digit branch = [0-9]+, '
    'identifier branch = exactly [A-Za-z-][0-9A-Za-z-]* by two automaton inclusions, build branch anchored on +) and the '
    'decision table of the tokenizer loop body: int() conversion of digit tokens, slot 3 = -1 after padding, build branch breaks, and '
    '- decided with the product automaton - an identifier whose language (after the section-marker strip the row performs) meets [0-9]+ '
    'must be appended through an isdigit()-guarded int().  R3a: _eval_cfg has one arm per IR class _parse can build, each returning the '
    'denoting construct (in / get == / not / any / all).  R3b: lexer decision table over character classes {blank, other white space, each '
    'punctuation, quote, other} x word classes (keyword and delimiter tokens; every white space character separates; inside a string literal '
    'only the closing quote acts), parser token -> class map, and the composition keyword -> token -> class -> builtin.  R4a: only '
    'MesonException is raised, StopIteration of _parse is converted in parse (CFG exception edge), leftover tokens are rejected, every token '
    'read is checked before the parse continues (CFG dominance), token payload guards, eval_cfg wrapper shape.  R4b: every enumerated path of '
    '_parse, abstracted to its sequence of reads / expectations / tests / recursive calls, is a sentence of the cfg grammar pinned by the '
    'project tests (trailing comma = malformed) and builds the production\'s IR from the right payloads.  '
    'Every function is first brought into one source-to-source normal form (module literal constants inlined, calls bound to signatures, walrus '
    'and condition locals resolved, list-builder helpers inlined, m.groups()/named groups/lastgroup reduced to m.group(k); value helpers and '
    'methods of the data class that read as one conditional expression (tests, returns, first-match search with early return) are read in place; an '
    'inner loop over the SAME iterator object in tail position is the state flag it stands for; `return K(a).M()` with a plain private class K is '
    'the function with closures it stands for (only if every attribute written is rewritten before it is read after each recursive call); an '
    'anchored finite-language regex match is the prefix chain of its strings in priority order; release / pre-release lists joined after the token '
    'loop are read by the join (padding, -1, identifiers; count = length before padding)); split(): the parts come from str.split/rsplit with the '
    'constant separator "," and no limit (any other constant separator or limit is a violation, other producers are undecided); a finding is reported '
    'only when every statement and test of the judged region was classified (closed world), otherwise the rule is undecided.  Also decided: '
    '`<=` with a pre-release bound keeps the version itself (next_ver drops the pre-release); a requirement without constraints still applies '
    'the pre-release gate; the matcher reads the candidate only through SemVer(); the comparison core does not select results by comparator '
    'identity; token boundaries inside the pre-release section (digit token + identifier token = one identifier) are rejoined or reported.  '
    'NOT decided: pointwise agreement with Cargo on concrete requirement x version strings (e.g. Cargo\'s stricter same-version rule for '
    'pre-release matching, pinned otherwise by the project tests); cfg name/value conflation of the Dict[str, str] configuration '
    '(`cfg(target_os)` with target_os="linux"; `cfg(unix = "")`), which is a property of the representation, not of the evaluator; '
    'search-loop / helper spellings outside the recognised normal forms (undecided); escapes inside cfg string literals; the consumer side in '
    'manifest.py (Dependency.update_version dropping the lazy_property caches of `api` and `accepts_version` after the requirement changes: a '
    'sequence-dependent cache-staleness question about instance state, outside every clause on cargo_parse/SemVer/cfg themselves - seed round 7/3); '
    'a lexer rewritten as a regex search loop and rich comparisons derived by functools.total_ordering from a `<`-specialised core (undecided).  '
    'Round 13 normal forms: a functools.singledispatch generic function with module-level overloads is the isinstance chain it dispatches to '
    '(subclasses first); `K(out, flag)` with a plain class K whose __init__ only stores its parameters and whose __call__ never writes them is the '
    'closure / functools.partial it stands for; a token regex without a build alternative is read in a closed world (not group 1 = group 2) and then '
    'requires the scanned text to be the input cut at the first "+" (finditer over the raw input tokenises the build metadata: violation); a `for` '
    'over the token stream is a read per turn, and leaving it at the end of input without an else clause that raises is end-of-input ignored (R4b).')
ASSUMPTIONS = ['operator.lt/gt/le/ge/eq/ne, Python int/str/list comparison, str.startswith/endswith/strip/isdigit, any/all behave as documented',
               're alternation/finditer semantics as documented; group n is non-empty exactly when alternative n matched',
               'SemVer.specified_count ranges over 1..3 for a requirement; dataclasses generate positional constructors in field order']
TECHNIQUE = ('decision tables by path enumeration over canonical atoms with world enumeration + symbolic comparison of row effects after copy '
             'propagation; regex-language product automaton; CFG dominance and exception edges; path-shape grammar check for the recursive parser')

OPS = ['>=', '<=', '!=', '~', '=', '^', '>', '<']
OPNAME = {'>=': 'ge', '<=': 'le', '!=': 'ne', '=': 'eq', '>': 'gt', '<': 'lt'}


# ------------------------------------------------------------------------------------------ shared helpers
def eff(st: ast.AST) -> T.Optional[str]:
    """Effect text of a simple statement (assignments, calls, yields); docstrings and the like are no effects."""
    if isinstance(st, (ast.Assign, ast.AnnAssign, ast.AugAssign)):
        return norm(st)
    if isinstance(st, ast.Expr) and isinstance(st.value, (ast.Call, ast.Yield, ast.YieldFrom, ast.Await)):
        return norm(st)
    return None


def stmts_of(row: tables.Row) -> T.List[ast.stmt]:
    return [ast.parse(e).body[0] for e in row.effects]


def expr_of(text: str) -> ast.expr:
    return ast.parse(text, mode='eval').body


class _Sub(ast.NodeTransformer):
    def __init__(self, env: T.Dict[str, ast.AST]):
        self.env = env

    def visit_Name(self, n: ast.Name) -> ast.AST:
        if isinstance(n.ctx, ast.Load) and n.id in self.env:
            return copy.deepcopy(self.env[n.id])
        return n


def resolve(e: ast.AST, env: T.Dict[str, ast.AST]) -> ast.AST:
    return _Sub(env).visit(copy.deepcopy(e))


def propagate(stmts: T.Sequence[ast.stmt], env: T.Optional[T.Dict[str, ast.AST]] = None, opaque: T.Iterable[str] = ()) -> T.Tuple[T.Dict[str, ast.AST], T.List[ast.stmt]]:
    """Copy propagation along one row: local name -> defining expression (earlier definitions substituted);
    returns the final environment and the non-binding statements with the environment of their position applied."""
    env = dict(env or {})
    rest: T.List[ast.stmt] = []
    keep = set(opaque)
    for st in stmts:
        if isinstance(st, ast.Assign) and len(st.targets) == 1 and isinstance(st.targets[0], ast.Name) and st.targets[0].id in keep:
            rest.append(resolve(st, env))     # type: ignore[arg-type]
        elif isinstance(st, ast.Assign) and len(st.targets) == 1 and isinstance(st.targets[0], ast.Name):
            env[st.targets[0].id] = resolve(st.value, env)
        elif isinstance(st, ast.AnnAssign) and isinstance(st.target, ast.Name) and st.value is not None:
            env[st.target.id] = resolve(st.value, env)
        elif isinstance(st, ast.Assign) and len(st.targets) == 1 and isinstance(st.targets[0], ast.Tuple) and isinstance(st.value, ast.Tuple) \
                and len(st.value.elts) == len(st.targets[0].elts) and all(isinstance(x, ast.Name) for x in st.targets[0].elts):
            vals = [resolve(v, env) for v in st.value.elts]
            for t, v in zip(st.targets[0].elts, vals):
                env[t.id] = v   # type: ignore[attr-defined]
        else:
            st2 = resolve(st, env)
            rest.append(st2)    # type: ignore[arg-type]
            # a binding this rule does not model: forget the names it writes
            for n in ast.walk(st):
                if isinstance(n, ast.Name) and isinstance(n.ctx, ast.Store):
                    env.pop(n.id, None)
    return env, rest


def resolve_table(tab: tables.Table, opaque: T.Iterable[str] = (), fn: T.Optional[ast.FunctionDef] = None) -> tables.Table:
    """Replace the tests of every row by their reaching-definition form (condition locals, hoisted sub-expressions); drop rows that
    become contradictory."""
    params = tables._param_map(fn) if fn is not None else {}
    for r in list(tab.rows):
        rc = resolved_conds(r, opaque, params)
        if rc is None:
            tab.rows.remove(r)
        else:
            r.conds = rc
    return tab


def resolved_conds(row: tables.Row, opaque: T.Iterable[str] = (), params: T.Optional[T.Dict[str, ast.AST]] = None) -> T.Optional[T.Dict[Atom, bool]]:
    """The tests of a row with every local replaced by its reaching definition *at the point of the test* (copy propagation along
    the path); None when two tests of the row then contradict each other."""
    env: T.Dict[str, ast.AST] = {}
    out: T.Dict[Atom, bool] = {}
    for ev in row.path.events:
        if ev.kind == 'stmt' and isinstance(ev.node, ast.stmt):
            env, _ = propagate([ev.node], env, opaque)
        elif ev.kind in ('iter', 'with') and ev.node is not None:
            for n in ast.walk(ev.node.target if ev.kind == 'iter' else ev.node):     # type: ignore[attr-defined]
                if isinstance(n, ast.Name) and isinstance(n.ctx, ast.Store):
                    env.pop(n.id, None)
        elif ev.kind == 'cond':
            e2 = resolve(ev.node, env)     # type: ignore[arg-type]
            if params:
                e2 = _Rename(params).visit(e2)     # parameters by position (ARG1, ARG2 ...), as in the table's outcomes
            a, pol = tables.canon(e2, True)
            v = ev.val == pol
            if out.get(a, v) != v:
                return None
            out[a] = v
    return out


class _GroupNames(ast.NodeTransformer):
    """`m.group('name')`, `m['name']`, `m[k]`  ->  `m.group(k)` (names resolved through the folded regex)."""

    def __init__(self, m: str, gindex: T.Dict[str, int]):
        self.m, self.gindex = m, gindex

    def _call(self, k: int, node: ast.AST) -> ast.AST:
        call = ast.Call(func=ast.Attribute(value=ast.Name(id=self.m, ctx=ast.Load()), attr='group', ctx=ast.Load()), args=[ast.Constant(k)], keywords=[])
        return ast.fix_missing_locations(ast.copy_location(call, node))

    def visit_Call(self, node: ast.Call) -> ast.AST:
        self.generic_visit(node)
        if norm(node.func) == f'{self.m}.group' and len(node.args) == 1 and isinstance(node.args[0], ast.Constant) and node.args[0].value in self.gindex:
            return self._call(self.gindex[node.args[0].value], node)
        return node

    def visit_Subscript(self, node: ast.Subscript) -> ast.AST:
        self.generic_visit(node)
        if norm(node.value) == self.m and isinstance(node.slice, ast.Constant) and isinstance(node.ctx, ast.Load):
            k = self.gindex.get(node.slice.value, node.slice.value if isinstance(node.slice.value, int) else None)
            if isinstance(k, int):
                return self._call(k, node)
        return node


class _GroupsUnpack(ast.NodeTransformer):
    """`a, b, c = m.groups()`  ->  `a = m.group(1); b = m.group(2); c = m.group(3)`"""

    def __init__(self, m: str):
        self.m = m

    def visit_Assign(self, node: ast.Assign) -> T.Any:
        if len(node.targets) == 1 and isinstance(node.targets[0], (ast.Tuple, ast.List)) and isinstance(node.value, ast.Call) and norm(node.value.func) == f'{self.m}.groups' \
                and not node.value.args and all(isinstance(t, ast.Name) for t in node.targets[0].elts):
            out = []
            for i, t in enumerate(node.targets[0].elts, 1):
                call = ast.Call(func=ast.Attribute(value=ast.Name(id=self.m, ctx=ast.Load()), attr='group', ctx=ast.Load()), args=[ast.Constant(i)], keywords=[])
                out.append(ast.fix_missing_locations(ast.copy_location(ast.Assign(targets=[ast.Name(id=t.id, ctx=ast.Store())], value=call), node)))     # type: ignore[attr-defined]
            return out
        return node


def strip_wrappers(e: ast.AST, names: T.Iterable[str] = ('strip', 'lstrip')) -> T.Tuple[ast.AST, T.List[str]]:
    """Peel argument-less .strip()/.lstrip() calls."""
    seen: T.List[str] = []
    while isinstance(e, ast.Call) and isinstance(e.func, ast.Attribute) and e.func.attr in names and not e.args and not e.keywords:
        seen.append(e.func.attr)
        e = e.func.value
    return e, seen


def const_of(e: ast.AST) -> T.Any:
    """Value of a literal constant (incl. negative numbers and tuples/sets of constants); Undecided otherwise."""
    try:
        return ast.literal_eval(e)
    except Exception:
        raise Undecided(f'not a literal constant: {short(e)}')


def is_const(e: ast.AST) -> bool:
    try:
        ast.literal_eval(e)
        return True
    except Exception:
        return False



# ------------------------------------------------------------------------------------------ source-to-source normal form
def _const_ast(v: T.Any) -> ast.AST:
    if isinstance(v, int) and not isinstance(v, bool) and v < 0:
        return ast.UnaryOp(op=ast.USub(), operand=ast.Constant(-v))
    return ast.Constant(v)


class _NormalForm(ast.NodeTransformer):
    """One normal form per function, applied before any table is extracted (catalogue kinds A1, B2, C3, C6):
    * module-level literal constants are inlined (`_PREFIX = 'cfg('`), `len('lit')` is folded;
    * calls of functions of the same module / methods of the same class are rewritten to positional arguments by signature;
    * `if (x := e):` becomes `x = e; if x:`;
    * a boolean local that is defined once and used once, in the next test, is substituted into it."""

    def __init__(self, mod: Module, fn: ast.FunctionDef, cls: T.Optional[str]):
        self.mod, self.cls = mod, cls
        self.ctx_repo = getattr(mod, 'repo', None)
        self.depth = 0
        self.root = fn
        self.locals = {n.id for n in ast.walk(fn) if isinstance(n, ast.Name) and isinstance(n.ctx, (ast.Store, ast.Del))} | \
            {a.arg for a in ast.walk(fn) if isinstance(a, ast.arg)}

    def visit_Name(self, n: ast.Name) -> ast.AST:
        if isinstance(n.ctx, ast.Load) and n.id not in self.locals and self.mod.has_assign(n.id) and not self.mod.has_func(n.id) and not self.mod.has_cls(n.id):
            v = self.mod.assign_value(n.id)
            ndefs = sum(1 for st in ast.walk(self.mod.tree) if isinstance(st, (ast.Assign, ast.AnnAssign, ast.AugAssign))
                        for t in (st.targets if isinstance(st, ast.Assign) else [st.target]) for x in ast.walk(t) if isinstance(x, ast.Name) and x.id == n.id)
            if ndefs == 1 and isinstance(v, (ast.Constant, ast.Tuple, ast.Set)) and is_const(v):
                return ast.copy_location(copy.deepcopy(v), n)
            if ndefs == 1:
                # a named number / string (`_PRERELEASE = -1`, `_MARKER_IDX = _CORE_LEN`, `_A = _B + 1`): folded through the module's constants
                try:
                    val = fold_expr(self.ctx_repo, self.mod, v) if self.ctx_repo is not None else None
                except Undecided:
                    val = None
                if isinstance(val, (int, str)) and not isinstance(val, bool):
                    return ast.copy_location(_const_ast(val), n)
        return n

    def visit_BinOp(self, b: ast.BinOp) -> ast.AST:
        self.generic_visit(b)
        if is_const(b.left) and is_const(b.right) and isinstance(b.op, (ast.Add, ast.Sub, ast.Mult)):
            l, r = const_of(b.left), const_of(b.right)
            if isinstance(l, int) and isinstance(r, int) and not isinstance(l, bool) and not isinstance(r, bool):
                return ast.copy_location(_const_ast(l + r if isinstance(b.op, ast.Add) else l - r if isinstance(b.op, ast.Sub) else l * r), b)
        return b

    def visit_Compare(self, c: ast.Compare) -> ast.AST:
        """Integer comparisons between len(x) and a constant in one spelling: `len(x) < K` (possibly negated)."""
        self.generic_visit(c)
        if len(c.ops) != 1:
            return c
        a, b, op = c.left, c.comparators[0], c.ops[0]
        is_len = lambda e: isinstance(e, ast.Call) and norm(e.func) == 'len'     # noqa: E731
        is_int = lambda e: is_const(e) and isinstance(const_of(e), int) and not isinstance(const_of(e), bool)     # noqa: E731
        if is_int(a) and is_len(b):     # mirror: K op len  ->  len op' K
            a, b = b, a
            op = {ast.Lt: ast.Gt, ast.Gt: ast.Lt, ast.LtE: ast.GtE, ast.GtE: ast.LtE}.get(type(op), type(op))()
        if not (is_len(a) and is_int(b)):
            return c
        k = const_of(b)
        lt = lambda kk: ast.Compare(left=a, ops=[ast.Lt()], comparators=[_const_ast(kk)])     # noqa: E731
        new: T.Optional[ast.AST] = None
        if isinstance(op, ast.LtE):
            new = lt(k + 1)
        elif isinstance(op, ast.Gt):
            new = ast.UnaryOp(op=ast.Not(), operand=lt(k + 1))
        elif isinstance(op, ast.GtE):
            new = ast.UnaryOp(op=ast.Not(), operand=lt(k))
        return ast.copy_location(new, c) if new is not None else c

    def visit_Call(self, c: ast.Call) -> ast.AST:
        self.generic_visit(c)
        if norm(c.func) == 'len' and len(c.args) == 1 and isinstance(c.args[0], ast.Constant) and isinstance(c.args[0].value, (str, tuple)):
            return ast.copy_location(ast.Constant(len(c.args[0].value)), c)
        # a NamedTuple record of this module is the tuple of its fields (bound by field order / keyword)
        if isinstance(c.func, ast.Name) and c.func.id not in self.locals and self.mod.has_cls(c.func.id):
            k = self.mod.cls(c.func.id)
            if any((attr_chain(b) or '').split('.')[-1] == 'NamedTuple' for b in k.bases):
                fields = [st.target.id for st in k.body if isinstance(st, ast.AnnAssign) and isinstance(st.target, ast.Name)]
                defaults = {st.target.id: st.value for st in k.body if isinstance(st, ast.AnnAssign) and isinstance(st.target, ast.Name) and st.value is not None}
                vals: T.Dict[str, ast.AST] = dict(zip(fields, c.args))
                for kw in c.keywords:
                    if kw.arg in fields and kw.arg not in vals:
                        vals[kw.arg] = kw.value
                for f0 in fields:
                    if f0 not in vals and f0 in defaults:
                        vals[f0] = defaults[f0]
                if len(c.args) <= len(fields) and set(vals) == set(fields) and not any(isinstance(a, ast.Starred) for a in c.args):
                    return ast.copy_location(ast.Tuple(elts=[vals[f0] for f0 in fields], ctx=ast.Load()), c)
        if not c.keywords:
            return c
        callee: T.Optional[ast.FunctionDef] = None
        if isinstance(c.func, ast.Name) and c.func.id not in self.locals and self.mod.has_func(c.func.id):
            callee = self.mod.func(c.func.id)     # type: ignore[assignment]
        elif isinstance(c.func, ast.Attribute) and self.mod.has_cls('SemVer') and c.func.attr in self.mod.methods('SemVer') and not c.func.attr.startswith('__'):
            callee = self.mod.methods('SemVer')[c.func.attr]     # type: ignore[assignment]
        if callee is None:
            return c
        try:
            b = bind_call(c, callee)
        except Undecided:
            return c
        params = [a.arg for a in callee.args.posonlyargs + callee.args.args]
        if params and params[0] in ('self', 'cls') and isinstance(c.func, ast.Attribute):
            params = params[1:]
        if callee.args.kwonlyargs:
            return c
        given = [pn for pn in params if pn in b and (b[pn] in c.args or any(k.value is b[pn] for k in c.keywords))]
        if given != params[:len(given)]:
            return c
        return ast.copy_location(ast.Call(func=c.func, args=[b[pn] for pn in given], keywords=[]), c)

    def _const_rows(self, it: ast.AST) -> T.Optional[T.List[ast.AST]]:
        """Elements of a constant table: a tuple/list display, or a module-level name bound once to one."""
        if isinstance(it, ast.Name) and it.id not in self.locals and self.mod.has_assign(it.id):
            it = self.mod.assign_value(it.id)
        if isinstance(it, (ast.Tuple, ast.List)) and 0 < len(it.elts) <= 16 and not any(isinstance(x, ast.Starred) for x in it.elts):
            simple = lambda x: isinstance(x, (ast.Name, ast.Constant, ast.Attribute)) or (isinstance(x, (ast.Tuple, ast.List)) and all(simple(y) for y in x.elts))     # noqa: E731
            if all(simple(x) for x in it.elts):
                return list(it.elts)
        return None

    def _unroll(self, st: ast.For) -> T.Optional[T.List[ast.stmt]]:
        """`for a, b in CONST_TABLE: body` with no break/continue/else -> the body once per row, loop variables substituted."""
        rows = self._const_rows(st.iter)
        if rows is not None and isinstance(st.target, ast.Name) and len(st.body) == 1 and isinstance(st.body[0], ast.If) and not st.body[0].orelse \
                and st.body[0].body and isinstance(st.body[0].body[-1], ast.Break) \
                and not any(isinstance(n, (ast.Break, ast.Continue)) for x in st.body[0].body[:-1] for n in ast.walk(x)):
            # for x in TABLE: if T(x): S(x); break   else: E      ->      if T(a): S(a) elif T(b): S(b) ... else: E
            chain: T.List[ast.stmt] = list(copy.deepcopy(st.orelse))
            for row in reversed(rows):
                names0 = {st.target.id: row}
                test = _Rename(names0).visit(copy.deepcopy(st.body[0].test))
                body = [_Rename(names0).visit(copy.deepcopy(x)) for x in st.body[0].body[:-1]] or [ast.Pass()]
                chain = [ast.fix_missing_locations(ast.copy_location(ast.If(test=test, body=body, orelse=chain), st))]
            return chain
        if rows is None or st.orelse or any(isinstance(n, (ast.Break, ast.Continue)) for x in st.body for n in ast.walk(x)):
            return None
        tnames = [st.target] if isinstance(st.target, ast.Name) else list(st.target.elts) if isinstance(st.target, ast.Tuple) else None
        if tnames is None or not all(isinstance(t, ast.Name) for t in tnames):
            return None
        stored = {n.id for x in st.body for n in ast.walk(x) if isinstance(n, ast.Name) and isinstance(n.ctx, ast.Store)}
        if stored & {t.id for t in tnames}:     # type: ignore[attr-defined]
            return None
        out: T.List[ast.stmt] = []
        for row in rows:
            vals = [row] if isinstance(st.target, ast.Name) else list(row.elts) if isinstance(row, (ast.Tuple, ast.List)) and len(row.elts) == len(tnames) else None     # type: ignore[attr-defined]
            if vals is None:
                return None
            names = {t.id: v for t, v in zip(tnames, vals)}     # type: ignore[attr-defined]
            out.extend(ast.fix_missing_locations(_Rename(names).visit(copy.deepcopy(x))) for x in st.body)
        return out

    def _inline_returns(self, st: ast.stmt) -> T.Optional[T.List[ast.stmt]]:
        """`yield H(a)` / `return H(a)` where H is a module-level function made of tests and returns only: H's body in place,
        every `return E` turned into the yield / return / assignment of E (the statements after an `if` go to both of its branches)."""
        if isinstance(st, ast.Expr) and isinstance(st.value, ast.Yield) and isinstance(st.value.value, ast.Call):
            call, mk = st.value.value, (lambda e: ast.Expr(value=ast.Yield(value=e)))
        elif isinstance(st, ast.Return) and isinstance(st.value, ast.Call):
            call, mk = st.value, (lambda e: ast.Return(value=e))
        else:
            return None     # (a value bound to a local first is read through the callee's own table where a rule needs it)
        if not (isinstance(call.func, ast.Name) and call.func.id not in self.locals and self.mod.has_func(call.func.id)) or call.func.id == getattr(self.root, 'name', None) \
                or self.depth > 1:
            return None
        h = self.mod.func(call.func.id)
        hbody = [x for x in h.body if not (isinstance(x, ast.Expr) and isinstance(x.value, ast.Constant))]
        if any(isinstance(n, (ast.For, ast.While, ast.Try, ast.With, ast.Yield, ast.YieldFrom, ast.FunctionDef, ast.Lambda, ast.Global, ast.Nonlocal)) for x in hbody for n in ast.walk(x)):
            return None
        if any(isinstance(n, ast.Call) and isinstance(n.func, ast.Name) and n.func.id == h.name for x in hbody for n in ast.walk(x)):
            return None     # recursive helper
        if not all(isinstance(a, (ast.Name, ast.Constant, ast.Attribute)) for a in call.args) or not all(isinstance(k.value, (ast.Name, ast.Constant, ast.Attribute)) for k in call.keywords):
            return None
        try:
            bound = bind_call(call, h)     # type: ignore[arg-type]
        except Undecided:
            return None
        stores = {n.id for x in hbody for n in ast.walk(x) if isinstance(n, ast.Name) and isinstance(n.ctx, ast.Store)}
        if stores & set(bound):
            return None
        names: T.Dict[str, ast.AST] = dict(bound)
        for loc in stores:
            names[loc] = ast.Name(id=f'{h.name}__{loc}', ctx=ast.Load())

        def conv(stmts: T.List[ast.stmt]) -> T.Optional[T.List[ast.stmt]]:
            res: T.List[ast.stmt] = []
            for i, x in enumerate(stmts):
                if isinstance(x, ast.Return):
                    res.append(ast.copy_location(mk(x.value if x.value is not None else ast.Constant(None)), st))
                    return res
                if isinstance(x, ast.If):
                    rest = stmts[i + 1:]
                    b, o = conv(list(x.body) + rest), conv(list(x.orelse) + rest)
                    if b is None or o is None:
                        return None
                    res.append(ast.If(test=x.test, body=b or [ast.Pass()], orelse=o))
                    return res
                if isinstance(x, ast.Raise):
                    res.append(x)
                    return res
                res.append(x)
            return None     # falls off the end without a value: not a pure value helper
        new = conv(copy.deepcopy(hbody))
        if new is None:
            return None
        return [ast.fix_missing_locations(_Rename(names).visit(x)) for x in new]

    def _demap(self, st: ast.For) -> ast.For:
        """`for x in map(F, xs): B`  ->  `for x in xs: x = F(x); B`  (F a `str.method` or a plain function name), and the same for a
        one-generator generator expression `for x in (E(p) for p in xs)`: the per-element transformation becomes the first statement."""
        it = st.iter
        if not isinstance(st.target, ast.Name):
            return st
        x = st.target.id
        first: T.Optional[ast.stmt] = None
        src: T.Optional[ast.AST] = None
        if isinstance(it, ast.Call) and norm(it.func) == 'map' and len(it.args) == 2 and not it.keywords:
            f = it.args[0]
            if isinstance(f, ast.Attribute) and norm(f.value) in ('str', 'bytes'):
                val: ast.AST = ast.Call(func=ast.Attribute(value=ast.Name(id=x, ctx=ast.Load()), attr=f.attr, ctx=ast.Load()), args=[], keywords=[])
            elif isinstance(f, ast.Name):
                val = ast.Call(func=f, args=[ast.Name(id=x, ctx=ast.Load())], keywords=[])
            else:
                return st
            first, src = ast.Assign(targets=[ast.Name(id=x, ctx=ast.Store())], value=val), it.args[1]
        elif isinstance(it, (ast.GeneratorExp, ast.ListComp)) and len(it.generators) == 1 and not it.generators[0].ifs and isinstance(it.generators[0].target, ast.Name) \
                and not it.generators[0].is_async:
            g = it.generators[0]
            val = _Rename({g.target.id: ast.Name(id=x, ctx=ast.Load())}).visit(copy.deepcopy(it.elt))
            first, src = ast.Assign(targets=[ast.Name(id=x, ctx=ast.Store())], value=val), g.iter
        if first is None or src is None:
            return st
        new = ast.For(target=st.target, iter=src, body=[ast.copy_location(first, st)] + list(st.body), orelse=st.orelse, type_comment=None)
        return ast.fix_missing_locations(ast.copy_location(new, st))

    def _inline_closure(self, st: ast.stmt) -> T.Optional[T.List[ast.stmt]]:
        """`f()` / `x = f()` where f is a parameterless straight-line closure nested in this function (typically with `nonlocal`): its
        statements in place, `return E` becoming `x = E`.  The closure shares the variables of the function, so nothing is renamed."""
        if isinstance(st, ast.Expr) and isinstance(st.value, ast.Call):
            call, tgt = st.value, None
        elif isinstance(st, ast.Assign) and len(st.targets) == 1 and isinstance(st.targets[0], ast.Name) and isinstance(st.value, ast.Call):
            call, tgt = st.value, st.targets[0].id
        else:
            return None
        if not isinstance(call.func, ast.Name) or call.args or call.keywords:
            return None
        nested = [x for x in ast.walk(self.root) if isinstance(x, ast.FunctionDef) and x is not self.root and x.name == call.func.id]
        if len(nested) != 1 or nested[0].args.args or nested[0].args.kwonlyargs or nested[0].args.vararg or nested[0].args.kwarg:
            return None
        body = [x for x in nested[0].body if not isinstance(x, (ast.Nonlocal, ast.Global)) and not (isinstance(x, ast.Expr) and isinstance(x.value, ast.Constant))]
        if any(isinstance(x, (ast.If, ast.For, ast.While, ast.Try, ast.With, ast.FunctionDef)) for x in body) or any(isinstance(x, ast.Return) for x in body[:-1]):
            return None
        declared = {n0 for x in nested[0].body if isinstance(x, ast.Nonlocal) for n0 in x.names}
        own = {n.id for x in body for n in ast.walk(x) if isinstance(n, ast.Name) and isinstance(n.ctx, ast.Store)} - declared
        if own & (self.locals - {n.id for x in nested[0].body for n in ast.walk(x) if isinstance(n, ast.Name)}):
            return None
        out = [copy.deepcopy(x) for x in body if not isinstance(x, ast.Return)]
        ret = body[-1] if body and isinstance(body[-1], ast.Return) else None
        if tgt is not None:
            out.append(ast.copy_location(ast.Assign(targets=[ast.Name(id=tgt, ctx=ast.Store())], value=copy.deepcopy(ret.value) if ret is not None and ret.value is not None else ast.Constant(None)), st))
        return [ast.fix_missing_locations(ast.copy_location(x, st)) for x in out] or [ast.copy_location(ast.Pass(), st)]

    def _dispatch_methods(self, st: ast.stmt) -> T.Optional[T.List[ast.stmt]]:
        """`return p.M(args)` where p is a parameter and M is defined by several classes of this module (polymorphic dispatch): the isinstance
        chain it stands for, most derived classes first, each arm the method body with self bound to p (tail position)."""
        if not (isinstance(st, ast.Return) and isinstance(st.value, ast.Call) and isinstance(st.value.func, ast.Attribute) and isinstance(st.value.func.value, ast.Name)):
            return None
        p, m = st.value.func.value.id, st.value.func.attr
        if p not in {a.arg for a in self.root.args.args} or self.depth > 0:
            return None
        owners = [(q, k) for q, k in self.mod.classes().items() if any(isinstance(x, ast.FunctionDef) and x.name == m for x in k.body)]
        if len(owners) < 2:
            return None

        def depth(k: ast.ClassDef) -> int:
            d, cur = 0, k
            while cur.bases and self.mod.has_cls(attr_chain(cur.bases[0]) or ''):
                cur = self.mod.cls(attr_chain(cur.bases[0]) or '')
                d += 1
                if d > 10:
                    break
            return d
        chain: T.List[ast.stmt] = []
        for q, k in sorted(owners, key=lambda qk: depth(qk[1])):      # least derived first -> ends up innermost (last tested)
            meth = [x for x in k.body if isinstance(x, ast.FunctionDef) and x.name == m][0]
            if meth.decorator_list or any(isinstance(n, (ast.Yield, ast.YieldFrom, ast.FunctionDef, ast.Lambda)) for x in meth.body for n in ast.walk(x)):
                return None
            try:
                bound = bind_call(st.value, meth)
            except Undecided:
                return None
            if not all(isinstance(a, ast.Name) for a in bound.values()):
                return None
            names: T.Dict[str, ast.AST] = dict(bound)
            names[meth.args.args[0].arg] = ast.Name(id=p, ctx=ast.Load())
            body = [_Rename(names).visit(copy.deepcopy(x)) for x in meth.body if not (isinstance(x, ast.Expr) and isinstance(x.value, ast.Constant))]
            if not body or not isinstance(body[-1], (ast.Return, ast.Raise)):
                body.append(ast.Return(value=ast.Constant(None)))
            test = ast.Call(func=ast.Name(id='isinstance', ctx=ast.Load()), args=[ast.Name(id=p, ctx=ast.Load()), ast.Name(id=q, ctx=ast.Load())], keywords=[])
            chain = [ast.If(test=test, body=body, orelse=chain)]
        return [ast.fix_missing_locations(ast.copy_location(x, st)) for x in chain]

    def _inline_tail_call(self, st: ast.stmt) -> T.Optional[T.List[ast.stmt]]:
        """`return H(args)` with H a module-level function: H's body in place (its returns are the caller's returns).  The caller's locals are
        dead after a tail call, so H's locals need no renaming; an argument that is not a plain name is bound to a fresh local first."""
        if not (isinstance(st, ast.Return) and isinstance(st.value, ast.Call) and isinstance(st.value.func, ast.Name)):
            return None
        call = st.value
        if call.func.id in self.locals or not self.mod.has_func(call.func.id) or call.func.id == getattr(self.root, 'name', None) or self.depth > 1:
            return None
        h = self.mod.func(call.func.id)
        hbody = [x for x in h.body if not (isinstance(x, ast.Expr) and isinstance(x.value, ast.Constant))]
        if any(isinstance(n, (ast.Yield, ast.YieldFrom, ast.FunctionDef, ast.Lambda, ast.Global, ast.Nonlocal, ast.ClassDef)) for x in hbody for n in ast.walk(x)) or h.decorator_list:
            return None
        # only helpers private to this function (a per-construct helper of a dispatcher): a function with other callers is an anchor of its own
        me = getattr(self.root, 'name', None)
        others = {q.split('.')[0] for q, f in self.mod.funcs().items() if q.split('.')[0] not in (me, h.name)
                  and any(isinstance(c, ast.Call) and isinstance(c.func, ast.Name) and c.func.id == h.name for c in ast.walk(f))}
        if others:
            return None
        if any(isinstance(n, ast.Call) and isinstance(n.func, ast.Name) and n.func.id == h.name for x in hbody for n in ast.walk(x)):
            return None
        try:
            bound = bind_call(call, h)     # type: ignore[arg-type]
        except Undecided:
            return None
        pre: T.List[ast.stmt] = []
        names: T.Dict[str, ast.AST] = {}
        for pn, a in bound.items():
            if isinstance(a, ast.Name):
                names[pn] = a
            else:
                tmp = f'{h.name}__{pn}'
                pre.append(ast.copy_location(ast.Assign(targets=[ast.Name(id=tmp, ctx=ast.Store())], value=a), st))
                names[pn] = ast.Name(id=tmp, ctx=ast.Load())
        body = [_Rename(names).visit(x) for x in copy.deepcopy(hbody)]
        if not body or not isinstance(body[-1], (ast.Return, ast.Raise)):
            body.append(ast.copy_location(ast.Return(value=ast.Constant(None)), st))
        return [ast.fix_missing_locations(x) for x in pre + body]

    def _block(self, body: T.List[ast.stmt]) -> T.List[ast.stmt]:
        expanded: T.List[ast.stmt] = []
        for st in body:
            if isinstance(st, ast.For):
                st = self._demap(st)
            rep_ = self._unroll(st) if isinstance(st, ast.For) else (self._inline_closure(st) or self._dispatch_methods(st) or self._inline_tail_call(st) or self._inline_returns(st))
            if rep_ is not None:
                self.depth += 1
                sub = _NormalForm(self.mod, self.root, self.cls)     # normalise the inserted code as well
                sub.root, sub.depth, sub.locals = self.root, self.depth, self.locals | {n.id for x in rep_ for n in ast.walk(x) if isinstance(n, ast.Name) and isinstance(n.ctx, ast.Store)}
                wrapper = ast.Module(body=rep_, type_ignores=[])
                sub.visit(wrapper)
                expanded.extend(wrapper.body)
                self.depth -= 1
            else:
                expanded.append(st)
        body = expanded
        out: T.List[ast.stmt] = []
        for st in body:
            # walrus in a test
            if isinstance(st, (ast.If, ast.While)) and not isinstance(st, ast.While):
                t = st.test
                first = t.values[0] if isinstance(t, ast.BoolOp) else t
                neg = isinstance(first, ast.UnaryOp) and isinstance(first.op, ast.Not)
                core = first.operand if neg else first     # type: ignore[union-attr]
                if isinstance(core, ast.NamedExpr) and isinstance(core.target, ast.Name):
                    out.append(ast.copy_location(ast.Assign(targets=[ast.Name(id=core.target.id, ctx=ast.Store())], value=core.value), st))
                    repl: ast.expr = ast.Name(id=core.target.id, ctx=ast.Load())
                    if neg:
                        repl = ast.UnaryOp(op=ast.Not(), operand=repl)
                    if isinstance(t, ast.BoolOp):
                        t.values[0] = repl
                    else:
                        st.test = repl
            out.append(st)
        # boolean local used once, in the test that follows
        i = 0
        while i + 1 < len(out):
            a, b = out[i], out[i + 1]
            if isinstance(a, ast.Assign) and len(a.targets) == 1 and isinstance(a.targets[0], ast.Name) and isinstance(a.value, (ast.BoolOp, ast.Compare, ast.UnaryOp)) \
                    and isinstance(b, (ast.If, ast.Return)):
                name = a.targets[0].id
                uses = [n for n in ast.walk(self.root) if isinstance(n, ast.Name) and n.id == name]
                site = b.test if isinstance(b, ast.If) else b.value
                here = [n for n in ast.walk(site) if isinstance(n, ast.Name) and n.id == name] if site is not None else []
                if len(uses) == 2 and len(here) == 1:
                    new = _Rename({name: a.value}).visit(site)
                    if isinstance(b, ast.If):
                        b.test = new
                    else:
                        b.value = new
                    del out[i]
                    continue
            i += 1
        return out

    def generic_visit(self, node: ast.AST) -> ast.AST:
        super().generic_visit(node)
        for fld in ('body', 'orelse', 'finalbody'):
            v = getattr(node, fld, None)
            if isinstance(v, list) and v and isinstance(v[0], ast.stmt):
                setattr(node, fld, self._block(v))
        return node


def _tail_position(body: T.List[ast.stmt], target: ast.stmt) -> bool:
    """True when `target` is in tail position of `body`: no statement of `body` can run after it (it is the last statement of its block,
    and every enclosing block up to `body` is the last statement of an if / elif chain in tail position)."""
    if not body:
        return False
    last = body[-1]
    if last is target:
        return True
    if isinstance(last, ast.If):
        return _tail_position(last.body, target) or _tail_position(last.orelse, target)
    return False


class _BreakToFlag(ast.NodeTransformer):
    """Inside the body of a loop that becomes the `if FLAG:` arm of its outer loop: `break` -> `FLAG = False; continue`."""

    def __init__(self, flag: str):
        self.flag = flag

    def visit_Break(self, n: ast.Break) -> T.Any:
        return [ast.copy_location(ast.Assign(targets=[ast.Name(id=self.flag, ctx=ast.Store())], value=ast.Constant(False)), n), ast.copy_location(ast.Continue(), n)]

    def visit_For(self, n: ast.For) -> ast.AST:
        return n     # a break of a nested loop belongs to that loop

    def visit_While(self, n: ast.While) -> ast.AST:
        return n


def _shared_iterator_to_flag(fn: ast.FunctionDef) -> ast.FunctionDef:
    """Normal form for "nested consumption of a shared iterator" (state flag <-> inner loop over the SAME iterator object):

        IT = E                                   FLAG = False
        for T in IT:                             for T in E:
            ...                                      if FLAG:
                for T2 in IT:         <->                B2[T2 := T; break := FLAG = False; continue]
                    B2                                   continue
                                                     ...
                                                         FLAG = True

    Sound when IT is bound once and only iterated by these two loops, the inner loop has no else and stands in tail position of the outer
    body (nothing of the outer iteration runs after it), the two targets have the same shape, the inner names are not read outside the inner
    loop and the outer names not inside it.  Exhausting IT inside ends the outer loop too - as the flag form does at the end of the input.
    Anything else is left as written."""
    for k, st in enumerate(fn.body):
        if not (isinstance(st, ast.Assign) and len(st.targets) == 1 and isinstance(st.targets[0], ast.Name) and isinstance(st.value, ast.Call)):
            continue
        it = st.targets[0].id
        uses = [n for n in ast.walk(fn) if isinstance(n, ast.Name) and n.id == it and n is not st.targets[0]]
        outer = [x for x in fn.body[k + 1:] if isinstance(x, ast.For) and isinstance(x.iter, ast.Name) and x.iter.id == it]
        if len(outer) != 1 or outer[0].orelse:
            continue
        o = outer[0]
        inner = [x for x in ast.walk(o) if isinstance(x, ast.For) and x is not o and isinstance(x.iter, ast.Name) and x.iter.id == it]
        if len(inner) != 1 or len(uses) != 2 or inner[0].orelse or not _tail_position(o.body, inner[0]):
            continue
        i = inner[0]
        names = lambda t: [x.id for x in ast.walk(t) if isinstance(x, ast.Name)]     # noqa: E731
        if ast.dump(_Rename({a: ast.Name(id=b, ctx=ast.Load()) for a, b in zip(names(i.target), names(o.target))}).visit(copy.deepcopy(i.target))) != ast.dump(o.target) \
                or len(set(names(i.target))) != len(names(i.target)) or len(names(i.target)) != len(names(o.target)):
            continue
        inside = {id(n) for n in ast.walk(i)}
        if any(isinstance(n, ast.Name) and n.id in names(i.target) and id(n) not in inside for n in ast.walk(fn)) and names(i.target) != names(o.target):
            continue     # an inner name is read outside the inner loop
        if any(isinstance(n, ast.Name) and n.id in names(o.target) and n.id not in names(i.target) for b in i.body for n in ast.walk(b)):
            continue     # the inner body reads the outer loop variables (stale values)
        if any(isinstance(n, (ast.Return, ast.FunctionDef, ast.Lambda)) for b in i.body for n in ast.walk(b)):
            continue
        flag = f'{it}__inside'
        ren = {a: ast.Name(id=b, ctx=ast.Load()) for a, b in zip(names(i.target), names(o.target))}
        arm: T.List[ast.stmt] = []
        for b in copy.deepcopy(i.body):
            r = _BreakToFlag(flag).visit(_Rename(ren).visit(b))
            arm.extend(r if isinstance(r, list) else [r])
        arm.append(ast.Continue())
        setf = ast.copy_location(ast.Assign(targets=[ast.Name(id=flag, ctx=ast.Store())], value=ast.Constant(True)), i)

        class Swap(ast.NodeTransformer):
            def visit_For(self, n: ast.For) -> ast.AST:
                if n is i:
                    return setf
                self.generic_visit(n)
                return n
        o2 = Swap().visit(o)
        o2.iter = st.value
        o2.body = [ast.copy_location(ast.If(test=ast.Name(id=flag, ctx=ast.Load()), body=arm, orelse=[]), o)] + list(o2.body)
        fn.body[k] = ast.copy_location(ast.Assign(targets=[ast.Name(id=flag, ctx=ast.Store())], value=ast.Constant(False)), st)
        ast.fix_missing_locations(fn)
        return fn
    return fn


class _SelfAttrs(ast.NodeTransformer):
    """Inside a method of a method object: `self.X` -> the local / parameter that stands for the attribute, `self.H(args)` -> `H(args)`,
    the recursive entry `self.M()` -> the wrapper call.  A bare `self` that remains makes the reading fail."""

    def __init__(self, me: str, attr_as: T.Dict[str, ast.AST], helpers: T.Set[str], entry: str, wrapper_call: ast.Call):
        self.me, self.attr_as, self.helpers, self.entry, self.wrapper_call = me, attr_as, helpers, entry, wrapper_call
        self.bad = False

    def visit_Call(self, c: ast.Call) -> ast.AST:
        if isinstance(c.func, ast.Attribute) and isinstance(c.func.value, ast.Name) and c.func.value.id == self.me:
            if c.func.attr == self.entry and not c.args and not c.keywords:
                return ast.copy_location(copy.deepcopy(self.wrapper_call), c)
            if c.func.attr in self.helpers:
                c.args = [self.visit(a) for a in c.args]
                c.keywords = [ast.keyword(arg=k.arg, value=self.visit(k.value)) for k in c.keywords]
                c.func = ast.copy_location(ast.Name(id=c.func.attr, ctx=ast.Load()), c.func)
                return c
        self.generic_visit(c)
        return c

    def visit_Attribute(self, n: ast.Attribute) -> ast.AST:
        if isinstance(n.value, ast.Name) and n.value.id == self.me:
            if n.attr in self.attr_as:
                r = copy.deepcopy(self.attr_as[n.attr])
                if isinstance(r, ast.Name):
                    r.ctx = n.ctx
                elif not isinstance(n.ctx, ast.Load):
                    self.bad = True
                return ast.copy_location(r, n)
            self.bad = True
            return n
        self.generic_visit(n)
        return n

    def visit_Name(self, n: ast.Name) -> ast.AST:
        if n.id == self.me:
            self.bad = True
        return n


def _method_object_to_function(mod: Module, fn: ast.FunctionDef) -> T.Optional[ast.FunctionDef]:
    """Normal form for "replace function by method object" (a function with closures <-> a private class whose instance holds the former
    locals):  `def f(a): return K(a).M()`  with K a plain class of this module  ->  `def f(a):` + one closure per helper method (`nonlocal`
    for the attributes it writes) + the body of M, where attributes bound once by __init__ to a constructor argument are that argument,
    written attributes are locals, `self.H(..)` is `H(..)` and the recursion `self.M()` is `f(a)`.
    Instance attributes are shared between recursion levels, locals are not: the reading is taken only if, after every recursive call, every
    written attribute is written again before it is read (CFG: no read reachable from the call without passing a helper that rewrites all
    of them).  Returns None when the function is not of this shape (it is then read as written)."""
    body = [x for x in fn.body if not (isinstance(x, ast.Expr) and isinstance(x.value, ast.Constant))]
    if not (len(body) == 1 and isinstance(body[0], ast.Return) and isinstance(body[0].value, ast.Call)):
        return None
    call = body[0].value
    if not (isinstance(call.func, ast.Attribute) and isinstance(call.func.value, ast.Call) and isinstance(call.func.value.func, ast.Name) and not call.args and not call.keywords):
        return None
    ctor = call.func.value
    kname, entry = ctor.func.id, call.func.attr     # type: ignore[attr-defined]
    if not mod.has_cls(kname):
        return None
    k = mod.cls(kname)
    if k.decorator_list or any(norm(b) != 'object' for b in k.bases) or k.keywords:
        return None
    meths = {x.name: x for x in k.body if isinstance(x, ast.FunctionDef)}
    if any(not (isinstance(x, ast.FunctionDef) or (isinstance(x, ast.Expr) and isinstance(x.value, ast.Constant)) or (isinstance(x, ast.AnnAssign) and x.value is None)) for x in k.body):
        return None
    if '__init__' not in meths or entry not in meths or any(m.decorator_list or m.args.vararg or m.args.kwarg or not m.args.args for m in meths.values()):
        return None
    if len(meths[entry].args.args) != 1 or any(n.startswith('__') and n != '__init__' for n in meths):
        return None
    init = meths['__init__']
    try:
        bound = bind_call(ast.Call(func=ast.Attribute(value=ast.Name(id='x', ctx=ast.Load()), attr='__init__', ctx=ast.Load()), args=ctor.args, keywords=ctor.keywords), init)
    except Undecided:
        return None
    me0 = init.args.args[0].arg
    attr_init: T.Dict[str, ast.AST] = {}
    for st in init.body:
        if isinstance(st, ast.Expr) and isinstance(st.value, ast.Constant):
            continue
        tgt = st.targets[0] if isinstance(st, ast.Assign) and len(st.targets) == 1 else st.target if isinstance(st, ast.AnnAssign) and st.value is not None else None
        if not (isinstance(tgt, ast.Attribute) and isinstance(tgt.value, ast.Name) and tgt.value.id == me0 and tgt.attr not in attr_init):
            return None
        v = st.value     # type: ignore[union-attr]
        if isinstance(v, ast.Name) and v.id in bound and isinstance(bound[v.id], (ast.Name, ast.Constant)):
            attr_init[tgt.attr] = bound[v.id]
        elif isinstance(v, ast.Constant):
            attr_init[tgt.attr] = v
        else:
            return None
    others = {n: m for n, m in meths.items() if n != '__init__'}
    written = {t.attr for m in others.values() for t in ast.walk(m) if isinstance(t, ast.Attribute) and isinstance(t.ctx, (ast.Store, ast.Del))
               and isinstance(t.value, ast.Name) and t.value.id == m.args.args[0].arg}
    if not written <= set(attr_init):
        return None
    helpers = set(others) - {entry}
    mlocals = {n.id for m in others.values() for n in ast.walk(m) if isinstance(n, ast.Name) and isinstance(n.ctx, ast.Store)} | \
        {a.arg for m in others.values() for a in m.args.args[1:]} | {a.arg for a in fn.args.args}
    if (written | helpers) & mlocals or (written & helpers) or fn.name in mlocals | written | helpers:
        return None
    attr_as: T.Dict[str, ast.AST] = {}
    for x, v in attr_init.items():
        attr_as[x] = ast.Name(id=x, ctx=ast.Load()) if x in written else v
    # recursion happens in the entry method only, and written attributes are dead after it
    E = meths[entry]
    me = E.args.args[0].arg
    is_rec = lambda c, who=me: isinstance(c, ast.Call) and isinstance(c.func, ast.Attribute) and c.func.attr == entry and isinstance(c.func.value, ast.Name) and c.func.value.id == who     # noqa: E731
    if any(is_rec(c, h.args.args[0].arg) for n, h in others.items() if n != entry for c in ast.walk(h)):
        return None

    def rewrites_all(h: ast.FunctionDef) -> bool:
        """A straight-line helper whose first statement (re)binds every written attribute."""
        hb = [x for x in h.body if not (isinstance(x, ast.Expr) and isinstance(x.value, ast.Constant))]
        if not hb or not isinstance(hb[0], ast.Assign):
            return False
        sme = h.args.args[0].arg
        stored = {t.attr for t in ast.walk(hb[0].targets[0]) if isinstance(t, ast.Attribute) and isinstance(t.ctx, ast.Store) and isinstance(t.value, ast.Name) and t.value.id == sme}
        reads = {t.attr for t in ast.walk(hb[0].value) if isinstance(t, ast.Attribute) and isinstance(t.value, ast.Name) and t.value.id == sme}
        return written <= stored and not (reads & written)
    killers = {n for n, h in others.items() if n != entry and rewrites_all(h)}
    g = CFG(E)
    reads_w = lambda node: node is not None and any(isinstance(t, ast.Attribute) and isinstance(t.ctx, ast.Load) and t.attr in written and isinstance(t.value, ast.Name)     # noqa: E731
                                                      and t.value.id == me for t in ast.walk(node))
    calls_helper = lambda node, names: node is not None and any(isinstance(c, ast.Call) and isinstance(c.func, ast.Attribute) and c.func.attr in names     # noqa: E731
                                                                 and isinstance(c.func.value, ast.Name) and c.func.value.id == me for c in ast.walk(node))
    kill_nodes = [n for n in g.nodes if n.kind == 'stmt' and calls_helper(n.ast, killers) and not reads_w(n.ast)]
    rec_nodes = g.nodes_with_call(is_rec)
    readers = {n.id for n in g.nodes if reads_w(n.expr()) or calls_helper(n.expr(), helpers - killers)}
    for rn in rec_nodes:
        if reads_w(rn.expr()) or calls_helper(rn.expr(), helpers):
            return None     # the statement of the recursive call itself also touches the shared attributes
        if g.reachable([rn], kill_nodes) & readers:
            return None
    # build the function
    wrapper_call = ast.Call(func=ast.Name(id=fn.name, ctx=ast.Load()), args=[copy.deepcopy(a) for a in ctor.args], keywords=[copy.deepcopy(kw) for kw in ctor.keywords])
    new_body: T.List[ast.stmt] = []
    first_kills = bool(E.body) and any(calls_helper(x, killers) and not reads_w(x) for x in [y for y in E.body if not (isinstance(y, ast.Expr) and isinstance(y.value, ast.Constant))][:1])
    if not first_kills:
        for x in sorted(written):
            new_body.append(ast.Assign(targets=[ast.Name(id=x, ctx=ast.Store())], value=copy.deepcopy(attr_init[x])))
    for n, h in others.items():
        if n == entry:
            continue
        h2 = copy.deepcopy(h)
        t = _SelfAttrs(h2.args.args[0].arg, attr_as, helpers, entry, wrapper_call)
        h2.body = [t.visit(x) for x in h2.body]
        if t.bad:
            return None
        wr = sorted({x.id for b in h2.body for x in ast.walk(b) if isinstance(x, ast.Name) and isinstance(x.ctx, ast.Store) and x.id in written})
        if wr:
            doc = 1 if h2.body and isinstance(h2.body[0], ast.Expr) and isinstance(h2.body[0].value, ast.Constant) else 0
            h2.body.insert(doc, ast.Nonlocal(names=wr))
        h2.args.args = h2.args.args[1:]
        new_body.append(h2)
    e2 = copy.deepcopy(E)
    t = _SelfAttrs(me, attr_as, helpers, entry, wrapper_call)
    ebody = [t.visit(x) for x in e2.body]
    if t.bad:
        return None
    out = copy.deepcopy(fn)
    out.body = new_body + ebody
    for n0 in ast.walk(out):
        if not hasattr(n0, 'lineno') and isinstance(n0, (ast.stmt, ast.expr)):
            ast.copy_location(n0, E)
    return ast.fix_missing_locations(out)


def _singledispatch_to_chain(mod: Module, fn: ast.FunctionDef) -> T.Optional[ast.FunctionDef]:
    """Normal form for a `functools.singledispatch` generic function (closed-world reading of the module):
        @singledispatch
        def f(a, ..): DEFAULT                          def f(a, ..):
        @f.register(K1)                         ->         if isinstance(a, K1): BODY1[a1 := a, ..]
        def _(a1, ..): BODY1                               elif isinstance(a, K2): ..
        ..                                                 else: DEFAULT
    Dispatch picks the overload of the nearest class in type(a).__mro__, so the arms are ordered subclasses before their bases (classes of
    this module; a registered class that is not a single-inheritance class of this module, a class registered twice, a registration outside
    module level or by a call `f.register(K, g)`, defaults/varargs or a rebinding of a parameter name used by the default make the reading
    fail -> Undecided).  Returns None when `fn` is not decorated with singledispatch (it is then read as written)."""
    decos = [attr_chain(d) for d in fn.decorator_list]
    if not any(d in ('functools.singledispatch', 'singledispatch') for d in decos):
        return None
    me = fn.name
    if len(fn.decorator_list) != 1 or fn.args.vararg or fn.args.kwarg or fn.args.kwonlyargs or fn.args.posonlyargs or not fn.args.args:
        raise Undecided(f'{me}: singledispatch function with a signature this rule does not read')
    # every mention of `f.register` / `f.dispatch` / `f.registry` in the module must be a module-level decorator
    overloads: T.List[T.Tuple[str, ast.FunctionDef]] = []
    deco_nodes: T.Set[int] = set()
    for st in mod.tree.body:
        if not isinstance(st, ast.FunctionDef) or st is fn:
            continue
        for d in st.decorator_list:
            target = d.func if isinstance(d, ast.Call) else d
            if not (isinstance(target, ast.Attribute) and isinstance(target.value, ast.Name) and target.value.id == me):
                continue
            if target.attr != 'register' or len(st.decorator_list) != 1:
                raise Undecided(f'{me}: overload {st.name} is decorated in a way this rule does not read')
            if isinstance(d, ast.Call):
                if len(d.args) != 1 or d.keywords or not isinstance(d.args[0], ast.Name):
                    raise Undecided(f'{me}: registration {short(d)} is not for one named class')
                kname = d.args[0].id
            else:
                ann = st.args.args[0].annotation if st.args.args else None
                if isinstance(ann, ast.Constant) and isinstance(ann.value, str):
                    ann = expr_of(ann.value)
                if not isinstance(ann, ast.Name):
                    raise Undecided(f'{me}: overload {st.name} is registered by an annotation this rule does not read')
                kname = ann.id
            deco_nodes.update(id(x) for x in ast.walk(d))
            overloads.append((kname, st))
    for n in ast.walk(mod.tree):
        if isinstance(n, ast.Attribute) and isinstance(n.value, ast.Name) and n.value.id == me and id(n) not in deco_nodes:
            raise Undecided(f'{me}: `{short(n)}` is used outside a module-level registration decorator')
        if isinstance(n, (ast.Assign, ast.AugAssign, ast.AnnAssign, ast.Delete, ast.Global)) and any(isinstance(x, ast.Name) and x.id == me and isinstance(x.ctx, (ast.Store, ast.Del)) for x in ast.walk(n)):
            raise Undecided(f'{me}: the generic function is rebound')
    if not overloads:
        raise Undecided(f'{me}: singledispatch function without overloads in this module')
    names = [k for k, _ in overloads]
    if len(set(names)) != len(names):
        raise Undecided(f'{me}: a class is registered twice')

    def ancestors(k: str) -> T.List[str]:
        out: T.List[str] = []
        cur = k
        for _ in range(20):
            if not mod.has_cls(cur):
                raise Undecided(f'{me}: registered class {cur} is not a class of this module')
            c = mod.cls(cur)
            if c.keywords or len(c.bases) > 1:
                raise Undecided(f'{me}: registered class {cur} has more than one base or a metaclass')
            if not c.bases or norm(c.bases[0]) == 'object':
                return out
            if not isinstance(c.bases[0], ast.Name):
                raise Undecided(f'{me}: base {short(c.bases[0])} of {cur}')
            cur = c.bases[0].id
            out.append(cur)
        raise Undecided(f'{me}: class chain of {k} too deep')
    anc = {k: ancestors(k) for k in names}
    # subclasses first: sort by depth, deepest first (stable), which puts every class before each of its ancestors
    order = sorted(overloads, key=lambda kv: -len(anc[kv[0]]))
    params = [a.arg for a in fn.args.args]
    chain: T.List[ast.stmt] = copy.deepcopy([x for x in fn.body])
    for kname, ov in reversed(order):
        a = ov.args
        if a.vararg or a.kwarg or a.kwonlyargs or a.posonlyargs or a.defaults or len(a.args) != len(params):
            raise Undecided(f'{me}: overload {ov.name} has a signature different from the generic function')
        ren = {x.arg: p for x, p in zip(a.args, params) if x.arg != p}
        body = copy.deepcopy(ov.body)
        bound = {n.id for b in body for n in ast.walk(b) if isinstance(n, ast.Name)} | {x.name for b in body for x in ast.walk(b) if isinstance(x, (ast.FunctionDef, ast.Lambda)) and hasattr(x, 'name')}
        if any(isinstance(x, (ast.FunctionDef, ast.Lambda, ast.Global, ast.Nonlocal)) for b in body for x in ast.walk(b)) or (set(ren.values()) & (bound - set(ren))):
            raise Undecided(f'{me}: overload {ov.name} cannot be renamed onto the parameters of the generic function')
        if ren:
            class _R(ast.NodeTransformer):
                def visit_Name(self, n: ast.Name) -> ast.AST:
                    return ast.copy_location(ast.Name(id=ren[n.id], ctx=n.ctx), n) if n.id in ren else n
            body = [_R().visit(b) for b in body]
        # recursion through the overload's own name is not dispatch: leave it (it will be unreadable downstream), calls of `me` stay as they are
        test = ast.Call(func=ast.Name(id='isinstance', ctx=ast.Load()), args=[ast.Name(id=params[0], ctx=ast.Load()), ast.Name(id=kname, ctx=ast.Load())], keywords=[])
        chain = [ast.copy_location(ast.If(test=test, body=body, orelse=chain), ov)]
    out = copy.deepcopy(fn)
    out.decorator_list = []
    out.body = chain
    for n0 in ast.walk(out):
        if not hasattr(n0, 'lineno') and isinstance(n0, (ast.stmt, ast.expr)):
            ast.copy_location(n0, fn)
    return ast.fix_missing_locations(out)


_NF_CACHE: T.Dict[T.Tuple[str, str], ast.FunctionDef] = {}


def nf(mod: Module, q: str) -> ast.FunctionDef:
    """The anchored function in normal form (cached per module digest)."""
    key = (mod.digest + mod.rel, q)
    if key not in _NF_CACHE:
        fn = copy.deepcopy(mod.func(q))
        if '.' not in q:
            fn = _singledispatch_to_chain(mod, fn) or fn     # type: ignore[arg-type]
            fn = _method_object_to_function(mod, fn) or fn     # type: ignore[arg-type]
        t = _NormalForm(mod, fn, q.split('.')[0] if '.' in q else None)     # type: ignore[arg-type]
        t.root = fn     # type: ignore[attr-defined]
        _NF_CACHE[key] = _shared_iterator_to_flag(ast.fix_missing_locations(t.visit(fn)))
    return _NF_CACHE[key]


# =====================================================================================================
# R1a  split(): prefix chain
# =====================================================================================================

def _folded(ctx: RuleCtx, mod: Module, e: ast.AST) -> T.Any:
    """A literal, or a module-level constant (table) folded from source; raises Undecided otherwise."""
    if is_const(e):
        return const_of(e)
    if isinstance(e, (ast.Name, ast.Attribute)):
        return fold_expr(ctx.repo, mod, e)
    raise Undecided(f'not a constant: {short(e)}')


def _is_folded(ctx: RuleCtx, mod: Module, e: ast.AST) -> bool:
    try:
        _folded(ctx, mod, e)
        return True
    except Undecided:
        return False


def _finite_language(pattern: str, flags: int = 0) -> T.Optional[T.List[str]]:
    """The strings of a regex whose language is finite and quantifier-free (literals, small positive character classes, alternations, groups),
    in the priority order a backtracking matcher tries them; None for any other pattern.  A regex-language fact (sa.rx parse tree)."""
    sre_c = rx.sre_c

    def seqs(items: T.Any) -> T.Optional[T.List[str]]:
        res = ['']
        for op, av in items:
            alts: T.Optional[T.List[str]]
            if op is sre_c.LITERAL:
                alts = [chr(av)]
            elif op is sre_c.IN:
                alts = []
                for o2, a2 in av:
                    if o2 is sre_c.LITERAL:
                        alts.append(chr(a2))
                    elif o2 is sre_c.RANGE and a2[1] - a2[0] < 64:
                        alts.extend(chr(c) for c in range(a2[0], a2[1] + 1))
                    else:
                        return None     # negated class / category: not a finite table of prefixes
            elif op is sre_c.BRANCH:
                alts = []
                for b in av[1]:
                    sb = seqs(b)
                    if sb is None:
                        return None
                    alts.extend(sb)
            elif op is sre_c.SUBPATTERN:
                alts = seqs(av[3])
            elif op is sre_c.AT and str(av) in ('AT_BEGINNING', 'AT_BEGINNING_STRING'):
                alts = ['']
            else:
                return None
            if alts is None:
                return None
            res = [r + x for r in res for x in alts]
            if len(res) > 256:
                return None
        return res
    if flags & ~_re.UNICODE:
        return None
    return seqs(rx.parse(pattern, flags))


def _prefix_match_call(ctx: RuleCtx, mod: Module, e: ast.AST, var: str) -> T.Optional[T.List[str]]:
    """`RE.match(var)` / `re.match(PATTERN, var)` with a constant finite-language pattern (catalogue B3: prefix probing by startswith <-> one
    anchored regex): the pattern's strings in priority order - the match is the first of them that is a prefix of the text."""
    if not (isinstance(e, ast.Call) and isinstance(e.func, ast.Attribute) and e.func.attr == 'match' and not e.keywords):
        return None
    try:
        if norm(e.func.value) == 're' and len(e.args) == 2 and norm(e.args[1]) == var and is_const(e.args[0]) and isinstance(const_of(e.args[0]), str):
            return _finite_language(const_of(e.args[0]))
        if len(e.args) == 1 and norm(e.args[0]) == var:
            r = _folded(ctx, mod, e.func.value)
            if isinstance(r, Regex):
                return _finite_language(r.pattern, r.flags)
    except Undecided:
        return None
    return None


class _MatchDenote(ast.NodeTransformer):
    """For one class of texts (the match has length k): `M.group()` / `M.group(0)` / `M[0]` -> var[0:k], `M.end()` -> k, `M.start()` -> 0,
    `M.span()` -> (0, k), `len(var[0:k])` -> k, where M is the recognised prefix-match call on var."""

    def __init__(self, is_match: T.Callable[[ast.AST], bool], var: str, k: T.Optional[int]):
        self.is_match, self.var, self.k = is_match, var, k
        self.unmatched_use = False

    def _head(self) -> ast.AST:
        return ast.Subscript(value=ast.Name(id=self.var, ctx=ast.Load()), slice=ast.Slice(lower=ast.Constant(0), upper=ast.Constant(self.k), step=None), ctx=ast.Load())

    def visit_Call(self, c: ast.Call) -> ast.AST:
        self.generic_visit(c)
        if isinstance(c.func, ast.Attribute) and self.is_match(c.func.value) and not c.keywords and (not c.args or (len(c.args) == 1 and isinstance(c.args[0], ast.Constant) and c.args[0].value == 0)):
            if self.k is None:
                self.unmatched_use = True
                return c
            if c.func.attr == 'group':
                return self._head()
            if c.func.attr == 'end':
                return ast.Constant(self.k)
            if c.func.attr == 'start':
                return ast.Constant(0)
            if c.func.attr == 'span':
                return ast.Tuple(elts=[ast.Constant(0), ast.Constant(self.k)], ctx=ast.Load())
        if norm(c.func) == 'len' and len(c.args) == 1 and self.k is not None and norm(c.args[0]) == norm(self._head()):
            return ast.Constant(self.k)
        return c

    def visit_Subscript(self, n: ast.Subscript) -> ast.AST:
        self.generic_visit(n)
        if self.is_match(n.value) and isinstance(n.slice, ast.Constant) and n.slice.value == 0:
            if self.k is None:
                self.unmatched_use = True
                return n
            return self._head()
        if isinstance(n.value, ast.Tuple) and isinstance(n.slice, ast.Constant) and isinstance(n.slice.value, int) and not isinstance(n.slice.value, bool) \
                and -len(n.value.elts) <= n.slice.value < len(n.value.elts) and all(isinstance(x, ast.Constant) for x in n.value.elts):
            return n.value.elts[n.slice.value]     # (0, k)[1]
        return n


def _text_atom(ctx: RuleCtx, mod: Module, a: Atom, var: str) -> T.Tuple[T.Callable[[str], bool], T.List[str]]:
    """Truth of an atom of split()'s loop body for a *class of requirement texts* given by a representative,
    and the string constants the atom mentions (module-level constant tables are folded)."""
    def strs(c: T.Any) -> T.List[str]:
        return [c] if isinstance(c, str) else [x for x in c if isinstance(x, str)]
    if a.kind == 'cmp' and a.args[0] == 'eq' and a.args[1] == var and _is_folded(ctx, mod, expr_of(a.args[2])):
        c = _folded(ctx, mod, expr_of(a.args[2]))
        return (lambda t: t == c), []
    if a.kind == 'truth' or (a.kind == 'is' and a.args[1] == 'None'):
        lang = _prefix_match_call(ctx, mod, expr_of(a.args[0]), var)
        if lang is not None:
            if '' in lang:
                raise Undecided(f'split: the pattern of {a.args[0]} matches the empty text')
            if a.kind == 'truth':
                return (lambda t: any(t.startswith(x) for x in lang)), list(lang)
            return (lambda t: not any(t.startswith(x) for x in lang)), list(lang)
    if a.kind == 'truth':
        e = expr_of(a.args[0])
        if isinstance(e, ast.Call) and isinstance(e.func, ast.Attribute) and norm(e.func.value) == var and len(e.args) == 1 and _is_folded(ctx, mod, e.args[0]):
            c = _folded(ctx, mod, e.args[0])
            if isinstance(c, list):
                c = tuple(c)
            if isinstance(c, (str, tuple)) and e.func.attr == 'startswith':
                return (lambda t: t.startswith(c)), strs(c)
            if isinstance(c, (str, tuple)) and e.func.attr == 'endswith':
                return (lambda t: t.endswith(c)), []
    if a.kind == 'in' and _is_folded(ctx, mod, expr_of(a.args[1])):
        k = _leading_len(expr_of(a.args[0]), var)
        cs = _folded(ctx, mod, expr_of(a.args[1]))
        if k is not None and isinstance(cs, (tuple, set, list, frozenset)):
            return (lambda t: t[:k] in cs), strs(cs)
        if a.args[0] == var and isinstance(cs, (tuple, set, list, frozenset)):
            return (lambda t: t in cs), []
    raise Undecided(f'split: atom outside the prefix/suffix vocabulary: {a!r}')


def _leading_len(e: ast.AST, var: str) -> T.Optional[int]:
    """k when e denotes the first k characters of `var` (var[0:k], var[:k], var[0])."""
    if isinstance(e, ast.Subscript) and norm(e.value) == var:
        s = e.slice
        if isinstance(s, ast.Slice) and s.step is None and (s.lower is None or (isinstance(s.lower, ast.Constant) and s.lower.value == 0)) \
                and isinstance(s.upper, ast.Constant) and isinstance(s.upper.value, int) and s.upper.value > 0:
            return s.upper.value
        if isinstance(s, ast.Constant) and s.value == 0:
            return 1
    return None


def _tail_from(e: ast.AST, var: str) -> T.Optional[int]:
    """k when e denotes var[k:]."""
    if isinstance(e, ast.Subscript) and norm(e.value) == var and isinstance(e.slice, ast.Slice) and e.slice.upper is None and e.slice.step is None \
            and isinstance(e.slice.lower, ast.Constant) and isinstance(e.slice.lower.value, int):
        return e.slice.lower.value
    return None


def _head_upto(e: ast.AST, var: str) -> T.Optional[int]:
    """k when e denotes var[:-k]."""
    if isinstance(e, ast.Subscript) and norm(e.value) == var and isinstance(e.slice, ast.Slice) and e.slice.step is None \
            and (e.slice.lower is None or (isinstance(e.slice.lower, ast.Constant) and e.slice.lower.value == 0)) and e.slice.upper is not None and is_const(e.slice.upper):
        u = const_of(e.slice.upper)
        if isinstance(u, int) and u < 0:
            return -u
    return None


def yields_of(stmts: T.Sequence[ast.stmt], opaque: T.Iterable[str]) -> T.List[ast.AST]:
    """Yielded expressions of a row with locals resolved (a pair bound to a name first is the pair)."""
    out: T.List[ast.AST] = []
    env: T.Dict[str, ast.AST] = {}
    for st in stmts:
        if isinstance(st, ast.Expr) and isinstance(st.value, ast.Yield) and st.value.value is not None:
            out.append(resolve(st.value.value, env))
        else:
            env, _ = propagate([st], env, opaque)
    return out


def r1_split(ctx: RuleCtx) -> None:
    mod = ctx.repo.module(VERSION)
    fn = nf(mod, 'split')
    loops = [s for s in fn.body if isinstance(s, ast.For)]
    if len(loops) != 1 or not isinstance(loops[0].target, ast.Name):
        raise Undecided('split: expected one loop over the comma separated parts')
    loop = loops[0]
    src = var = loop.target.id
    # the part may be stripped into a new local: `req = raw_req.strip()`
    if loop.body and isinstance(loop.body[0], ast.Assign) and isinstance(loop.body[0].targets[0], ast.Name) \
            and norm(strip_wrappers(loop.body[0].value, ('strip',))[0]) == src:
        var = loop.body[0].targets[0].id
    param = fn.args.args[0].arg
    it = loop.iter
    ok_iter = isinstance(it, ast.Call) and isinstance(it.func, ast.Attribute) and it.func.attr == 'split' and [norm(a) for a in it.args] == ["','"] \
        and not it.keywords and names_in(it.func.value) == {param}
    if not ok_iter and isinstance(it, ast.Call) and isinstance(it.func, ast.Attribute) and it.func.attr in ('split', 'rsplit') and names_in(it.func.value) == {param} \
            and len(it.args) <= 2 and all(k.arg in ('sep', 'maxsplit') for k in it.keywords) and all(is_const(a) for a in it.args) and all(is_const(k.value) for k in it.keywords):
        # str.split / str.rsplit with constant arguments (bound by the builtin's signature sep, maxsplit): every comma must cut, nothing else may
        bound_ = dict(zip(('sep', 'maxsplit'), (const_of(a) for a in it.args)))
        bound_.update({k.arg: const_of(k.value) for k in it.keywords if k.arg not in bound_})
        sep, mx = bound_.get('sep'), bound_.get('maxsplit', -1)
        if sep == ',' and isinstance(mx, int) and not isinstance(mx, bool) and mx < 0:
            ok_iter = True     # rsplit without a limit cuts at the same places
        else:
            why = (f'the separator is {sep!r}, not ",": a list written as ">=1.2.3,<1.4.7" is not cut at its comma' if sep != ','
                   else f'at most {mx} cut(s) are made: the comparators after that stay in one part')
            ctx.violation(mod, 'split', 'the requirement is cut at every comma', f'the parts are produced by `{short(it)}`; {why}, and the SemVer tokenizer reads only the first three '
                          f'numbers of a part, so the trailing comparators are silently ignored (cargo_parse(">=1.2.3,<1.4.7")("1.5.0") is True). Cargo: a comma list is the '
                          f'conjunction of all its comparators, white space around the comma is insignificant (the parts are stripped afterwards)', loop)
            return
    if not ok_iter:
        raise Undecided(f'split: the parts are produced by `{short(loop.iter)}`, not by <requirement>.split(\',\'): a form this rule does not read')
    ctx.ok('split: the requirement is cut at commas')
    tab = resolve_table(tables.extract(fn, body=loop.body, effects=eff, inline=False, name='split:loop'), opaque=[var, src])
    preds: T.Dict[Atom, T.Callable[[str], bool]] = {}
    # the prefixes the table itself tests, plus the documented operators
    heads: T.Set[str] = set(OPS) | {''}
    for a in tab.atoms():
        preds[a], consts = _text_atom(ctx, mod, a, var)
        heads |= set(consts)
    classes = ['*'] + [h + t for h in sorted(heads, key=lambda x: (len(x), x)) for t in ('1', '1.*')]
    ctx.floor('split: text classes (operator prefix x wildcard suffix)', len(classes), 19)
    for text in classes:
        world = {a: p(text) for a, p in preds.items()}
        rows = tab.fire(world)
        if len(rows) != 1:
            raise Undecided(f'split: {len(rows)} rows fire for a part like {text!r}')
        row = rows[0]
        stmts = stmts_of(row)
        node = row.path.events[-1].node if row.path.events else loop
        # the part is stripped before any test
        first = row.path.events[0] if row.path.events else None
        stripped = bool(stmts) and first is not None and first.kind == 'stmt' and isinstance(stmts[0], ast.Assign) and norm(stmts[0].targets[0]) == var \
            and norm(strip_wrappers(stmts[0].value, ('strip',))[0]) == src and strip_wrappers(stmts[0].value, ('strip',))[1] == ['strip']
        if not stripped:
            ctx.violation(mod, 'split', 'part is stripped before the operator tests', f'for a part like {text!r} the row does not start with `{var} = {src}.strip()`: '
                          f'"1.0, <2" would hand " <2" to the prefix tests', loop)
            continue
        for s0 in stmts[1:]:
            if not (isinstance(s0, (ast.Assign, ast.AnnAssign)) or (isinstance(s0, ast.Expr) and isinstance(s0.value, ast.Yield))):
                raise Undecided(f'split: the row for a part like {text!r} contains `{short(s0)}`, which may produce or change the result in a form this rule does not read')
        ys = yields_of(stmts[1:], [var, src])
        # a prefix match object is read by what it denotes for this class of texts: the first pattern string (priority order) that is a prefix
        langs = {norm(c0): _prefix_match_call(ctx, mod, c0, var) for y0 in ys for c0 in ast.walk(y0) if isinstance(c0, ast.Call)}
        langs = {k0: v0 for k0, v0 in langs.items() if v0 is not None}
        if len(langs) > 1:
            raise Undecided(f'split: the row for a part like {text!r} reads several match objects: {sorted(langs)}')
        if langs:
            mtext, lang0 = next(iter(langs.items()))
            hit = [x for x in lang0 if text.startswith(x)]
            md = _MatchDenote(lambda e0_, mtext=mtext: norm(e0_) == mtext, var, len(hit[0]) if hit else None)     # type: ignore[misc]
            ys = [ast.fix_missing_locations(md.visit(y0)) for y0 in ys]
            if md.unmatched_use:
                raise Undecided(f'split: the row for a part like {text!r} reads the match object `{mtext}` although the pattern does not match such a part')
        ops = [o for o in sorted(OPS, key=len, reverse=True) if text.startswith(o)]
        if text == '*':
            ctx.require(not ys, 'split: a bare * yields nothing', mod, 'split', node, f'a bare `*` part yields {[norm(y) for y in ys]}; Cargo: `*` matches everything (no constraint)', node)
            continue
        if len(ys) != 1 or not (isinstance(ys[0], ast.Tuple) and len(ys[0].elts) == 2):
            ctx.violation(mod, 'split', node, f'for a part like {text!r} the row yields {[norm(y) for y in ys]}; exactly one (operator, version) pair is expected', node)
            continue
        e0, e1 = ys[0].elts
        core, wraps = strip_wrappers(e1)
        if ops:
            op = ops[0]
            k = len(op)
            ok0 = _leading_len(e0, var) == k or (is_const(e0) and const_of(e0) == op)
            ok1 = _tail_from(core, var) == k and bool(wraps)
            ctx.require(ok0 and ok1, f'split: part like {text!r}: operator = first {k} character(s), version = the rest, left-stripped', mod, 'split', ys[0],
                        f'for a part starting with {op!r} the row yields ({norm(e0)}, {norm(e1)}); expected the first {k} character(s) and {var}[{k}:].lstrip() '
                        f'(two-character operators must win over their one-character prefixes)', node)
        elif text.endswith('.*'):
            ok = is_const(e0) and const_of(e0) == '~' and _head_upto(core, var) == 2
            ctx.require(ok, f'split: wildcard part like {text!r}: tilde requirement on the text without ".*"', mod, 'split', ys[0],
                        f'for a wildcard part the row yields ({norm(e0)}, {norm(e1)}); expected (\'~\', {var}[:-2])', node)
        else:
            ok = is_const(e0) and const_of(e0) == '^' and norm(core) == var
            ctx.require(ok, f'split: bare part like {text!r}: caret requirement (default)', mod, 'split', ys[0],
                        f'for a bare version the row yields ({norm(e0)}, {norm(e1)}); expected (\'^\', {var})', node)


# =====================================================================================================
# R1b  cargo_parse: per-operator rows
# =====================================================================================================

class _Rename(ast.NodeTransformer):
    def __init__(self, names: T.Dict[str, ast.AST]):
        self.names = names

    def visit_Name(self, n: ast.Name) -> ast.AST:
        if n.id in self.names:
            r = copy.deepcopy(self.names[n.id])
            if isinstance(r, ast.Name):
                return ast.Name(id=r.id, ctx=n.ctx)
            if isinstance(n.ctx, ast.Load):
                return r
            raise Undecided(f'helper parameter {n.id} is rebound')
        return n


def bind_call(call: ast.Call, f: ast.FunctionDef) -> T.Dict[str, ast.AST]:
    """Bind the arguments of a call to the parameters of the callee (positional or keyword, defaults filled in)."""
    if f.args.vararg or f.args.kwarg or any(isinstance(a, ast.Starred) for a in call.args) or any(k.arg is None for k in call.keywords):
        raise Undecided(f'call {short(call)} cannot be bound to the signature of {f.name}')
    params = [a.arg for a in f.args.posonlyargs + f.args.args]
    if params and params[0] in ('self', 'cls') and isinstance(call.func, ast.Attribute):
        params = params[1:]
    out: T.Dict[str, ast.AST] = {}
    if len(call.args) > len(params):
        raise Undecided(f'call {short(call)} has too many arguments for {f.name}')
    for pn, a in zip(params, call.args):
        out[pn] = a
    for k in call.keywords:
        if k.arg not in params + [a.arg for a in f.args.kwonlyargs] or k.arg in out:
            raise Undecided(f'call {short(call)}: keyword {k.arg} does not fit {f.name}')
        out[k.arg] = k.value     # type: ignore[index]
    defaults = dict(zip(params[len(params) - len(f.args.defaults):], f.args.defaults))
    defaults.update({a.arg: d for a, d in zip(f.args.kwonlyargs, f.args.kw_defaults) if d is not None})
    for pn in params + [a.arg for a in f.args.kwonlyargs]:
        if pn not in out:
            if pn not in defaults:
                raise Undecided(f'call {short(call)} leaves parameter {pn} of {f.name} unbound')
            out[pn] = defaults[pn]
    return out


def inline_list_builders(mod: Module, body: T.List[ast.stmt], OUT: str, depth: int = 0) -> T.List[ast.stmt]:
    """Normal form for an extracted block (catalogue E1/D7): `OUT += H(a, b)` / `OUT.extend(H(a, b))` where H is a module-level
    function that only *builds and returns one list* (L = []; L.append/extend/+= ...; return L at the end) or a generator of the
    elements is replaced by H's body with the parameters bound by signature and L renamed to OUT.  Other shapes are left alone."""
    out: T.List[ast.stmt] = []
    for st in body:
        call = None
        if isinstance(st, ast.AugAssign) and isinstance(st.op, ast.Add) and norm(st.target) == OUT:
            call = st.value
        elif isinstance(st, ast.Expr) and isinstance(st.value, ast.Call) and norm(st.value.func) == f'{OUT}.extend' and len(st.value.args) == 1:
            call = st.value.args[0]
        if isinstance(call, ast.Call) and norm(call.func) in ('list', 'tuple') and len(call.args) == 1:
            call = call.args[0]
        if not (isinstance(call, ast.Call) and isinstance(call.func, ast.Name) and mod.has_func(call.func.id)) or depth > 2:
            for fld in ('body', 'orelse'):
                if isinstance(getattr(st, fld, None), list) and not isinstance(st, (ast.FunctionDef, ast.ClassDef)):
                    st = copy.copy(st)
                    setattr(st, fld, inline_list_builders(mod, getattr(st, fld), OUT, depth))
            out.append(st)
            continue
        h = nf(mod, call.func.id)
        bound = bind_call(call, h)
        hbody = [x for x in h.body if not (isinstance(x, ast.Expr) and isinstance(x.value, ast.Constant))]
        stores = {n.id for x in hbody for n in ast.walk(x) if isinstance(n, ast.Name) and isinstance(n.ctx, ast.Store)}
        if stores & set(bound) or any(isinstance(n, (ast.FunctionDef, ast.Lambda, ast.Global, ast.Nonlocal)) for x in hbody for n in ast.walk(x)):
            out.append(st)
            continue
        rets = [n for x in hbody for n in ast.walk(x) if isinstance(n, ast.Return)]
        yields = [n for x in hbody for n in ast.walk(x) if isinstance(n, (ast.Yield, ast.YieldFrom))]
        names: T.Dict[str, ast.AST] = dict(bound)
        if yields and not any(isinstance(y, ast.YieldFrom) for y in yields) and all(r.value is None for r in rets) and not rets:
            new = copy.deepcopy(hbody)

            class Y(ast.NodeTransformer):
                def visit_Expr(self, n: ast.Expr) -> ast.AST:
                    if isinstance(n.value, ast.Yield) and n.value.value is not None:
                        return ast.copy_location(ast.Expr(value=ast.Call(func=ast.Attribute(value=ast.Name(id=OUT, ctx=ast.Load()), attr='append', ctx=ast.Load()),
                                                                         args=[n.value.value], keywords=[])), n)
                    return n
            new = [Y().visit(x) for x in new]
        elif len(rets) == 1 and hbody and hbody[-1] is rets[0] and isinstance(rets[0].value, ast.Name) and not yields:
            L = rets[0].value.id
            inits = [x for x in hbody if isinstance(x, (ast.Assign, ast.AnnAssign)) and norm(x.targets[0] if isinstance(x, ast.Assign) else x.target) == L]
            if len(inits) != 1 or inits[0] is not hbody[0] or not (isinstance(inits[0].value, ast.List) and not inits[0].value.elts):
                out.append(st)
                continue
            new = copy.deepcopy(hbody[1:-1])
            names[L] = ast.Name(id=OUT, ctx=ast.Load())
        else:
            out.append(st)
            continue
        for loc in stores - set(names):
            names[loc] = ast.Name(id=f'{h.name}__{loc}', ctx=ast.Load())
        new = [ast.fix_missing_locations(_Rename(names).visit(x)) for x in new]
        out.extend(inline_list_builders(mod, new, OUT, depth + 1))
    return out


def _range_n(it: ast.AST) -> T.Optional[int]:
    """N of `range(N)` / `range(0, N)` with a constant N."""
    if not (isinstance(it, ast.Call) and norm(it.func) == 'range' and not it.keywords):
        return None
    rargs = it.args
    if len(rargs) == 2 and isinstance(rargs[0], ast.Constant) and rargs[0].value == 0:
        rargs = rargs[1:]
    if len(rargs) == 1 and isinstance(rargs[0], ast.Constant) and isinstance(rargs[0].value, int) and not isinstance(rargs[0].value, bool):
        return rargs[0].value
    return None


def _search_expr(i: str, n: int, test: ast.AST, d: int) -> ast.AST:
    """`next((I for I in range(N) if T), D)`: the one expression spelling of the first-match search."""
    gen = ast.GeneratorExp(elt=ast.Name(id=i, ctx=ast.Load()), generators=[ast.comprehension(
        target=ast.Name(id=i, ctx=ast.Store()), iter=ast.Call(func=ast.Name(id='range', ctx=ast.Load()), args=[ast.Constant(n)], keywords=[]), ifs=[copy.deepcopy(test)], is_async=0)])
    return ast.fix_missing_locations(ast.Call(func=ast.Name(id='next', ctx=ast.Load()), args=[gen, ast.Constant(d)], keywords=[]))


def value_expr(stmts: T.Sequence[ast.stmt]) -> T.Optional[ast.AST]:
    """A statement list made only of local bindings, tests, returns and the first-match search idioms (catalogue C5/C7/D2/E10), read as the
    ONE conditional expression it returns: `if T: return A` + `return B` -> `A if T else B`; locals substituted by definition;
    `for I in range(N): if T(I): return E(I)` + `return E(D)`  and  `for I in range(N): if T(I): break  else: I = D`  ->  I = next((I for ...), D).
    None when any other statement occurs (the helper is then not a pure value helper for this reading)."""
    stmts = [x for x in stmts if not isinstance(x, ast.Pass) and not (isinstance(x, ast.Expr) and isinstance(x.value, ast.Constant))]
    if not stmts:
        return None
    st, rest = stmts[0], list(stmts[1:])
    if any(isinstance(n, (ast.NamedExpr, ast.Yield, ast.YieldFrom, ast.Await, ast.Lambda)) for n in ast.walk(st)):
        return None
    if isinstance(st, ast.Return):
        return copy.deepcopy(st.value) if st.value is not None else None

    def bind(name: str, val: ast.AST, r: T.Optional[ast.AST]) -> T.Optional[ast.AST]:
        if r is None:
            return None
        if any(isinstance(c, ast.comprehension) and name in {x.id for x in ast.walk(c.target) if isinstance(x, ast.Name)} for c in ast.walk(r)):
            return None     # the local is shadowed by a comprehension variable
        return resolve(r, {name: val})
    if isinstance(st, ast.Assign) and len(st.targets) == 1 and isinstance(st.targets[0], ast.Name):
        return bind(st.targets[0].id, st.value, value_expr(rest))
    if isinstance(st, ast.AnnAssign) and isinstance(st.target, ast.Name):
        return bind(st.target.id, st.value, value_expr(rest)) if st.value is not None else value_expr(rest)
    if isinstance(st, ast.Assert):
        return value_expr(rest)     # an assertion selects no value
    if isinstance(st, ast.If):
        a, b = value_expr(list(st.body) + rest), value_expr(list(st.orelse) + rest)
        if a is None or b is None:
            return None
        return ast.fix_missing_locations(ast.IfExp(test=copy.deepcopy(st.test), body=a, orelse=b))
    if isinstance(st, ast.For) and isinstance(st.target, ast.Name) and _range_n(st.iter) is not None and len(st.body) == 1 and isinstance(st.body[0], ast.If) \
            and not st.body[0].orelse and len(st.body[0].body) == 1:
        i, n, test, act = st.target.id, _range_n(st.iter), st.body[0].test, st.body[0].body[0]
        assert n is not None
        if isinstance(act, ast.Return) and act.value is not None:
            # early return from the search; what follows the loop must be the same expression at a constant default index
            r = value_expr(list(st.orelse) + rest)
            if r is None:
                return None
            for d in range(0, max(n, 4)):
                if norm(resolve(act.value, {i: ast.Constant(d)})) == norm(r):
                    return resolve(act.value, {i: _search_expr(i, n, test, d)})
            return None
        if isinstance(act, ast.Break):
            if st.orelse:
                if not (len(st.orelse) == 1 and isinstance(st.orelse[0], ast.Assign) and norm(st.orelse[0].targets[0]) == i and isinstance(st.orelse[0].value, ast.Constant)
                        and isinstance(st.orelse[0].value.value, int)):
                    return None
                d = st.orelse[0].value.value
            else:
                d = n - 1
            return bind(i, _search_expr(i, n, test, d), value_expr(rest))
    return None


class _InlineValueCalls(ast.NodeTransformer):
    """Catalogue E1/E2/E3 at expression level ("move the computation to the class that owns the data"): a call `X.M(args)` of a method that
    exactly one class of this module defines, or `H(args)` of a module-level function, whose body reads as one conditional expression
    (value_expr) is replaced by that expression with the parameters bound by signature.  Names in `keep` (anchors a rule reads by role) and
    everything else stay calls."""

    def __init__(self, mod: Module, keep: T.Iterable[str] = (), depth: int = 0):
        self.mod, self.keep, self.depth = mod, set(keep), depth
        self.count = 0

    def _callee(self, c: ast.Call) -> T.Optional[T.Tuple[ast.FunctionDef, T.Optional[ast.AST]]]:
        if isinstance(c.func, ast.Name) and c.func.id not in self.keep and self.mod.has_func(c.func.id):
            return nf(self.mod, c.func.id), None
        if isinstance(c.func, ast.Attribute) and c.func.attr not in self.keep and not (c.func.attr.startswith('__') and c.func.attr.endswith('__')):
            owners = [q for q, k in self.mod.classes().items() if any(isinstance(x, ast.FunctionDef) and x.name == c.func.attr for x in k.body)]
            if len(owners) == 1 and isinstance(c.func.value, (ast.Name, ast.Attribute, ast.Call)):
                return nf(self.mod, f'{owners[0]}.{c.func.attr}'), c.func.value
        return None

    def visit_Call(self, c: ast.Call) -> ast.AST:
        self.generic_visit(c)
        got = self._callee(c)
        if got is None or self.depth > 3:
            return c
        f, recv = got
        if f.decorator_list or f.args.vararg or f.args.kwarg or (recv is not None and not f.args.args):
            return c
        try:
            bound = bind_call(c, f)
        except Undecided:
            return c
        e = value_expr(f.body)
        if e is None:
            return c
        if recv is not None:
            bound[f.args.args[0].arg] = recv
        comp_vars = {x.id for k in ast.walk(e) if isinstance(k, ast.comprehension) for x in ast.walk(k.target) if isinstance(x, ast.Name)}
        if comp_vars & ({n for a in bound.values() for n in names_in(a)} | set(bound)):
            return c     # an argument would be captured by a comprehension variable of the helper
        free = {n.id for n in ast.walk(e) if isinstance(n, ast.Name)} - set(bound) - comp_vars
        if any(not (hasattr(_builtins, n) or self.mod.has_func(n) or self.mod.has_cls(n) or self.mod.has_assign(n) or n in self.mod.imports()) for n in free):
            return c     # a local of the helper survived the reading
        self.count += 1
        new = ast.fix_missing_locations(ast.copy_location(resolve(e, bound), c))
        sub = _InlineValueCalls(self.mod, self.keep, self.depth + 1)
        new = sub.visit(new)
        self.count += sub.count
        return new


def inline_value_calls(mod: Module, stmts: T.Sequence[ast.AST], keep: T.Iterable[str] = ()) -> T.List[T.Any]:
    t = _InlineValueCalls(mod, keep)
    return [ast.fix_missing_locations(t.visit(copy.deepcopy(s))) for s in stmts]


class _SearchLoops(ast.NodeTransformer):
    """Rewrite the search idiom  `for I in range(N): if VEC[I] != 0: break  else: I = D`  into the symbolic
    assignment `I = FIRST_NONZERO(VEC, N, D)` so that the enclosing body tabulates without a loop."""

    def __init__(self) -> None:
        self.found = 0

    def visit_For(self, node: ast.For) -> ast.AST:
        self.generic_visit(node)
        if not (isinstance(node.target, ast.Name) and isinstance(node.iter, ast.Call) and norm(node.iter.func) == 'range' and not node.iter.keywords):
            return node
        i = node.target.id
        rargs = node.iter.args
        if len(rargs) == 2 and isinstance(rargs[0], ast.Constant) and rargs[0].value == 0:
            rargs = rargs[1:]
        if not (len(rargs) == 1 and isinstance(rargs[0], ast.Constant) and isinstance(rargs[0].value, int)):
            return node
        n = rargs[0].value
        if not (len(node.body) == 1 and isinstance(node.body[0], ast.If) and not node.body[0].orelse and len(node.body[0].body) == 1
                and isinstance(node.body[0].body[0], ast.Break)):
            return node
        atom, pol = tables.canon(node.body[0].test, True)
        if not (atom.kind == 'cmp' and atom.args[0] == 'eq' and atom.args[2] == '0' and pol is False):
            return node
        sub = expr_of(atom.args[1])
        if not (isinstance(sub, ast.Subscript) and isinstance(sub.slice, ast.Name) and sub.slice.id == i):
            return node
        if node.orelse:
            if not (len(node.orelse) == 1 and isinstance(node.orelse[0], ast.Assign) and norm(node.orelse[0].targets[0]) == i and isinstance(node.orelse[0].value, ast.Constant)
                    and isinstance(node.orelse[0].value.value, int)):
                return node
            d = node.orelse[0].value.value
        else:
            d = n - 1
        self.found += 1
        new = ast.Assign(targets=[ast.Name(id=i, ctx=ast.Store())],
                         value=ast.Call(func=ast.Name(id='FIRST_NONZERO', ctx=ast.Load()), args=[sub.value, ast.Constant(n), ast.Constant(d)], keywords=[]))
        return ast.fix_missing_locations(ast.copy_location(new, node))


class _Replace(ast.NodeTransformer):
    def __init__(self, what: str, by: str):
        self.what, self.by = what, by

    def generic_visit(self, node: ast.AST) -> ast.AST:
        if isinstance(node, ast.expr) and norm(node) == self.what:
            return ast.Name(id=self.by, ctx=ast.Load())
        return super().generic_visit(node)


def _bump_denotation(e: ast.AST, n: int, pat: T.Tuple[int, ...]) -> T.Tuple[T.Any, ...]:
    """Symbolic reading of a bump-index expression (V = the requirement's SemVer)."""
    if isinstance(e, ast.Constant) and isinstance(e.value, int) and not isinstance(e.value, bool):
        return ('const', e.value)
    if isinstance(e, ast.BinOp) and isinstance(e.op, ast.Sub) and norm(e.left) == 'V.specified_count' and isinstance(e.right, ast.Constant) and isinstance(e.right.value, int):
        return ('count-1',) if e.right.value == 1 else ('count-k', e.right.value)
    if norm(e) == 'V.specified_count':
        return ('count-k', 0)
    if isinstance(e, ast.Call) and norm(e.func) == 'FIRST_NONZERO' and norm(e.args[0]) == 'V._v':
        return ('first-nonzero', e.args[1].value, e.args[2].value)     # type: ignore[attr-defined]
    if isinstance(e, ast.IfExp):
        a, pol = tables.canon(e.test, True)
        v = _req_atom(a, 'V', n, pat)
        return _bump_denotation(e.body if v == pol else e.orelse, n, pat)
    # next((i for i in range(N) if V._v[i] != 0), D): the same search as the for/else idiom
    if isinstance(e, ast.Call) and norm(e.func) == 'next' and len(e.args) == 2 and isinstance(e.args[0], ast.GeneratorExp) and len(e.args[0].generators) == 1 \
            and isinstance(e.args[1], ast.Constant) and isinstance(e.args[1].value, int):
        g = e.args[0].generators[0]
        rargs = g.iter.args if isinstance(g.iter, ast.Call) and norm(g.iter.func) == 'range' else []
        if len(rargs) == 2 and isinstance(rargs[0], ast.Constant) and rargs[0].value == 0:
            rargs = rargs[1:]
        if isinstance(g.target, ast.Name) and norm(e.args[0].elt) == g.target.id and len(rargs) == 1 and isinstance(rargs[0], ast.Constant) and len(g.ifs) == 1 and not g.is_async:
            a, pol = tables.canon(g.ifs[0], True)
            if a.kind == 'cmp' and a.args[0] == 'eq' and pol is False and {a.args[1], a.args[2]} == {f'V._v[{g.target.id}]', '0'}:
                return ('first-nonzero', rargs[0].value, e.args[1].value)
    raise Undecided(f'cargo_parse: bump index expression {short(e)} is outside the shapes this rule reads')


def _req_atom(a: Atom, sem: str, n: int, pat: T.Tuple[int, ...]) -> bool:
    """Truth of an atom over the requirement's SemVer for the class (specified count n, zero pattern pat)."""
    def term(t: str) -> T.Any:
        if t == f'{sem}.specified_count':
            return n
        e = expr_of(t)
        if isinstance(e, ast.Constant) and isinstance(e.value, int):
            return e.value
        if isinstance(e, ast.Subscript) and norm(e.value) == f'{sem}._v' and isinstance(e.slice, ast.Constant) and e.slice.value in (0, 1, 2):
            return ('comp', e.slice.value)
        raise Undecided(f'cargo_parse: atom operand {t} is outside the vocabulary (specified_count, _v[0..2], integer constants)')
    if a.kind == 'cmp':
        x, y = term(a.args[1]), term(a.args[2])
        if isinstance(x, tuple) or isinstance(y, tuple):
            comp, c = (x, y) if isinstance(x, tuple) else (y, x)
            if a.args[0] == 'eq' and c == 0:
                return pat[comp[1]] == 0
            raise Undecided(f'cargo_parse: component test {a!r} is not a comparison with 0')
        return x == y if a.args[0] == 'eq' else x < y
    raise Undecided(f'cargo_parse: atom outside the vocabulary: {a!r}')


def _ref_constraints(op: str, n: int, pat: T.Tuple[int, ...], pre: bool = False) -> T.List[T.Tuple[str, T.Any]]:
    """A.17: operator -> (comparator, bound); 'V' = the version itself, ('bump', k) = next_ver(k).
    `<= V` may be turned into `< next_ver(last specified)` only for a release V: next_ver drops the pre-release, so for
    `<= 1.0.0-rc.1` the bump would admit 1.0.0 and 1.0.0-rc.2; there the bound is V itself."""
    if op == '<=' and pre:
        return [('le', 'V')]
    if op == '<=':
        return [('lt', ('bump', n - 1))]
    if op == '~':
        return [('ge', 'V'), ('lt', ('bump', 1 if n >= 2 else 0))]
    if op == '^':
        nz = [i for i in range(3) if pat[i]]
        return [('ge', 'V'), ('lt', ('bump', nz[0] if nz else 0))]
    return [(OPNAME[op], 'V')]


def _req_classes() -> T.List[T.Tuple[int, T.Tuple[int, ...]]]:
    out = []
    for n in (1, 2, 3):
        for bits in itertools.product((0, 1), repeat=n):
            out.append((n, tuple(bits) + (0,) * (3 - n)))
    return out


def r1_cargo_parse(ctx: RuleCtx) -> None:
    mod = ctx.repo.module(VERSION)
    fn = nf(mod, 'cargo_parse')
    param = fn.args.args[0].arg
    loops = [s for s in fn.body if isinstance(s, ast.For)]
    if len(loops) != 1:
        raise Undecided('cargo_parse: expected one top-level loop over split(requirement)')
    loop = loops[0]
    ok_iter = isinstance(loop.iter, ast.Call) and norm(loop.iter.func) == 'split' and [norm(a) for a in loop.iter.args] == [param] \
        and isinstance(loop.target, ast.Tuple) and len(loop.target.elts) == 2 and all(isinstance(x, ast.Name) for x in loop.target.elts)
    pre = fn.body[:fn.body.index(loop)]
    fission: T.Optional[str] = None
    fission_def = ''
    if not ok_iter and isinstance(loop.iter, ast.Name) and isinstance(loop.target, ast.Tuple) and len(loop.target.elts) == 2 and all(isinstance(x, ast.Name) for x in loop.target.elts):
        # loop fission: reqs = [(op, SemVer(ver)) for op, ver in split(text)] first, then `for op, semver in reqs:` - the second target IS SemVer(ver)
        ld = [st.value for st in pre if isinstance(st, (ast.Assign, ast.AnnAssign)) and norm(st.targets[0] if isinstance(st, ast.Assign) else st.target) == loop.iter.id]
        if len(ld) == 1 and isinstance(ld[0], ast.ListComp) and len(ld[0].generators) == 1 and not ld[0].generators[0].ifs:
            g0 = ld[0].generators[0]
            if isinstance(g0.iter, ast.Call) and norm(g0.iter.func) == 'split' and [norm(a) for a in g0.iter.args] == [param] and isinstance(g0.target, ast.Tuple) \
                    and len(g0.target.elts) == 2 and norm(ld[0].elt) == f'({norm(g0.target.elts[0])}, SemVer({norm(g0.target.elts[1])}))':
                fission = loop.iter.id
                fission_def = norm(ld[0])
    if not ok_iter and fission is None:
        raise Undecided(f'cargo_parse: the loop is not `for op, ver in split({param})`')
    opvar, vervar = (x.id for x in loop.target.elts)     # type: ignore[attr-defined]
    post = fn.body[fn.body.index(loop) + 1:]
    env0, _ = propagate([s for s in pre if eff(s)])
    outs = [k for k, v in env0.items() if isinstance(v, ast.List) and not v.elts]
    accs = [k for k, v in env0.items() if isinstance(v, ast.Constant) and v.value is False]
    derived_flag = False
    all_reqs_flag = False
    if fission is not None and len(outs) == 1 and not accs:
        # flag = any(v.has_prerelease for _, v in reqs): the disjunction over every requirement version, computed before the ladder
        for k0, v0 in env0.items():
            if isinstance(v0, ast.Call) and norm(v0.func) == 'any' and len(v0.args) == 1 and isinstance(v0.args[0], (ast.GeneratorExp, ast.ListComp)) and len(v0.args[0].generators) == 1:
                g1 = v0.args[0].generators[0]
                if norm(g1.iter) in (fission, fission_def) and isinstance(g1.target, ast.Tuple) and len(g1.target.elts) == 2 and not g1.ifs \
                        and norm(v0.args[0].elt) == f'{norm(g1.target.elts[1])}.has_prerelease':
                    accs = [k0]
                    all_reqs_flag = True
    if len(outs) == 1 and not accs:
        # the flag may be computed after the loop from the appended bounds: flag = any(b.has_prerelease for _, b in out)
        for st in post:
            v = st.value if isinstance(st, ast.Assign) and isinstance(st.targets[0], ast.Name) else None
            if isinstance(v, ast.Call) and norm(v.func) == 'any' and len(v.args) == 1 and isinstance(v.args[0], (ast.GeneratorExp, ast.ListComp)) and len(v.args[0].generators) == 1:
                g = v.args[0].generators[0]
                if norm(g.iter) == outs[0] and isinstance(g.target, ast.Tuple) and len(g.target.elts) == 2 and norm(v.args[0].elt) == f'{norm(g.target.elts[1])}.has_prerelease' and not g.ifs:
                    accs = [st.targets[0].id]     # type: ignore[union-attr]
                    derived_flag = True
    if len(outs) != 1 or len(accs) != 1:
        raise Undecided(f'cargo_parse: expected one empty constraint list and one flag initialised to False before the loop, found {outs} / {accs}')
    OUT, ACC = outs[0], accs[0]
    ctx.ok(f'cargo_parse: constraint list `{OUT}` starts empty, pre-release flag `{ACC}` ' + ('is the disjunction of has_prerelease over the appended bounds' if derived_flag else 'starts False'))
    rw = _SearchLoops()
    body = inline_list_builders(mod, [copy.deepcopy(s) for s in loop.body], OUT)     # an extracted ladder is read in place
    body = inline_value_calls(mod, body, keep=('split', 'next_ver', 'cargo_parse'))     # bounds computed by value helpers / SemVer methods are read in place
    body = [rw.visit(s) for s in body]
    semdef = f'SemVer({vervar})' if fission is None else vervar
    sem0 = [st.targets[0].id for st in loop.body if isinstance(st, ast.Assign) and norm(st.value) == semdef and isinstance(st.targets[0], ast.Name)] if fission is None else [vervar]
    # tests are read with locals resolved by reaching definition (`is_pre = semver.has_prerelease; if is_pre:`); the SemVer local, the list and the flag stay names
    tab = resolve_table(tables.extract(fn, body=body, effects=eff, inline=False, name='cargo_parse:loop'), opaque=sem0 + [OUT, ACC])
    # classify atoms: tests of the operator are decided per operator class (== constant, membership in a folded constant set / table)
    def const_table(e: ast.AST) -> T.Optional[T.Dict[T.Any, ast.AST]]:
        """A module-level dict display with constant keys, found through the name that is read (policy form c)."""
        if isinstance(e, ast.Name) and mod.has_assign(e.id):
            d = mod.assign_value(e.id)
            if isinstance(d, ast.Dict) and all(k is not None and is_const(k) for k in d.keys):
                return {const_of(k): v for k, v in zip(d.keys, d.values)}     # type: ignore[arg-type]
        return None
    op_atoms: T.Dict[Atom, T.Callable[[str], bool]] = {}
    for a in tab.atoms():
        if a.kind == 'cmp' and a.args[0] == 'eq' and a.args[1] == opvar and is_const(expr_of(a.args[2])):
            op_atoms[a] = (lambda c: (lambda o: o == c))(const_of(expr_of(a.args[2])))
        elif a.kind == 'in' and a.args[0] == opvar:
            e2 = expr_of(a.args[1])
            tbl = const_table(e2)
            keys = set(tbl) if tbl is not None else _folded(ctx, mod, e2)
            if isinstance(keys, dict):
                keys = set(keys)
            if not isinstance(keys, (set, frozenset, tuple, list)):
                raise Undecided(f'cargo_parse: operator test {a!r} is not a membership in a constant collection')
            op_atoms[a] = (lambda ks: (lambda o: o in ks))(set(keys))
    semvar: T.Optional[str] = vervar if fission is not None else None
    for st in ([] if fission is not None else loop.body):
        if isinstance(st, ast.Assign) and norm(st.value) == semdef and isinstance(st.targets[0], ast.Name):
            semvar = st.targets[0].id
    if semvar is None:
        raise Undecided(f'cargo_parse: `x = SemVer({vervar})` not found in the loop body')
    HP = Atom('truth', (f'{semvar}.has_prerelease',))
    has_hp = HP in tab.atoms()
    HP2 = None     # reserved: other spellings of the test are outside the vocabulary (-> Undecided in _req_atom)
    for op in OPS:
        bad: T.Optional[T.Tuple[ast.AST, str]] = None
        bad_pre: T.Optional[T.Tuple[ast.AST, str]] = None
        nw = 0
        for (n, pat), hp in itertools.product(_req_classes(), (False, True)):
            if hp and n < 3:
                continue     # a requirement with a pre-release names all three components
            world: T.Dict[Atom, bool] = {a: p(op) for a, p in op_atoms.items()}
            if has_hp:
                world[HP] = bool(hp)
            elif HP2 is not None:
                world[HP2] = bool(hp)
            rows = []
            for r in tab.rows:
                if any(world.get(a) != v for a, v in r.conds.items() if a in world):
                    continue
                if all(_req_atom(a, semvar, n, pat) == v for a, v in r.conds.items() if a not in world):
                    rows.append(r)
            if len(rows) != 1:
                raise Undecided(f'cargo_parse: {len(rows)} rows fire for operator {op!r}, {n} specified component(s), zero pattern {pat}')
            row = rows[0]
            nw += 1
            env, rest = propagate(stmts_of(row), opaque=[OUT])
            node = row.path.events[-1].node if row.path.events else loop
            got: T.List[T.Tuple[str, T.Any]] = []
            shape_bad = None
            pairs: T.List[ast.AST] = []
            for st in rest:
                c = st.value if isinstance(st, ast.Expr) else None
                if isinstance(c, ast.Call) and isinstance(c.func, ast.Attribute) and norm(c.func.value) == OUT:
                    if c.func.attr == 'append' and len(c.args) == 1 and not c.keywords:
                        pairs.append(c.args[0])
                    elif c.func.attr == 'extend' and len(c.args) == 1 and isinstance(c.args[0], (ast.List, ast.Tuple)) and not any(isinstance(x, ast.Starred) for x in c.args[0].elts):
                        pairs.extend(c.args[0].elts)
                    else:
                        raise Undecided(f'cargo_parse: the constraint list is changed by `{short(st)}`, a form this rule does not read')
                elif isinstance(st, ast.AugAssign) and norm(st.target) == OUT:
                    if isinstance(st.op, ast.Add) and isinstance(st.value, (ast.List, ast.Tuple)) and not any(isinstance(x, ast.Starred) for x in st.value.elts):
                        pairs.extend(st.value.elts)
                    else:
                        raise Undecided(f'cargo_parse: the constraint list is changed by `{short(st)}`, a form this rule does not read')
                elif isinstance(st, ast.Assign) and norm(st.targets[0]) == OUT:
                    # OUT = OUT + [a, b]   /   OUT = [*OUT, a, b]
                    v = st.value
                    if isinstance(v, ast.BinOp) and isinstance(v.op, ast.Add) and norm(v.left) == OUT and isinstance(v.right, (ast.List, ast.Tuple)) \
                            and not any(isinstance(x, ast.Starred) for x in v.right.elts):
                        pairs.extend(v.right.elts)
                    elif isinstance(v, ast.List) and v.elts and isinstance(v.elts[0], ast.Starred) and norm(v.elts[0].value) == OUT \
                            and not any(isinstance(x, ast.Starred) for x in v.elts[1:]):
                        pairs.extend(v.elts[1:])
                    else:
                        raise Undecided(f'cargo_parse: the constraint list is rebound by `{short(st)}`, a form this rule does not read')
                elif OUT in names_in(st) and not (isinstance(st, ast.Assign) and OUT not in {n.id for t in st.targets for n in ast.walk(t) if isinstance(n, ast.Name)}):
                    raise Undecided(f'cargo_parse: the constraint list is used by `{short(st)}`, a form this rule does not read')
            for pair in pairs:
                if isinstance(pair, ast.Tuple) and len(pair.elts) == 2 and isinstance(pair.elts[0], ast.Subscript) and norm(pair.elts[0].slice) == opvar:
                    # comparator read from a constant table keyed by the operator: the entry for this operator class
                    tbl = const_table(pair.elts[0].value)
                    if tbl is None:
                        raise Undecided(f'cargo_parse: comparator {short(pair.elts[0])} does not index a module-level constant table')
                    if op not in tbl:
                        shape_bad = f'reads {short(pair.elts[0])}, but the table has no entry for {op!r} (KeyError)'
                        continue
                    pair = ast.Tuple(elts=[tbl[op], pair.elts[1]], ctx=ast.Load())
                if not (isinstance(pair, ast.Tuple) and len(pair.elts) == 2 and (attr_chain(pair.elts[0]) or '').startswith('operator.')):
                    shape_bad = f'appends {short(pair)}, not an (operator.<cmp>, bound) pair'
                    continue
                cmpname = attr_chain(pair.elts[0]).split('.')[1]     # type: ignore[union-attr]
                b = _Replace(semdef, 'V').visit(copy.deepcopy(pair.elts[1]))
                if semvar != 'V':
                    b = _Replace(semvar, 'V').visit(b)
                while isinstance(b, ast.IfExp):
                    # a bound selected by a test on the requirement's version: the arm of this class
                    a0, pol0 = tables.canon(b.test, True)
                    v0 = bool(hp) if a0 == Atom('truth', ('V.has_prerelease',)) else _req_atom(a0, 'V', n, pat)
                    b = b.body if v0 == pol0 else b.orelse
                unread = [c0 for c0 in ast.walk(b) if isinstance(c0, ast.Call) and norm(c0.func) not in ('V.next_ver', 'FIRST_NONZERO', 'next', 'range')]
                if unread:
                    # closed world: a bound computed by a call this rule could not read in place is not judged
                    raise Undecided(f'cargo_parse: the bound `{short(pair.elts[1])}` of operator {op!r} is computed by `{short(unread[0])}`, which does not read as one '
                                    f'conditional expression over the version')
                if norm(b) == 'V':
                    got.append((cmpname, 'V'))
                elif isinstance(b, ast.Call) and norm(b.func) == 'V.next_ver' and len(b.args) == 1:
                    den = _bump_denotation(b.args[0], n, pat)
                    if den == ('count-1',):
                        den = ('const', 'specified_count - 1')
                    elif den[0] == 'count-k':
                        den = ('const', f'specified_count - {den[1]}' if den[1] else 'specified_count')     # never the reference's count - 1
                    elif den[0] == 'first-nonzero':
                        if den[1:] == (3, 0):
                            nz = [i for i in range(3) if pat[i]]
                            den = ('const', nz[0] if nz else 0)
                        else:
                            shape_bad = (f'the caret bound searches the first non-zero of {den[1]} component(s) with default index {den[2]}; '
                                         f'Cargo: leftmost non-zero of major/minor/patch, all zero -> major')
                            den = ('const', -1)
                    got.append((cmpname, ('bump', den[1])))
                else:
                    shape_bad = f'bound {short(pair.elts[1])} is neither the version nor next_ver(index)'
            want = _ref_constraints(op, n, pat, bool(hp))
            if op == '<=' and not hp and got == [('lt', ('bump', 'specified_count - 1'))]:
                want = list(got)     # the reference index *is* the expression `specified_count - 1` (a constant n - 1 per class is accepted as well)
            desc = f'{op}{".".join("x" if b else "0" for b in pat[:n])}{"-pre" if hp else ""}'
            if shape_bad and bad is None:
                bad = (node, f'requirement like `{desc}`: {shape_bad}')
            elif sorted(got, key=repr) != sorted(want, key=repr) and hp and op == '<=' and bad_pre is None:
                bad_pre = (node, f'requirement like `{desc}` (a pre-release bound): the row appends {got}; next_ver() drops the pre-release, so `<= 1.0.0-rc.1` becomes '
                                 f'`< 1.0.1` and accepts 1.0.0 and 1.0.0-rc.2; the bound must be the version itself: {want} [V = the version, (bump, k) = next_ver(k)]')
            elif sorted(got, key=repr) != sorted(want, key=repr) and not (hp and op == '<=') and bad is None:
                bad = (node, f'requirement like `{desc}` ({n} specified component(s)): the row appends {got}; the Cargo table (A.17) requires {want} '
                             f'[V = the version, (bump, k) = next_ver(k)]')
            # the pre-release flag is sticky: flag = flag or V.has_prerelease on every row
            acc = env.get(ACC)
            acc_s = norm(_Replace(semdef, 'V').visit(copy.deepcopy(acc))) if acc is not None else None
            if all_reqs_flag:
                acc_ok = acc is None     # computed once over all requirement versions before the ladder; the rows must not touch it
            elif derived_flag:
                # the flag only sees what the row appends: the version itself must be among the bounds (next_ver drops the pre-release)
                acc_ok = any(b == 'V' for _c, b in got)
                acc_s = f'any(has_prerelease of {[b for _c, b in got]})'
            elif has_hp:
                # the row is specific to has_prerelease: True -> flag set, False -> flag untouched
                acc_ok = acc_s in ('True', f'{ACC} or True', f'True or {ACC}', f'{ACC} or V.has_prerelease') if hp else acc_s in (None, ACC, f'{ACC} or V.has_prerelease', f'{ACC} or False')
            else:
                acc_ok = acc_s in (f'{ACC} or V.has_prerelease', f'V.has_prerelease or {ACC}')
            if not acc_ok and bad is None:
                bad = (node, f'requirement like `{desc}`: the pre-release flag becomes `{acc_s}`; expected `{ACC} or V.has_prerelease` '
                             f'(a pre-release named by any constraint enables pre-release matching)')
        if bad is None:
            ctx.ok(f'cargo_parse: operator {op}: {nw} classes (specified components x zero pattern{" x has_prerelease" if has_hp else ""}) append exactly the constraints of A.17; flag sticky')
        else:
            ctx.violation(mod, 'cargo_parse', f'operator {op} :: {norm(bad[0])}', bad[1], bad[0])
        if bad_pre is not None:
            ctx.violation(mod, 'cargo_parse', f'operator {op} with a pre-release bound', bad_pre[1], bad_pre[0])
        elif op == '<=':
            ctx.ok('cargo_parse: operator <= with a pre-release bound keeps the version itself as bound')
    _matcher(ctx, mod, fn, post, OUT, ACC)


def _callable_object_to_function(mod: Module, k: ast.ClassDef) -> T.Optional[ast.FunctionDef]:
    """Normal form for "closure <-> callable object": a plain class of this module (no bases, no decorators, only `__init__`, `__call__`,
    `__slots__` / annotations / a docstring) whose `__init__` does nothing but store each of its parameters in one attribute and whose
    `__call__` never stores or deletes an attribute nor lets `self` escape is the function
        def K.__call__(<parameters of __init__>, <parameters of __call__>): <body of __call__ with self.attr := the parameter>
    with the constructor arguments bound (read like functools.partial).  None when the class is not of this shape."""
    if k.decorator_list or k.keywords or any(norm(b) != 'object' for b in k.bases):
        return None
    meths: T.Dict[str, ast.FunctionDef] = {}
    for x in k.body:
        if isinstance(x, ast.FunctionDef):
            meths[x.name] = x
        elif isinstance(x, ast.Expr) and isinstance(x.value, ast.Constant):
            continue
        elif isinstance(x, ast.AnnAssign) and x.value is None:
            continue
        elif isinstance(x, ast.Assign) and [norm(t) for t in x.targets] == ['__slots__']:
            continue
        else:
            return None
    if set(meths) != {'__init__', '__call__'}:
        return None
    for m in meths.values():
        a = m.args
        if m.decorator_list or a.vararg or a.kwarg or a.kwonlyargs or a.posonlyargs or a.defaults or not a.args:
            return None
    init, callm = meths['__init__'], meths['__call__']
    me0 = init.args.args[0].arg
    iparams = [a.arg for a in init.args.args[1:]]
    attr_of: T.Dict[str, str] = {}
    for st in init.body:
        if isinstance(st, ast.Expr) and isinstance(st.value, ast.Constant):
            continue
        tgt = st.targets[0] if isinstance(st, ast.Assign) and len(st.targets) == 1 else st.target if isinstance(st, ast.AnnAssign) and st.value is not None else None
        v = getattr(st, 'value', None)
        if not (isinstance(tgt, ast.Attribute) and isinstance(tgt.value, ast.Name) and tgt.value.id == me0 and tgt.attr not in attr_of and isinstance(v, ast.Name)
                and v.id in iparams and v.id not in attr_of.values()):
            return None
        attr_of[tgt.attr] = v.id
    me = callm.args.args[0].arg
    cparams = [a.arg for a in callm.args.args[1:]]
    clocals = {n.id for n in ast.walk(callm) if isinstance(n, ast.Name) and isinstance(n.ctx, (ast.Store, ast.Del))} | set(cparams)
    if clocals & set(iparams) or me in clocals or any(isinstance(n, (ast.FunctionDef, ast.Lambda, ast.Global, ast.Nonlocal)) for b in callm.body for n in ast.walk(b)):
        return None
    t = _SelfAttrs(me, {x: ast.Name(id=p, ctx=ast.Load()) for x, p in attr_of.items()}, set(), '\0', ast.Call(func=ast.Name(id='\0', ctx=ast.Load()), args=[], keywords=[]))
    body = [t.visit(copy.deepcopy(b)) for b in callm.body]
    if t.bad or any(isinstance(n, ast.Name) and n.id in iparams and not isinstance(n.ctx, ast.Load) for b in body for n in ast.walk(b)):
        return None
    out = ast.FunctionDef(name=f'{k.name}.__call__', args=ast.arguments(posonlyargs=[], args=[ast.arg(arg=p) for p in iparams + cparams], kwonlyargs=[], kw_defaults=[], defaults=[]),
                          body=body, decorator_list=[], returns=None, type_params=[])
    ast.copy_location(out, callm)
    for n0 in ast.walk(out):
        if not hasattr(n0, 'lineno') and isinstance(n0, (ast.stmt, ast.expr, ast.arg)):
            ast.copy_location(n0, callm)
    return ast.fix_missing_locations(out)


def _matcher(ctx: RuleCtx, mod: Module, fn: ast.FunctionDef, post: T.List[ast.stmt], OUT: str, ACC: str) -> None:
    """The returned predicate: empty -> always true; else gate + conjunction over the appended pairs."""
    defs = {s.name: s for s in post if isinstance(s, ast.FunctionDef)}
    tab = tables.extract(fn, body=[s for s in post if not isinstance(s, ast.FunctionDef)], name='cargo_parse:result')
    empty_atom = Atom('truth', (OUT,))
    if [a for a in tab.atoms() if a != empty_atom]:
        raise Undecided(f'cargo_parse: result selection tests {tab.atoms()}')
    cmp_fn: T.Optional[ast.FunctionDef] = None
    names = {'OUTs': OUT, 'OUTt': OUT, 'ACCt': ACC, 'CANDt': 'ARG1', 'cand': ''}

    def as_matcher(e: ast.AST) -> T.Optional[ast.FunctionDef]:
        """The predicate by role: the nested closure, or a module-level function with the constraint list and the flag bound by
        functools.partial / a forwarding lambda (arguments bound by signature)."""
        if isinstance(e, ast.Name) and e.id in defs:
            names.update(OUTs=OUT, OUTt=OUT, ACCt=ACC, CANDt='ARG1', cand=defs[e.id].args.args[0].arg if defs[e.id].args.args else '')
            return defs[e.id]
        call, free = None, None
        if isinstance(e, ast.Call) and norm(e.func) in ('partial', 'functools.partial') and e.args and isinstance(e.args[0], ast.Name) and mod.has_func(e.args[0].id):
            call = ast.Call(func=e.args[0], args=list(e.args[1:]), keywords=list(e.keywords))
        elif isinstance(e, ast.Lambda) and len(e.args.args) == 1 and isinstance(e.body, ast.Call) and isinstance(e.body.func, ast.Name) and mod.has_func(e.body.func.id):
            call, free = e.body, e.args.args[0].arg
        f = None
        if call is None and isinstance(e, ast.Call) and isinstance(e.func, ast.Name) and mod.has_cls(e.func.id):
            f = _callable_object_to_function(mod, mod.cls(e.func.id))
            if f is not None:
                call = ast.Call(func=ast.Name(id=f.name, ctx=ast.Load()), args=list(e.args), keywords=list(e.keywords))
        if call is None:
            return None
        f = f or nf(mod, call.func.id)     # type: ignore[attr-defined]
        params = [a.arg for a in f.args.args]
        bound: T.Dict[str, str] = {}
        for pn, a in zip(params, call.args):
            bound[pn] = norm(a)
        for k in call.keywords:
            if k.arg in params:
                bound[k.arg] = norm(k.value)
        rest = [pn for pn in params if pn not in bound or bound[pn] == free]
        outp = [pn for pn, v in bound.items() if v == OUT]
        accp = [pn for pn, v in bound.items() if v == ACC]
        if len(rest) != 1 or len(outp) != 1 or len(accp) != 1 or len(bound) + (0 if free else 1) != len(params):
            return None
        names.update(OUTs=outp[0], OUTt=f'ARG{params.index(outp[0]) + 1}', ACCt=f'ARG{params.index(accp[0]) + 1}', CANDt=f'ARG{params.index(rest[0]) + 1}', cand=rest[0])
        return f
    for r in tab.rows:
        if r.outcome[0] != 'return':
            raise Undecided(f'cargo_parse: result row {r!r}')
        e = expr_of(r.outcome[1])
        if r.conds.get(empty_atom) is False or empty_atom not in r.conds:
            # no constraint (empty or `*`): every release, but - as for any requirement that names no pre-release - no pre-release
            if as_matcher(e) is not None:
                cmp_fn = cmp_fn or as_matcher(e)
                ctx.ok('cargo_parse: no constraint (empty or *) -> the same matcher (gate applies, no comparison left)')
            elif isinstance(e, ast.Lambda) and len(e.args.args) == 1 and norm(e.body) in (f'not SemVer({e.args.args[0].arg}).has_prerelease',):
                ctx.ok('cargo_parse: no constraint (empty or *) -> every release, no pre-release')
            elif isinstance(e, ast.Lambda) and isinstance(e.body, ast.Constant):
                if e.body.value is True:
                    ctx.violation(mod, 'cargo_parse', 'no constraint: pre-release accepted', f'with no constraint (empty requirement or `*`) the result is `{short(e)}`: it also accepts '
                                  f'pre-releases (cargo_parse("*")("1.0.0-alpha") is True); a requirement that names no pre-release never matches one (Cargo: `*` does not)', r.path.events[-1].node)
                else:
                    ctx.violation(mod, 'cargo_parse', f'no constraint :: {norm(e)}', f'with no constraint the result is `{short(e)}`; Cargo: an empty / `*` requirement matches every release',
                                  r.path.events[-1].node)
            else:
                raise Undecided(f'cargo_parse: with no constraint the result is `{short(e)}`, a form this rule does not read')
            if empty_atom in r.conds:
                continue
        if True:
            if as_matcher(e) is None:
                raise Undecided(f'cargo_parse: with constraints the result is {short(e)}, not a matcher function this rule can find')
            cmp_fn = as_matcher(e)
    if cmp_fn is None:
        raise Undecided('cargo_parse: no matcher returned')
    qn = f'cargo_parse.{cmp_fn.name}' if cmp_fn.name in defs else cmp_fn.name
    t2 = tables.extract(cmp_fn, effects=eff, inline=False, bool_returns=True, name=qn)
    arg = names['cand']
    OUTs, OUTt, ACCt, CANDt = names['OUTs'], names['OUTt'], names['ACCt'], names['CANDt']
    lhs = [st.targets[0].id for st in walk_no_nested(cmp_fn) if isinstance(st, ast.Assign) and isinstance(st.targets[0], ast.Name)
           and isinstance(st.value, ast.Call) and norm(st.value.func) == 'SemVer' and [norm(a) for a in st.value.args] == [arg]]
    if len(lhs) != 1:
        raise Undecided(f'{qn}: `x = SemVer({arg})` not found')
    L = lhs[0]
    roles: T.Dict[Atom, str] = {}
    for a in t2.atoms():
        texts = [x.replace(f'SemVer({CANDt})', L) for x in a.args if isinstance(x, str) and x not in ('eq', 'lt')]
        if a.kind == 'truth' and texts == [f'{L}.has_prerelease']:
            roles[a] = 'pre'
        elif a == Atom('truth', (ACCt,)):
            roles[a] = 'acc'
        elif any(CANDt in names_in(expr_of(x)) for x in texts):
            # must-flow-through: the candidate text reaches a decision only as SemVer(candidate)
            ctx.violation(mod, qn, f'decision on the raw candidate text: {a!r}', f'the matcher decides `{a!r}` on the raw version text instead of the parsed SemVer: build metadata '
                          f'("1.0.0+build-1"), white space and the section marker are only understood by SemVer() (the gate must be `SemVer(candidate).has_prerelease`)', cmp_fn)
            return
        elif a.kind == 'truth':
            e = expr_of(a.args[0])
            comp = None
            negated = False
            if isinstance(e, ast.Call) and norm(e.func) in ('all', 'any') and len(e.args) == 1 and isinstance(e.args[0], (ast.ListComp, ast.GeneratorExp)) and len(e.args[0].generators) == 1 \
                    and not e.args[0].generators[0].ifs:
                comp = e.args[0].generators[0]
                call = e.args[0].elt
                if norm(e.func) == 'any':
                    # any(not cmp(lhs, b) ...) is the negation of all(cmp(lhs, b) ...)
                    if not (isinstance(call, ast.UnaryOp) and isinstance(call.op, ast.Not)):
                        raise Undecided(f'{qn}: atom {a!r}')
                    call = call.operand
                    negated = True
            else:
                fl = [s for s in cmp_fn.body if isinstance(s, ast.For)]
                if len(fl) == 1:
                    comp = fl[0]
                call = e
            tgt = comp.target if comp is not None else None
            if comp is not None and norm(comp.iter) in (OUTs, OUTt) and isinstance(tgt, ast.Name) and isinstance(call, ast.Call):
                # the pair kept as one record: `c.op(lhs, c.bound)` or a method of the record class doing that
                rec = tgt.id
                recs = [k for k in mod.classes().values() if any((attr_chain(b) or '').split('.')[-1] == 'NamedTuple' for b in k.bases)]
                for k in recs:
                    fields = [x.target.id for x in k.body if isinstance(x, ast.AnnAssign) and isinstance(x.target, ast.Name)]
                    if len(fields) != 2:
                        continue
                    c2: T.Optional[ast.AST] = call
                    meth = [x for x in k.body if isinstance(x, ast.FunctionDef) and isinstance(call.func, ast.Attribute) and norm(call.func.value) == rec and x.name == call.func.attr]
                    if meth and len(meth[0].body) >= 1 and isinstance(meth[0].body[-1], ast.Return) and meth[0].body[-1].value is not None:
                        b0 = bind_call(call, meth[0])
                        b0[meth[0].args.args[0].arg] = ast.Name(id=rec, ctx=ast.Load())
                        c2 = _Rename(b0).visit(copy.deepcopy(meth[0].body[-1].value))
                    sub = {f'{rec}.{fields[0]}': '%F', f'{rec}.{fields[1]}': '%B'}
                    txt = norm(c2)
                    for a0, b0_ in sub.items():
                        txt = txt.replace(a0, b0_)
                    if txt in (f'%F({L}, %B)', f'%F(%B, {L})'):
                        tgt = ast.Tuple(elts=[ast.Name(id='%F', ctx=ast.Load()), ast.Name(id='%B', ctx=ast.Load())], ctx=ast.Load())
                        call = ast.Call(func=ast.Name(id='%F', ctx=ast.Load()), args=[ast.Name(id=x, ctx=ast.Load()) for x in ((L, '%B') if txt.startswith(f'%F({L}') else ('%B', L))], keywords=[])
                        break
            if not (comp is not None and norm(comp.iter) in (OUTs, OUTt) and isinstance(tgt, ast.Tuple) and len(tgt.elts) == 2 and isinstance(call, ast.Call) and len(call.args) == 2):
                raise Undecided(f'{qn}: atom {a!r} is not a comparison of the candidate with an appended pair of `{OUT}`')
            f, b = norm(tgt.elts[0]), norm(tgt.elts[1])
            if norm(call.func) == f and [norm(x) for x in call.args] == [L, b]:
                roles[a] = 'ncall' if negated else 'call'
            elif norm(call.func) == f and [norm(x) for x in call.args] == [b, L]:
                ctx.violation(mod, qn, call, f'the matcher evaluates `{short(call)}`: operands swapped - the pairs are (comparator, bound) and the candidate version '
                              f'must be the left operand (`>= 1.2` would accept exactly the versions <= 1.2)', cmp_fn)
                return
            else:
                raise Undecided(f'{qn}: atom {a!r}')
        else:
            raise Undecided(f'{qn}: atom {a!r}')
    bad = None
    nrows = 0
    for r in t2.rows:
        v = {roles[a]: val for a, val in r.conds.items()}
        if 'ncall' in v:
            v['call'] = not v.pop('ncall')
        if r.outcome[0] != 'return' or r.outcome[1] not in ('True', 'False'):
            raise Undecided(f'{qn}: row {r!r}')
        gotv = r.outcome[1] == 'True'
        # worlds compatible with the row; the reference must agree on all of them
        for pre, acc in itertools.product((True, False), repeat=2):
            if v.get('pre', pre) != pre or v.get('acc', acc) != acc:
                continue
            want = False if (pre and not acc) else v.get('call', True)
            nrows += 1
            if gotv != want and bad is None:
                bad = (r, f'candidate pre-release={pre}, a constraint names a pre-release={acc}, comparison result={v.get("call", "no constraint left")}: '
                          f'the matcher returns {gotv}, expected {want}')
    if 'call' not in roles.values() and 'ncall' not in roles.values():
        raise Undecided(f'{qn}: no comparison of the candidate with the appended pairs is visible in this function (delegated to a helper?)')
    if bad is None:
        ctx.ok(f'{qn}: {len(t2.rows)} rows: pre-release candidates need a pre-release constraint (gate), every pair must hold (conjunction), candidate is the left operand')
    else:
        node = bad[0].path.events[-1].node if bad[0].path.events else cmp_fn
        ctx.violation(mod, qn, f'matcher :: {norm(node)}', bad[1] + f' (row `{bad[0]!r}`)', node)


# =====================================================================================================
# R1c  next_ver / list constructor / has_prerelease (expression shapes)
# =====================================================================================================

def _first_three(e: ast.AST) -> T.Optional[str]:
    """'copy3' when e is a fresh list of the first three components of self._v; 'alias' / 'copyall' for the
    two recognisable wrong shapes; None otherwise."""
    inner = e.args[0] if isinstance(e, ast.Call) and norm(e.func) == 'list' and len(e.args) == 1 else e
    if isinstance(e, ast.List) and len(e.elts) == 1 and isinstance(e.elts[0], ast.Starred):
        inner = e.elts[0].value                    # [*self._v[:3]]
    if isinstance(e, ast.Call) and isinstance(e.func, ast.Attribute) and e.func.attr == 'copy' and not e.args:
        inner = e.func.value                       # self._v[:3].copy()
    if isinstance(inner, ast.Subscript) and isinstance(inner.value, ast.Call) and norm(inner.value) == 'list(self._v)':
        inner = ast.Subscript(value=inner.value.args[0], slice=inner.slice, ctx=ast.Load())     # list(self._v)[:3]
    if isinstance(inner, ast.Subscript) and norm(inner.value) == 'self._v' and isinstance(inner.slice, ast.Slice) and inner.slice.step is None:
        lo, up = inner.slice.lower, inner.slice.upper
        if (lo is None or (isinstance(lo, ast.Constant) and lo.value == 0)) and isinstance(up, ast.Constant):
            return 'copy3' if up.value == 3 else f'copy{up.value}'
        if lo is None and up is None:
            return 'copyall'
    if norm(inner) == 'self._v':
        return 'copyall' if inner is not e else 'alias'
    return None


def r1_next_ver(ctx: RuleCtx) -> None:
    mod = ctx.repo.module(VERSION)
    fn = nf(mod, 'SemVer.next_ver')
    idx = fn.args.args[1].arg
    rets = [s for s in walk_no_nested(fn) if isinstance(s, ast.Return)]
    retv = rets[0].value if len(rets) == 1 else None
    extra_known: T.List[ast.stmt] = []
    if isinstance(retv, ast.Name):
        # `result = SemVer(v); return result`
        rdefs = [s for s in walk_no_nested(fn) if isinstance(s, ast.Assign) and norm(s.targets[0]) == retv.id]
        if len(rdefs) == 1:
            retv = rdefs[0].value
            extra_known.append(rdefs[0])
    comp_zero = None
    if isinstance(retv, ast.Call) and len(retv.args) == 1 and isinstance(retv.args[0], ast.ListComp) and len(retv.args[0].generators) == 1:
        # return SemVer([0 if i in range(idx + 1, 3) else c for i, c in enumerate(v)]): the zeroing done while copying
        lc = retv.args[0]
        g0 = lc.generators[0]
        if isinstance(g0.iter, ast.Call) and norm(g0.iter.func) == 'enumerate' and len(g0.iter.args) == 1 and isinstance(g0.iter.args[0], ast.Name) and not g0.ifs \
                and isinstance(g0.target, ast.Tuple) and len(g0.target.elts) == 2 and isinstance(lc.elt, ast.IfExp):
            iname, cname = norm(g0.target.elts[0]), norm(g0.target.elts[1])
            ldefs = {norm(st.targets[0]): st for st in walk_no_nested(fn) if isinstance(st, ast.Assign) and isinstance(st.targets[0], ast.Name)}
            a0, pol0 = tables.canon(resolve(lc.elt.test, {k: v.value for k, v in ldefs.items() if k not in (norm(g0.iter.args[0]),)}), True)
            yes, no = (lc.elt.body, lc.elt.orelse) if pol0 else (lc.elt.orelse, lc.elt.body)
            if norm(no) == cname and isinstance(yes, ast.Constant):
                comp_zero = (a0, norm(yes), iname, [st for k, st in ldefs.items() if k in names_in(lc.elt.test)])
                retv = ast.Call(func=retv.func, args=[g0.iter.args[0]], keywords=[])
    if not (isinstance(retv, ast.Call) and norm(retv.func) in ('SemVer', 'type(self)', 'self.__class__') and len(retv.args) == 1 and isinstance(retv.args[0], ast.Name) and not retv.keywords):
        raise Undecided('next_ver: expected a single `return SemVer(<local list>)`')
    V = retv.args[0].id
    defs = [s for s in walk_no_nested(fn) if isinstance(s, ast.Assign) and norm(s.targets[0]) == V]
    if len(defs) != 1:
        raise Undecided(f'next_ver: {len(defs)} definitions of {V}')
    kind = _first_three(defs[0].value)
    if kind is None:
        raise Undecided(f'next_ver: {V} = {short(defs[0].value)} is not a copy of self._v components')
    ctx.require(kind == 'copy3', f'next_ver: works on a fresh copy of the three release components ({short(defs[0].value)})', mod, 'SemVer.next_ver', defs[0],
                {'alias': f'{V} aliases self._v: the bump mutates the receiver and keeps the pre-release',
                 'copyall': f'{V} copies all of self._v: the pre-release identifiers are kept in the bumped version'}.get(kind, f'{V} holds {kind}, not the three release components'), defs[0])
    # straight-line part: copy propagation gives  V[idx] = V[idx] + 1
    tab = tables.extract(fn, effects=eff, inline=False, name='SemVer.next_ver')
    bumps = set()
    for r in tab.rows:
        env, rest = propagate(stmts_of(r), opaque=[V])
        for st in rest:
            if isinstance(st, ast.Assign) and isinstance(st.targets[0], ast.Subscript) and norm(st.targets[0]) == f'{V}[ARG1]':
                bumps.add(norm(st.value).replace('ARG1', idx))
            elif isinstance(st, ast.AugAssign) and norm(st.target) == f'{V}[ARG1]':
                bumps.add(f'{V}[{idx}] {dict(Add="+", Sub="-", Mult="*").get(st.op.__class__.__name__, "?")} {norm(st.value)}')
    cell = f'{V}[{idx}]'
    # statements of next_ver that this rule does not account for: with any of them present an *absence* is not provable
    known = [defs[0], rets[0]] + extra_known + (comp_zero[3] if comp_zero else [])
    unread = [st for st in fn.body if st not in known and not isinstance(st, (ast.Assert, ast.For)) and not (isinstance(st, ast.Expr) and isinstance(st.value, ast.Constant))
              and not (isinstance(st, ast.Assign) and isinstance(st.targets[0], ast.Name) and norm(st.value) in (f'{V}[{idx}]',))
              and not (isinstance(st, ast.Assign) and norm(st.targets[0]) == f'{V}[{idx}]')
              and not (isinstance(st, ast.AugAssign) and norm(st.target) == f'{V}[{idx}]')]
    if not bumps and unread:
        raise Undecided(f'next_ver: no `{V}[{idx}] = ...` found and `{short(unread[0])}` is not read by this rule')
    ok = bumps and bumps <= {f'{cell} + 1', f'1 + {cell}'}
    ctx.require(bool(ok), f'next_ver: {cell} = {cell} + 1', mod, 'SemVer.next_ver', f'bump of {cell}', f'the component at the index is set to {sorted(bumps)}; expected {cell} + 1', fn)
    # zeroing of the lower components: for i in range(idx + 1, 3): V[i] = 0
    loops = [s for s in fn.body if isinstance(s, ast.For)]
    zero = None
    for lp in loops:
        if isinstance(lp.target, ast.Name) and isinstance(lp.iter, ast.Call) and norm(lp.iter.func) == 'range' and len(lp.body) == 1 and not lp.orelse \
                and isinstance(lp.body[0], ast.Assign) and norm(lp.body[0].targets[0]) == f'{V}[{lp.target.id}]':
            zero = lp
    if comp_zero is not None and not loops:
        a0, fill, iname, _ = comp_zero
        ok = fill == '0' and (a0 == Atom('in', (iname, f'range({idx} + 1, 3)')) or a0 == Atom('cmp', ('lt', idx, iname)))
        ctx.require(ok, f'next_ver: components {idx}+1..2 are replaced by 0 while the list is rebuilt', mod, 'SemVer.next_ver', 'zeroing comprehension',
                    f'the rebuilt list puts {fill} where `{a0!r}`; expected 0 for the positions range({idx} + 1, 3)', rets[0])
        zero = 'slice'     # type: ignore[assignment]
    slice_zero = [st for st in unread if isinstance(st, ast.Assign) and norm(st.targets[0]) in (f'{V}[{idx} + 1:]', f'{V}[1 + {idx}:]', f'{V}[{idx} + 1:3]')]
    if zero is None and len(slice_zero) == 1 and len(unread) == 1 and not loops:
        val = norm(slice_zero[0].value)
        if val in (f'[0] * (2 - {idx})', f'[0] * (3 - ({idx} + 1))', f'[0] * (3 - {idx} - 1)'):
            ctx.ok(f'next_ver: components {idx}+1..2 are set to 0 by one slice assignment ({norm(slice_zero[0])})')
            zero = 'slice'     # type: ignore[assignment]
        else:
            raise Undecided(f'next_ver: `{norm(slice_zero[0])}` may zero the lower components in a form this rule does not read')
    if zero is None and (unread or [lp for lp in loops]):
        raise Undecided(f'next_ver: the lower components may be zeroed by `{short((unread or loops)[0])}`, a form this rule does not read')
    if zero is None:
        ctx.violation(mod, 'SemVer.next_ver', 'lower components are zeroed', f'no loop `for i in range({idx} + 1, 3): {V}[i] = 0` found: bumping minor must reset patch (1.2.3 -> 1.3.0)', fn)
    elif zero != 'slice':
        rargs = [norm(a) for a in zero.iter.args]     # type: ignore[attr-defined]
        ok = rargs in ([f'{idx} + 1', '3'], [f'1 + {idx}', '3']) and norm(zero.body[0].value) == '0'     # type: ignore[attr-defined]
        ctx.require(ok, f'next_ver: components {idx}+1..2 are set to 0', mod, 'SemVer.next_ver', zero,
                    f'the zeroing loop is `for {zero.target.id} in range({", ".join(rargs)}): {norm(zero.body[0])}`; expected range({idx} + 1, 3) and the value 0', zero)     # type: ignore[attr-defined]
    # has_prerelease: slot 3 == -1
    hp = nf(mod, 'SemVer.has_prerelease')
    hrets = [s for s in walk_no_nested(hp) if isinstance(s, ast.Return)]
    if len(hrets) != 1 or hrets[0].value is None:
        raise Undecided('has_prerelease: expected one return')
    a, pol = tables.canon(hrets[0].value, True)
    ok = a.kind == 'cmp' and a.args[0] == 'eq' and pol is True and {a.args[1], a.args[2]} == {'self._v[3]', '-1'}
    ctx.require(ok, 'has_prerelease: slot 3 == -1', mod, 'SemVer.has_prerelease', hrets[0], f'has_prerelease returns `{norm(hrets[0].value)}`; the marker of a pre-release is _v[3] == -1', hrets[0])
    # list constructor + final padding: _v = list(in_) padded with 0 up to four slots (slot 3 = 0: release); count = min(3, len)
    init = nf(mod, 'SemVer.__init__')
    inp = init.args.args[1].arg
    top = [s for s in init.body if isinstance(s, ast.If)]
    if len(top) != 1:
        raise Undecided('SemVer.__init__: expected one top-level `if isinstance(<input>, str)`')
    a, pol = tables.canon(top[0].test, True)
    if not (a == Atom('isinstance', (inp, ('str',))) and pol):
        raise Undecided(f'SemVer.__init__: top-level test is {a!r}')
    tail = init.body[init.body.index(top[0]) + 1:]
    tab = tables.extract(init, body=top[0].orelse + tail, effects=eff, inline=False, name='SemVer.__init__:list')
    nrow = 0
    for r in tab.rows:
        env, rest = propagate(stmts_of(r))
        stores = {norm(st.targets[0]): norm(st.value) for st in rest if isinstance(st, ast.Assign) and isinstance(st.targets[0], ast.Attribute)}
        if 'self._v' not in stores:
            continue
        nrow += 1
        ok = stores.get('self._v') in ('list(ARG1)', '[*ARG1]', 'ARG1[:]', 'ARG1.copy()', 'list(ARG1[:])') \
            and stores.get('self.specified_count') in ('min(3, len(ARG1))', 'min(len(ARG1), 3)')
        if not ok and not (stores.get('self._v', '').startswith(('list(', '[', 'ARG1')) and 'min(' in stores.get('self.specified_count', '')):
            raise Undecided(f'SemVer(list): the constructor stores {stores}, a form this rule does not read')
        ctx.require(ok, 'SemVer(list): _v = list(input), specified_count = min(3, len(input))', mod, 'SemVer.__init__', 'list constructor',
                    f'the list constructor stores {stores}', top[0])
    ctx.floor('SemVer(list) rows', nrow, 1)
    pads4 = [s for s in tail if isinstance(s, ast.While)]
    okp = False
    for w in pads4:
        a, pol = tables.canon(w.test, True)
        if a.kind == 'cmp' and a.args[0] == 'lt' and pol and a.args[2] == '4' and a.args[1].startswith('len('):
            vec = a.args[1][4:-1]
            okp = len(w.body) == 1 and norm(w.body[0]) == f'{vec}.append(0)'
            ctx.require(okp, 'SemVer: the vector is padded with 0 up to four slots (slot 3 = 0 marks a release)', mod, 'SemVer.__init__', w,
                        f'the padding loop is `while {norm(w.test)}: {norm(w.body[0])}`; slot 3 of a release must be 0', w)
    if not pads4:
        # the same padding as one statement: vec.extend([0] * (4 - len(vec)))
        ext = [st for st in tail if isinstance(st, (ast.Expr, ast.AugAssign)) and _re.fullmatch(r'(\w+)\.extend\(\[(-?\d+)\] \* \(4 - len\(\1\)\)\)|(\w+) \+= \[(-?\d+)\] \* \(4 - len\(\3\)\)', norm(st))]
        if len(ext) != 1:
            raise Undecided('SemVer.__init__: final padding (`while len(vec) < 4: vec.append(0)` or `vec.extend([0] * (4 - len(vec)))`) not found')
        mm = _re.fullmatch(r'(\w+)\.extend\(\[(-?\d+)\] \* \(4 - len\(\1\)\)\)|(\w+) \+= \[(-?\d+)\] \* \(4 - len\(\3\)\)', norm(ext[0]))
        fill = mm.group(2) or mm.group(4)     # type: ignore[union-attr]
        ctx.require(fill == '0', 'SemVer: the vector is padded with 0 up to four slots (slot 3 = 0 marks a release)', mod, 'SemVer.__init__', ext[0],
                    f'the padding statement is `{norm(ext[0])}`; slot 3 of a release must be 0', ext[0])


# =====================================================================================================
# R2  SemVer ordering structure
# =====================================================================================================

def _padded_pairing(ctx: RuleCtx, mod: Module, core: str) -> None:
    """Components paired with `zip_longest(a, b, fillvalue=C)` where C is itself a legal component (an int or a str): the vectors v and
    v + [C] then produce the same pairs, so no loop body can tell them apart, although the longer one must rank higher (length key)."""
    try:
        name, fn = cmpcore.core_method(mod, 'SemVer', core)
    except Undecided:
        return
    for lp in [x for x in ast.walk(fn) if isinstance(x, ast.For)]:
        it = lp.iter
        if isinstance(it, ast.Call) and norm(it.func).split('.')[-1] == 'zip_longest' and len(it.args) == 2:
            fill = [k.value for k in it.keywords if k.arg == 'fillvalue']
            if len(fill) == 1 and isinstance(fill[0], ast.Constant) and isinstance(fill[0].value, (int, str)) and not isinstance(fill[0].value, bool):
                c = fill[0].value
                ctx.violation(mod, f'SemVer.{name}', 'component vectors padded with a legal component', f'the core pairs the components with `{short(it)}`: the padding value {c!r} '
                              f'is itself a legal component, so a vector and the same vector followed by {c!r} give identical pairs and compare equal '
                              f'(1.0.0-a vs 1.0.0-a.{c}), but a larger set of pre-release fields has higher precedence (SemVer 11.4.4: the length key is lost)', lp)


def _comparator_dispatch(ctx: RuleCtx, mod: Module, core: str) -> None:
    """A result of the core that *selects by the identity of the comparator* (`x if comparator is operator.gt else y`) instead of applying
    it: decided by enumerating the finite domain the source declares - the four operators the dunders pass - against the kind rule
    (numeric below alphanumeric): when the kinds differ, < and <= hold iff ours is the int, > and >= iff theirs is."""
    name, fn = cmpcore.core_method(mod, 'SemVer', core)
    loops = [x for x in fn.body if isinstance(x, ast.For)]
    if len(loops) != 1 or not (isinstance(loops[0].iter, ast.Call) and norm(loops[0].iter.func) == 'zip' and isinstance(loops[0].target, ast.Tuple) and len(loops[0].target.elts) == 2):
        return
    lp = loops[0]
    side = {}
    for t, a in zip(lp.target.elts, lp.iter.args):
        side[norm(t)] = 'ours' if 'self' in names_in(a) else 'theirs'
    if sorted(side.values()) != ['ours', 'theirs']:
        return
    tab = tables.extract(fn, body=lp.body, name=f'SemVer.{name}:loop')
    for r in tab.rows:
        if r.outcome[0] != 'return':
            continue
        e = expr_of(r.outcome[1])
        ident = {a: v for a, v in r.conds.items() if a.kind == 'is' and a.args[1].startswith('operator.') and a.args[0].startswith('ARG')}
        if not ident and not (isinstance(e, ast.IfExp) and 'operator.' in norm(e.test)):
            continue
        differ = any(a.kind == 'cmp' and a.args[0] == 'eq' and v is False and all(x.startswith('isinstance(') for x in a.args[1:]) for a, v in r.conds.items())
        if not differ:
            raise Undecided(f'SemVer.{name}: result `{short(e)}` selects by comparator identity outside the kind test')
        for op in cmpcore.DUNDER_OP.values():
            if any((a.args[1] == f'operator.{op}') != v for a, v in ident.items()):
                continue     # this row is not taken for that operator
            leaf: ast.AST = e
            while isinstance(leaf, ast.IfExp):
                a, pol = tables.canon(leaf.test, True)
                if not (a.kind == 'is' and a.args[1].startswith('operator.') and a.args[0].startswith('ARG')):
                    raise Undecided(f'SemVer.{name}: comparator test {a!r}')
                leaf = leaf.body if ((a.args[1] == f'operator.{op}') == pol) else leaf.orelse
            if isinstance(leaf, ast.Call) and norm(leaf.func).startswith('ARG'):
                continue     # the comparator is applied: judged by the ranking-key rule
            m = _re.fullmatch(r'isinstance\((\w+), int\)', norm(leaf))
            if m is None or m.group(1) not in side:
                raise Undecided(f'SemVer.{name}: result `{short(leaf)}` for operator.{op} is not a kind flag')
            want = 'ours' if op in ('lt', 'le') else 'theirs'
            ctx.require(side[m.group(1)] == want, f'SemVer.{name}: kinds differ, operator.{op}: result is "{want} is the numeric one"', mod, f'SemVer.{name}', r.path.events[-1].node,
                        f'when one component is numeric and the other alphanumeric the core returns `{norm(leaf)}` for operator.{op}; SemVer (numeric below alphanumeric) requires '
                        f'"{want} is the int" (e.g. 1.0.0-1 {dict(lt="<", le="<=", gt=">", ge=">=")[op]} 1.0.0-alpha)', r.path.events[-1].node)


COMPLEMENT = {'lt': 'ge', 'ge': 'lt', 'gt': 'le', 'le': 'gt'}


def _prepare_dunders(ctx: RuleCtx, mod: Module, cls: str) -> None:
    """Normal form of the four ordering dunders before the shared core reader looks at them (the module index of this run is
    completed / rewritten in memory, nothing is written anywhere):
    * a dunder made by a class-body factory (`__lt__ = _ordering(operator.lt)`, the factory returning a nested def) is materialised
      as that nested def with the factory's parameters bound by signature;
    * a dunder derived from the opposite comparison (`return not self.core(x, operator.gt)` for <=) is rewritten to the direct call
      when the operator is the exact complement (total order: <= is not >, >= is not <, < is not >=, > is not <=); any other
      operator under the negation is a finding."""
    k = mod.cls(cls)
    factories = {x.name: x for x in k.body if isinstance(x, ast.FunctionDef)}
    for st in k.body:
        if isinstance(st, ast.Assign) and len(st.targets) == 1 and isinstance(st.targets[0], ast.Name) and st.targets[0].id in cmpcore.DUNDER_OP \
                and isinstance(st.value, ast.Call) and isinstance(st.value.func, ast.Name) and st.value.func.id in factories:
            fac = factories[st.value.func.id]
            body = [x for x in fac.body if not (isinstance(x, ast.Expr) and isinstance(x.value, ast.Constant))]
            if len(body) == 2 and isinstance(body[0], ast.FunctionDef) and isinstance(body[1], ast.Return) and norm(body[1].value) == body[0].name:
                try:
                    bound = bind_call(st.value, fac)
                except Undecided:
                    continue
                new = _Rename(bound).visit(copy.deepcopy(body[0]))
                new.name = st.targets[0].id
                mod._funcs[f'{cls}.{new.name}'] = ast.fix_missing_locations(new)     # type: ignore[attr-defined]
    meths = mod.methods(cls)
    for d, op in cmpcore.DUNDER_OP.items():
        fn = meths.get(d)
        if fn is None:
            continue
        nots = [r for r in ast.walk(fn) if isinstance(r, ast.Return) and isinstance(r.value, ast.UnaryOp) and isinstance(r.value.op, ast.Not) and isinstance(r.value.operand, ast.Call)]
        if not nots:
            continue
        new_fn = copy.deepcopy(fn)
        for r in [r for r in ast.walk(new_fn) if isinstance(r, ast.Return) and isinstance(r.value, ast.UnaryOp) and isinstance(r.value.op, ast.Not) and isinstance(r.value.operand, ast.Call)]:
            call = r.value.operand     # type: ignore[union-attr]
            ops = [a for a in call.args if (attr_chain(a) or '').startswith('operator.')]
            if len(ops) != 1:
                raise Undecided(f'{cls}.{d}: negated result `{short(r.value)}` without exactly one operator.* argument')
            used = attr_chain(ops[0]).split('.')[1]     # type: ignore[union-attr]
            ctx.require(used == COMPLEMENT[op], f'{cls}.{d}: derived as `not {COMPLEMENT[op]}` (the exact complement in a total order)', mod, f'{cls}.{d}', r.value,     # type: ignore[arg-type]
                        f'{d} returns `{short(r.value)}`: the negation of operator.{used} is operator.{COMPLEMENT.get(used, "?")}, not operator.{op} '
                        f'(e.g. `not >=` is the strict `<`, so a <= a would be False); the complement of operator.{op} is operator.{COMPLEMENT[op]}', r)
            call.args = [ast.Attribute(value=ast.Name(id='operator', ctx=ast.Load()), attr=op, ctx=ast.Load()) if a is ops[0] else a for a in call.args]
            r.value = call
        mod._funcs[f'{cls}.{d}'] = ast.fix_missing_locations(new_fn)     # type: ignore[attr-defined]


def r2_core(ctx: RuleCtx) -> None:
    mod = ctx.repo.module(VERSION)
    _prepare_dunders(ctx, mod, 'SemVer')
    core = cmpcore.one_core(ctx, mod, 'SemVer')
    if core is None:
        return
    _padded_pairing(ctx, mod, core)
    _comparator_dispatch(ctx, mod, core)
    keys = cmpcore.ranking_keys(ctx, mod, 'SemVer', core)
    want = [('isinstance(@, int)', 'desc'), ('@', 'asc'), ('len(@)', 'asc')]
    ctx.require(keys == want, f'SemVer ranking keys {keys}', mod, f'SemVer.{core}', 'ranking keys',
                f'ranking keys are {keys}; SemVer section 11 (numeric below alphanumeric, value ascending, more fields is greater) is {want}')
    # the dunders hand the core the same field of `other` that the core pairs with its own
    meths = mod.methods('SemVer')
    name = core if core in meths else f'_SemVer{core}'
    # read on the normalised core (locals resolved by reaching definition: a hoisted `mine = self._v` is self._v again)
    own0, theirs0, other = cmpcore.zip_operands(mod, 'SemVer', core)
    own, theirs = [own0], [theirs0]
    field = own[0][len('self.'):]
    suffix = theirs[0][len(other):]     # '' when the parameter already is the field value, '._v' when it is the object
    for d in cmpcore.DUNDER_OP:
        dfn = meths[d]
        oparam = dfn.args.args[1].arg
        cs = [c for c in ast.walk(dfn) if isinstance(c, ast.Call) and isinstance(c.func, ast.Attribute) and c.func.attr in (core, name)]
        for c in cs:
            passed = [norm(a) for a in c.args if not (attr_chain(a) or '').startswith('operator.')]
            wanted = f'{oparam}.{field}' if suffix == '' else oparam
            ctx.require(passed == [wanted], f'SemVer.{d} hands {wanted} to the core (paired with self.{field})', mod, f'SemVer.{d}', c,
                        f'{d} passes {passed} to the core, which pairs its argument with self.{field}; expected {wanted}')


def split_alternatives(pattern: str) -> T.List[str]:
    """Top-level alternatives of a regex, as pattern texts."""
    out, cur, depth, i, in_cls = [], '', 0, 0, False
    while i < len(pattern):
        ch = pattern[i]
        if ch == '\\' and i + 1 < len(pattern):
            cur += pattern[i:i + 2]
            i += 2
            continue
        if in_cls:
            if ch == ']':
                in_cls = False
        elif ch == '[':
            in_cls = True
            if pattern[i + 1:i + 2] == '^':
                cur += ch
                i += 1
                ch = pattern[i]
            if pattern[i + 1:i + 2] == ']':
                cur += ch
                i += 1
                ch = pattern[i]
        elif ch == '(':
            depth += 1
        elif ch == ')':
            depth -= 1
        elif ch == '|' and depth == 0:
            out.append(cur)
            cur = ''
            i += 1
            continue
        cur += ch
        i += 1
    out.append(cur)
    return out


def _not_included(p_small: str, p_big: str, max_len: int = 6) -> T.Optional[str]:
    """A string fully matched by p_small but not by p_big, or None when L(p_small) is included in L(p_big)
    (both automata of sa.rx are simulated deterministically over the shared representative alphabet; sa.rx itself
    offers intersection only)."""
    n1, n2 = rx.build(p_small), rx.build(p_big)
    alpha = rx.alphabet(p_small, p_big)
    start = (n1.closure([n1.start]), n2.closure([n2.start]))
    seen = {start: ''}
    todo = [start]
    while todo:
        nxt = []
        for st in todo:
            w = seen[st]
            if n1.accept in st[0] and n2.accept not in st[1]:
                return w
            if len(w) >= max_len:
                continue
            for c in alpha:
                a = n1.step(st[0], c)
                if not a:
                    continue
                b = n2.step(st[1], c)
                if (a, b) not in seen:
                    seen[(a, b)] = w + c
                    nxt.append((a, b))
        todo = nxt
    return None


def _tok_language(ctx: RuleCtx, mod: Module) -> T.Dict[str, T.Any]:
    """Regex-language facts of the tokenizer: which alternative feeds which group."""
    r = fold_expr(ctx.repo, mod, mod.assign_value('_SEMVER_TOK_RE'))
    if not isinstance(r, Regex) or r.flags:
        raise Undecided(f'_SEMVER_TOK_RE does not fold to a flag-less regex: {r!r}')
    alts = split_alternatives(r.pattern)
    if len(alts) != len(rx.branch_alternatives(r.pattern)) or len(alts) not in (2, 3):
        raise Undecided(f'_SEMVER_TOK_RE: expected the top-level alternatives digits | identifier [| build], got {alts}')
    for a in alts:
        try:
            c = _re.compile(a)
        except _re.error as e:
            raise Undecided(f'_SEMVER_TOK_RE alternative {a!r}: {e}')
        if c.groups != 1 or not (a.startswith('(') and a.endswith(')')):
            raise Undecided(f'_SEMVER_TOK_RE alternative {a!r} is not one capturing group')
    digits, ident, build = (alts + [None])[:3]     # two alternatives: no build token; the tokenizer must then run over the text cut at the first '+' (R2b, loop)
    ANY = r'[\s\S]*'
    w = rx.intersects(digits, ANY + r'[^0-9]' + ANY)
    ctx.require(w is None and not rx.full_matches(digits, '') and rx.full_matches(digits, '10'), 'digit branch: language is [0-9]+ (int(group(1)) is total)', mod, '<module>',
                '_SEMVER_TOK_RE digit branch', f'the first alternative {digits!r} also matches {w!r}: int(group(1)) is not total / the branch is not the numeric-identifier branch')
    # the identifier alternative is exactly the SemVer identifier class with a non-digit first character (SemVer 2.0.0 section 9:
    # identifiers comprise only [0-9A-Za-z-]); both inclusions are decided on the product of the determinised automata
    REF_IDENT = r'([A-Za-z-][0-9A-Za-z-]*)'
    extra = _not_included(ident, REF_IDENT)
    lost = _not_included(REF_IDENT, ident)
    ctx.require(extra is None and lost is None, 'identifier branch: language is exactly [A-Za-z-][0-9A-Za-z-]*', mod, '<module>', '_SEMVER_TOK_RE identifier branch',
                f'the identifier alternative {ident!r} is not the SemVer identifier class: ' +
                (f'it matches {extra!r}, which is not an identifier; ' if extra is not None else '') +
                (f'it does not match the whole identifier {lost!r} (an inner "-" or digit then splits one pre-release identifier into two, '
                 f'e.g. 1.0.0-rc-1 is read as rc, -1)' if lost is not None else ''))
    w = rx.intersects(digits, ident)
    ctx.require(w is None, 'digit and identifier branches are disjoint', mod, '<module>', '_SEMVER_TOK_RE branches', f'{w!r} is matched by both the digit and the identifier alternative')
    w = rx.intersects(build, r'[^+]' + ANY) if build is not None else None
    w2 = rx.intersects(build, r'\+[0-9A-Za-z.-]+') if build is not None else None
    if build is not None:
        ctx.require(w is None and w2 is not None and not rx.full_matches(build, ''), 'build branch: + followed by the rest of the text', mod, '<module>', '_SEMVER_TOK_RE build branch',
                    f'the third alternative {build!r} matches {w!r} / does not cover "+meta.1"')
    for ch in '+.':
        ctx.require(not rx.matches_char(digits, ch) and not rx.matches_char(ident, ch), f'digit/identifier tokens cannot contain {ch!r}', mod, '<module>',
                    f'_SEMVER_TOK_RE token containing {ch}', f'a digit or identifier token can contain {ch!r}: identifiers / build metadata are no longer separated')
    ctx.note(f'tokenizer language: alternatives {alts}')
    return {'pattern': r.pattern, 'digits': digits, 'ident': ident, 'build': build}


def _guarded_int(e: ast.AST, core: str) -> bool:
    """`int(X) if X.isdigit() else X` (isdecimal / isnumeric accepted) for X == core."""
    if not isinstance(e, ast.IfExp):
        return False
    a, pol = tables.canon(e.test, True)
    yes, no = (e.body, e.orelse) if pol else (e.orelse, e.body)
    return a.kind == 'truth' and a.args[0] in (f'{core}.isdigit()', f'{core}.isdecimal()') and norm(yes) == f'int({core})' and norm(no) == core


def _assembly(ctx: RuleCtx, mod: Module, host: ast.FunctionDef, hq: str, loop: ast.For, vec: str, R: str, P: str, PRE: Atom) -> None:
    """Split accumulators (release list R, pre-release list P): the statements that follow the token loop join them into the vector.
    Read along every path in order, with aliases resolved: without a pre-release the vector is R untouched; with one it is R padded to three
    components, then -1, then P.  The component count must be the length of R *before* the padding (R is usually padded in place)."""
    def block_of(stmts: T.List[ast.stmt]) -> T.Optional[T.List[ast.stmt]]:
        if any(x is loop for x in stmts):
            return stmts
        for x in stmts:
            for fld in ('body', 'orelse', 'finalbody'):
                sub = getattr(x, fld, None)
                if isinstance(sub, list) and sub and isinstance(sub[0], ast.stmt) and not isinstance(x, (ast.FunctionDef, ast.ClassDef)):
                    got = block_of(sub)
                    if got is not None:
                        return got
        return None
    blk = block_of(host.body)
    if blk is None:
        raise Undecided(f'{hq}: the block of the token loop was not found')
    post = blk[[i for i, x in enumerate(blk) if x is loop][0] + 1:]
    cnt_stores = [s.value.id for s in walk_no_nested(host) if isinstance(s, ast.Assign) and norm(s.targets[0]) == 'self.specified_count' and isinstance(s.value, ast.Name)]
    if len(cnt_stores) != 1 or not post:
        raise Undecided(f'{hq}: `self.specified_count = <local>` / the statements joining `{R}` and `{P}` after the token loop were not found')
    N = cnt_stores[0]
    tab = tables.extract(host, body=post, effects=eff, inline=False, name=f'{hq}:join')
    pad_texts = lambda x: (f'{x}.extend([0] * (3 - len({x})))', f'{x}.extend((0,) * (3 - len({x})))', f'{x} += [0] * (3 - len({x}))')     # noqa: E731
    seen = {True: 0, False: 0}
    for r in tab.rows:
        alias: T.Dict[str, str] = {R: R, P: P}     # name -> role of its content (release / pre-release list)
        obj: T.Dict[str, str] = {R: R, P: P}       # name -> list object (a copy is a new object)
        seqs: T.Dict[str, T.List[str]] = {R: [], P: []}
        count_bad: T.Optional[bool] = None
        pre_val: T.Optional[bool] = None
        for ev in r.path.events:
            if ev.kind == 'cond' and ev.node is not None:
                a, pol = tables.canon(ev.node, True)     # type: ignore[arg-type]
                v = ev.val == pol
                if a == PRE:
                    pre_val = v
                elif a.kind == 'cmp' and a.args[0] == 'lt' and a.args[2] == '3' and a.args[1].startswith('len(') and alias.get(a.args[1][4:-1]) == R:
                    if v is False:
                        seqs[obj[a.args[1][4:-1]]].append('pad')     # exit test of `while len(x) < 3: x.append(0)`
                    else:
                        raise Undecided(f'{hq}: `{a!r}` is tested outside a padding loop')
                else:
                    raise Undecided(f'{hq}: joining `{R}` and `{P}` tests {a!r}, outside the vocabulary (pre-release flag, padding to three)')
                continue
            st = ev.node
            if ev.kind != 'stmt' or not isinstance(st, ast.stmt):
                continue
            txt = norm(st)
            c = st.value if isinstance(st, ast.Expr) and isinstance(st.value, ast.Call) else None
            tgt = norm(st.targets[0]) if isinstance(st, ast.Assign) and len(st.targets) == 1 else norm(st.target) if isinstance(st, ast.AnnAssign) and st.value is not None else None
            val = st.value if isinstance(st, (ast.Assign, ast.AnnAssign)) else None
            src_, how = (None, None)
            if val is not None:
                inner = val.args[0] if isinstance(val, ast.Call) and norm(val.func) == 'list' and len(val.args) == 1 else \
                    val.func.value if isinstance(val, ast.Call) and isinstance(val.func, ast.Attribute) and val.func.attr == 'copy' and not val.args else \
                    val.value if isinstance(val, ast.Subscript) and isinstance(val.slice, ast.Slice) and val.slice.lower is None and val.slice.upper is None and val.slice.step is None else \
                    val.elts[0].value if isinstance(val, ast.List) and len(val.elts) == 1 and isinstance(val.elts[0], ast.Starred) else None
                if isinstance(val, ast.Name) and val.id in alias:
                    src_, how = val.id, 'alias'
                elif isinstance(inner, ast.Name) and inner.id in alias:
                    src_, how = inner.id, 'copy'
            recv = norm(c.func.value) if c is not None and isinstance(c.func, ast.Attribute) else None
            if tgt is not None and src_ is not None:
                alias[tgt] = alias[src_]
                if how == 'alias':
                    obj[tgt] = obj[src_]
                else:
                    obj[tgt] = f'{obj[src_]}#{len(seqs)}'
                    seqs[obj[tgt]] = list(seqs[obj[src_]])
            elif tgt == N and isinstance(val, ast.Call) and norm(val.func) == 'len' and len(val.args) == 1 and alias.get(norm(val.args[0])) == R:
                count_bad = bool(seqs[obj[norm(val.args[0])]])     # the list measured was already padded / extended
            elif c is not None and alias.get(recv or '') == R and c.func.attr == 'append' and len(c.args) == 1 and norm(c.args[0]) == '-1':     # type: ignore[union-attr]
                seqs[obj[recv]].append('marker')     # type: ignore[index]
            elif any(txt == t for x, y in alias.items() if y == R for t in pad_texts(x)):
                seqs[obj[[x for x, y in alias.items() if y == R and txt in pad_texts(x)][0]]].append('pad')
            elif c is not None and alias.get(recv or '') == R and c.func.attr == 'extend' and len(c.args) == 1 and alias.get(norm(c.args[0])) == P:     # type: ignore[union-attr]
                seqs[obj[recv]].append('tail')     # type: ignore[index]
            elif isinstance(st, ast.AugAssign) and isinstance(st.op, ast.Add) and alias.get(norm(st.target)) == R and alias.get(norm(st.value)) == P:
                seqs[obj[norm(st.target)]].append('tail')
            elif set(alias) & names_in(st):
                raise Undecided(f'{hq}: `{short(st)}` uses the release / pre-release lists in a form this rule does not read')
        if pre_val is None:
            raise Undecided(f'{hq}: a path joining `{R}` and `{P}` does not test the pre-release flag (row `{r!r}`)')
        if alias.get(vec) != R:
            raise Undecided(f'{hq}: the vector `{vec}` is not the release list `{R}` (or a copy of it) on the row `{r!r}`')
        if count_bad is None:
            raise Undecided(f'{hq}: `{N} = len({R})` not found on the row `{r!r}`')
        seq = seqs[obj[vec]]
        seen[pre_val] += 1
        node = r.path.events[-1].node if r.path.events else loop
        want = ['pad', 'marker', 'tail'] if pre_val else []
        ctx.require(seq == want, f'{hq}: joined vector {"with" if pre_val else "without"} a pre-release: release components{", padding to three, -1, the identifiers" if pre_val else " only"}',
                    mod, hq, f'pre-release start :: joined vector, pre-release {pre_val}',
                    f'after the token loop the row `{r!r}` builds the vector from the release list by {seq}; expected {want} (pad = zeros up to three components, marker = -1 in slot 3, '
                    f'tail = the pre-release identifiers): e.g. SemVer("1-rc")._v must be [1, 0, 0, -1, "rc"]', node)
        ctx.require(not count_bad, f'{hq}: the component count is the length of the release list before it is padded', mod, hq, 'component count :: length of the release list',
                    f'`{N} = len(...)` is evaluated after the release list was padded to three components: "1-rc" would count 3 specified components (`<=1-rc`, `~1-rc` bump the wrong one)', node)
    if not seen[True] or not seen[False]:
        raise Undecided(f'{hq}: the statements after the token loop do not distinguish versions with and without a pre-release')


def r2_tokens(ctx: RuleCtx) -> None:
    mod = ctx.repo.module(VERSION)
    init = nf(mod, 'SemVer.__init__')
    facts = _tok_language(ctx, mod)
    def tok_loops(f: ast.AST) -> T.List[ast.For]:
        return [s for s in ast.walk(f) if isinstance(s, ast.For) and isinstance(s.iter, ast.Call) and isinstance(s.iter.func, ast.Attribute) and s.iter.func.attr == 'finditer']
    inp = init.args.args[1].arg
    stores = [s for s in walk_no_nested(init) if isinstance(s, ast.Assign) and norm(s.targets[0]) == 'self._v']
    if len(stores) != 1 or not isinstance(stores[0].value, ast.Name):
        raise Undecided('SemVer.__init__: `self._v = <vector>` not found')
    vec = stores[0].value.id
    host: ast.FunctionDef = init
    hq = 'SemVer.__init__'
    loops = tok_loops(init)
    if not loops:
        # the tokenising loop may live in a private helper of the class that __init__ calls with the input text
        meths = mod.methods('SemVer')
        cands = []
        for st in walk_no_nested(init):
            c = st.value if isinstance(st, ast.Assign) else None
            if isinstance(c, ast.Call) and isinstance(c.func, ast.Attribute) and norm(c.func.value) in ('self', 'SemVer', 'type(self)', 'self.__class__') \
                    and c.func.attr in meths and [norm(a) for a in c.args] == [inp] and not c.keywords and tok_loops(meths[c.func.attr]):
                cands.append((st, meths[c.func.attr]))
        if len(cands) != 1:
            raise Undecided('SemVer.__init__: expected one loop `for m in _SEMVER_TOK_RE.finditer(<input>)` (here or in one helper called with the input)')
        st, host = cands[0]     # type: ignore[assignment]
        hq = f'SemVer.{host.name}'
        hparams = [a.arg for a in host.args.args if a.arg not in ('self', 'cls')]
        rets = [r.value for r in walk_no_nested(host) if isinstance(r, ast.Return)]
        tgt = st.targets[0]
        if len(hparams) != 1 or not rets:
            raise Undecided(f'{hq}: helper signature / returns not readable')
        if isinstance(tgt, ast.Tuple) and vec in [norm(x) for x in tgt.elts]:
            pos = [norm(x) for x in tgt.elts].index(vec)
            names = {norm(r.elts[pos]) if isinstance(r, ast.Tuple) and len(r.elts) == len(tgt.elts) and isinstance(r.elts[pos], ast.Name) else None for r in rets}
        elif norm(tgt) == vec:
            names = {norm(r) if isinstance(r, ast.Name) else None for r in rets}
        else:
            raise Undecided(f'SemVer.__init__: the result of {hq} does not reach self._v through a plain local')
        if len(names) != 1 or None in names:
            raise Undecided(f'{hq}: the returned vector is not one local list')
        vec = names.pop()     # type: ignore[assignment]
        inp = hparams[0]
        loops = tok_loops(host)
        ctx.note(f'tokenising loop found in helper {hq} (called from __init__ with the input text)')
    if len(loops) != 1 or norm(loops[0].iter.func.value) != '_SEMVER_TOK_RE' or not isinstance(loops[0].target, ast.Name):     # type: ignore[attr-defined]
        raise Undecided('SemVer.__init__: expected one loop `for m in _SEMVER_TOK_RE.finditer(<input>)`')
    loop = loops[0]
    m = loop.target.id     # type: ignore[attr-defined]
    # the scanned text: the input, or the input cut at the first '+' (build metadata discarded up front); a local bound once is read through
    scanned = list(loop.iter.args)     # type: ignore[attr-defined]
    if len(scanned) == 1 and isinstance(scanned[0], ast.Name) and scanned[0].id != inp:
        sdefs = [s0 for s0 in ast.walk(host) if isinstance(s0, (ast.Assign, ast.AnnAssign, ast.AugAssign, ast.NamedExpr, ast.For, ast.With)) and
                 any(isinstance(x, ast.Name) and x.id == scanned[0].id and isinstance(x.ctx, ast.Store) for x in ast.walk(s0))]
        if len(sdefs) == 1 and isinstance(sdefs[0], (ast.Assign, ast.AnnAssign)) and sdefs[0].value is not None and norm(sdefs[0].targets[0] if isinstance(sdefs[0], ast.Assign) else sdefs[0].target) == scanned[0].id \
                and not any(isinstance(x, ast.Name) and x.id == inp and isinstance(x.ctx, ast.Store) for x in ast.walk(host)):
            scanned = [sdefs[0].value]
    cut_forms = [f"{inp}.partition('+')[0]", f"{inp}.split('+', 1)[0]", f"{inp}.split('+', maxsplit=1)[0]", f"{inp}.split('+')[0]", f"{inp}.split(sep='+', maxsplit=1)[0]"]
    cut_first = [norm(a) for a in scanned] in [[x] for x in cut_forms]
    two_alt = facts['build'] is None
    if two_alt and [norm(a) for a in scanned] == [inp]:
        ctx.violation(mod, hq, 'tokens of the build metadata', f'_SEMVER_TOK_RE {facts["pattern"]!r} has no alternative for "+build" and finditer (which skips what no alternative matches) runs over the '
                      f'whole input: the build metadata is tokenised like version components (SemVer("1.0.0+5") gets a fourth component, 1.0.0-rc+x a second identifier); build metadata must be ignored', loop)
    elif not cut_first and any(isinstance(x, ast.Constant) and isinstance(x.value, str) and '+' in x.value for a in scanned for x in ast.walk(a)):
        raise Undecided(f'{hq}: the tokenizer runs over {[short(a) for a in scanned]}, a way of cutting the build metadata this rule does not read')
    else:
        ctx.require(cut_first or (not two_alt and [norm(a) for a in scanned] == [inp]), 'the tokenizer runs over the whole input text (up to the build metadata)', mod, hq, loop.iter,     # type: ignore[attr-defined]
                    f'finditer is applied to {[norm(a) for a in scanned]}, not to the input (or the input cut at the first "+")')     # type: ignore[attr-defined]
    # `a, b, c = m.groups()` is the same binding as three m.group(k) reads
    gindex = dict(_re.compile(facts['pattern']).groupindex)     # group name -> number (constant regex folded from source)
    body = [_GroupsUnpack(m).visit(copy.deepcopy(st)) for st in loop.body]
    body = [x for st in body for x in (st if isinstance(st, list) else [st])]
    body = [_GroupNames(m, gindex).visit(st) for st in body]     # m.group('num') / m['num'] / m[1]  ->  m.group(1)
    tab = tables.extract(host, body=body, effects=eff, inline=False, name=f'{hq}:token')

    def gnorm(a: Atom) -> Atom:
        """`m.lastgroup == 'name'` / `m.lastindex == k`: each alternative is one non-empty group, so this is "group k matched"."""
        if a.kind == 'cmp' and a.args[0] == 'eq' and a.args[1] in (f'{m}.lastgroup', f'{m}.lastindex') and is_const(expr_of(a.args[2])):
            cst = const_of(expr_of(a.args[2]))
            k = gindex.get(cst) if a.args[1].endswith('lastgroup') else cst
            if k in (1, 2, 3):
                return Atom('truth', (f'{m}.group({k})',))
        return a
    # tests are read with the locals resolved by their reaching definition on the row (a group bound to a name first, a stripped identifier)
    rconds: T.Dict[int, T.Dict[Atom, bool]] = {}
    for r in list(tab.rows):
        rc0 = resolved_conds(r)
        rc: T.Optional[T.Dict[Atom, bool]] = {}
        for a0, v0 in (rc0 or {}).items():
            if rc is not None and rc.get(gnorm(a0), v0) != v0:
                rc = None
            elif rc is not None:
                rc[gnorm(a0)] = v0
        if rc0 is None or rc is None:
            tab.rows.remove(r)      # contradictory after resolution: not a path
        else:
            rconds[id(r)] = rc
    all_atoms = list(dict.fromkeys(a for rc in rconds.values() for a in rc))
    G = {i: Atom('truth', (f'{m}.group({i})',)) for i in (1, 2, 3)}
    counts = [a for a in all_atoms if a.kind == 'cmp' and a.args[0] == 'lt' and a.args[2] == '3' and not a.args[1].startswith('len(')]
    pads = [a for a in all_atoms if a.kind == 'cmp' and a.args[0] == 'lt' and a.args[2] == '3' and a.args[1] == f'len({vec})']
    # the lists the token loop fills: the vector itself, or (split accumulators) one list for the release components and one for the pre-release
    # identifiers that are joined after the loop; the component count may then be the length of the release list instead of a counter
    accs = sorted({norm(c0.func.value) for c0 in ast.walk(loop) if isinstance(c0, ast.Call) and isinstance(c0.func, ast.Attribute) and c0.func.attr in ('append', 'extend')
                   and isinstance(c0.func.value, ast.Name)} | {norm(s0.target) for s0 in ast.walk(loop) if isinstance(s0, ast.AugAssign) and isinstance(s0.value, (ast.List, ast.Tuple))})
    ACC_REL = ACC_PRE = vec
    split_mode = vec not in accs and len(accs) == 2
    if split_mode:
        counts = [a for a in all_atoms if a.kind == 'cmp' and a.args[0] == 'lt' and a.args[2] == '3' and a.args[1] in [f'len({x})' for x in accs]]
        pads = []
        if len(counts) != 1:
            raise Undecided(f'{hq}: the token loop fills {accs}; expected one `len(<release list>) < 3` atom, found {counts}')
        ACC_REL = counts[0].args[1][4:-1]
        ACC_PRE = [x for x in accs if x != ACC_REL][0]
    elif accs != [vec]:
        raise Undecided(f'{hq}: the token loop fills {accs}, not the vector `{vec}` alone or a release / pre-release pair of lists')
    if len(counts) != 1:
        raise Undecided(f'SemVer.__init__: expected one `<count> < 3` atom, found {counts}')
    count = counts[0].args[1]
    # the flag that is set together with the -1 marker
    flags = {norm(s.targets[0]) for s in ast.walk(loop) if isinstance(s, ast.Assign) and isinstance(s.value, ast.Constant) and s.value.value is True} & \
        {norm(s.target if isinstance(s, ast.AnnAssign) else s.targets[0]) for s in ast.walk(host) if isinstance(s, (ast.Assign, ast.AnnAssign)) and isinstance(s.value, ast.Constant) and s.value.value is False}
    if len(flags) != 1:
        raise Undecided(f'SemVer.__init__: the pre-release state flag is not identifiable (candidates {sorted(flags)})')
    pre = flags.pop()
    PRE = Atom('truth', (pre,))

    def appended(r: tables.Row, vec: T.Optional[str] = None) -> T.List[ast.AST]:
        vec = vec or ACC_PRE
        _env, rest = propagate(stmts_of(r), opaque=accs)
        out: T.List[ast.AST] = []
        for st in rest:
            c = st.value if isinstance(st, ast.Expr) else None
            if isinstance(c, ast.Call) and norm(c.func) == f'{vec}.append' and len(c.args) == 1:
                out.append(c.args[0])
            elif isinstance(c, ast.Call) and norm(c.func) == f'{vec}.extend' and len(c.args) == 1 and isinstance(c.args[0], (ast.List, ast.Tuple)) \
                    and not any(isinstance(x, ast.Starred) for x in c.args[0].elts):
                out.extend(c.args[0].elts)
            elif isinstance(st, ast.AugAssign) and norm(st.target) == vec and isinstance(st.op, ast.Add) and isinstance(st.value, (ast.List, ast.Tuple)) \
                    and not any(isinstance(x, ast.Starred) for x in st.value.elts):
                out.extend(st.value.elts)
            elif _re.fullmatch(_re.escape(vec) + r'\.extend\(\[0\] \* \(3 - len\(' + _re.escape(vec) + r'\)\)\)|' + _re.escape(vec) + r' \+= \[0\] \* \(3 - len\(' + _re.escape(vec) + r'\)\)', norm(st)):
                pass     # padding of the release part (judged at the pre-release start)
            elif vec in names_in(st):
                raise Undecided(f'{hq}: the vector is used by `{short(st)}`, a form this rule does not read')
        return out

    def node_of(r: tables.Row, payload: T.Optional[str] = None) -> ast.AST:
        for ev in reversed(r.path.events):
            if ev.kind == 'stmt' and isinstance(ev.node, ast.Expr) and isinstance(ev.node.value, ast.Call) and norm(ev.node.value.func) in [f'{x}.append' for x in accs]:
                return ev.node
        return r.path.events[-1].node if r.path.events else loop
    n_rows = {'digit': 0, 'ident': 0, 'build': 0}
    def known_atom(a: Atom) -> bool:
        if a in G.values() or a == PRE or a in counts or a in pads:
            return True
        g2 = f'{m}.group(2)'
        if a.kind == 'truth':
            t = a.args[0]
            return t.startswith(g2) and (t == g2 or t[len(g2):].startswith(('[', '.startswith(', '.isdigit()', '.isdecimal()')))
        if a.kind == 'cmp' and a.args[0] == 'eq':
            return a.args[1].startswith(g2) and is_const(expr_of(a.args[2]))
        return False
    if two_alt:
        # closed world of the folded regex: every match is group 1 or group 2 (each non-empty), so "not group 1" is "group 2"
        for r in list(tab.rows):
            c = rconds[id(r)]
            if c.get(G[1]) is not True and c.get(G[2]) is False:
                tab.rows.remove(r)
            elif c.get(G[1]) is False:
                c[G[2]] = True
    for r in tab.rows:
        c = rconds[id(r)]
        node = node_of(r)
        unknown = [a for a in c if not known_atom(a)]
        if unknown:
            raise Undecided(f'{hq}: the token loop tests {[repr(a) for a in unknown]}, outside the vocabulary of this rule (group matched / pre-release state / count < 3 / '
                            f'padding / section-marker strip / isdigit)')
        if c.get(G[1]) is True:
            # ---- numeric token
            n_rows['digit'] += 1
            app = [norm(x) for x in appended(r)]
            if split_mode:
                # the count is len(release list): an append to that list is the increment, an append to the pre-release list is not counted
                app_rel, app_pre = [norm(x) for x in appended(r, ACC_REL)], [norm(x) for x in appended(r, ACC_PRE)]
                if c.get(PRE) is True:
                    ctx.require(app_pre == [f'int({m}.group(1))'] and not app_rel, 'digit token inside the pre-release section: appended as int, not counted as a release component', mod,
                                hq, f'digit token, pre-release :: {norm(node)}', f'row `{r!r}` appends {app_pre} to the pre-release list and {app_rel} to the release list (whose length is '
                                f'the component count); expected [int({m}.group(1))] and nothing', node)
                elif c.get(PRE) is False and c.get(counts[0]) is True:
                    ctx.require(app_rel == [f'int({m}.group(1))'] and not app_pre, 'digit token among the first three components: appended as int and counted', mod, hq,
                                f'digit token, release part :: {norm(node)}', f'row `{r!r}` appends {app_rel} to the release list and {app_pre} to the pre-release list; expected '
                                f'[int({m}.group(1))] and nothing', node)
                elif c.get(PRE) is False and c.get(counts[0]) is False:
                    pass
                else:
                    ctx.violation(mod, hq, f'digit token :: {norm(node)}', f'row `{r!r}` handles a digit token without distinguishing the pre-release section from the '
                                  f'three release components (tests seen: {[repr(a) for a in c]})', node)
                continue
            incs = [s for s in stmts_of(r) if isinstance(s, ast.AugAssign) and norm(s.target) == count]
            for s0 in stmts_of(r):     # `count = count + 1` is the same increment
                if isinstance(s0, ast.Assign) and norm(s0.targets[0]) == count and norm(s0.value) in (f'{count} + 1', f'1 + {count}'):
                    incs.append(ast.AugAssign(target=s0.targets[0], op=ast.Add(), value=ast.Constant(1)))
                elif isinstance(s0, ast.Assign) and norm(s0.targets[0]) == count:
                    raise Undecided(f'{hq}: the component count is rebound by `{short(s0)}`, a form this rule does not read')
            if c.get(PRE) is True:
                ctx.require(app == [f'int({m}.group(1))'] and not incs, 'digit token inside the pre-release section: appended as int, not counted as a release component', mod,
                            hq, f'digit token, pre-release :: {norm(node)}', f'row `{r!r}` appends {app} and changes the count {len(incs)} time(s); expected [int({m}.group(1))] and no count change', node)
            elif c.get(PRE) is False and c.get(counts[0]) is True:
                ok = app == [f'int({m}.group(1))'] and len(incs) == 1 and isinstance(incs[0].op, ast.Add) and norm(incs[0].value) == '1'
                ctx.require(ok, 'digit token among the first three components: appended as int and counted', mod, hq, f'digit token, release part :: {norm(node)}',
                            f'row `{r!r}` appends {app}, count changes: {[norm(i) for i in incs]}; expected [int({m}.group(1))] and {count} += 1', node)
            elif c.get(PRE) is False and c.get(counts[0]) is False:
                pass    # a fourth numeric component: outside the SemVer grammar, not judged
            else:
                # no state test at all: a numeric pre-release identifier would be lost or counted
                ctx.violation(mod, hq, f'digit token :: {norm(node)}', f'row `{r!r}` handles a digit token without distinguishing the pre-release section from the '
                              f'three release components (tests seen: {[repr(a) for a in c]})', node)
        elif c.get(G[2]) is True:
            # ---- identifier token
            n_rows['ident'] += 1
            if r.outcome == ('continue',) and not appended(r):
                continue    # e.g. a lone '-': outside the grammar, skipped
            env, _rest = propagate(stmts_of(r))
            app_nodes = appended(r)
            if split_mode and appended(r, ACC_REL):
                ctx.violation(mod, hq, f'identifier token :: {norm(node)}', f'row `{r!r}` appends {[norm(x) for x in appended(r, ACC_REL)]} to the release list `{ACC_REL}` for an '
                              f'identifier token (its length is the component count)', node)
                continue
            strip_atoms = [(a, v) for a, v in c.items() if a.kind == 'truth' and '.startswith(' in a.args[0]]
            lead_atoms = [(a, v) for a, v in c.items() if a.kind == 'cmp' and a.args[0] == 'eq' and is_const(expr_of(a.args[2])) and isinstance(const_of(expr_of(a.args[2])), str)
                          and isinstance(expr_of(a.args[1]), ast.Subscript) and _leading_len(expr_of(a.args[1]), norm(expr_of(a.args[1]).value)) == len(const_of(expr_of(a.args[2])))]     # type: ignore[attr-defined]
            payload = app_nodes[-1] if app_nodes else None
            if payload is None:
                ctx.violation(mod, hq, f'identifier token :: {norm(node)}', f'row `{r!r}` drops an identifier token', node)
                continue
            # core of the payload: m.group(2) or m.group(2)[k:]
            core_e = payload
            if isinstance(payload, ast.IfExp):
                core_e = payload.orelse if (isinstance(payload.body, ast.Call) and norm(payload.body.func) == 'int') else payload.body
            digit_tests = [(a, v) for a, v in c.items() if a.kind == 'truth' and a.args[0].endswith(('.isdigit()', '.isdecimal()'))]
            if isinstance(core_e, ast.Call) and norm(core_e.func) == 'int' and digit_tests:
                core_e = core_e.args[0]
            core = norm(core_e)
            k = _tail_from(core_e, f'{m}.group(2)')
            prefix = ''
            if k is not None:
                # the stripped prefix must be the one the row tested for
                pres = [const_of(expr_of(a.args[0]).args[0]) for a, v in strip_atoms if v and is_const(expr_of(a.args[0]).args[0])]     # type: ignore[attr-defined]
                pres += [const_of(expr_of(a.args[2])) for a, v in lead_atoms if v]
                if len(pres) != 1 or not isinstance(pres[0], str) or len(pres[0]) != k:
                    ctx.violation(mod, hq, f'section marker strip :: {norm(node)}', f'row `{r!r}` drops {k} leading character(s) of the identifier but tested for the prefix {pres}', node)
                    continue
                prefix = pres[0]
            elif core != f'{m}.group(2)':
                raise Undecided(f'SemVer.__init__: appended identifier {short(payload)} is not group(2) or a tail of it')
            if c.get(PRE) is False:
                marker = [norm(x) for x in app_nodes[:-1]]
                # padding to three components: the exit test of `while len(vec) < 3: vec.append(0)`, or vec.extend([0] * (3 - len(vec)))
                pad_shapes = (f'{vec}.extend([0] * (3 - len({vec})))', f'{vec}.extend((0,) * (3 - len({vec})))', f'{vec} += [0] * (3 - len({vec}))')
                before_marker = []
                for st0 in stmts_of(r):
                    if norm(st0) == f'{vec}.append(-1)':
                        break
                    before_marker.append(st0)
                padded = any(a in pads and v is False for a, v in c.items()) or any(norm(st0) in pad_shapes for st0 in before_marker)
                if not padded and any(vec in names_in(st0) and not norm(st0).startswith(f'{vec}.append(') for st0 in before_marker):
                    raise Undecided(f'{hq}: `{short(before_marker[-1])}` may pad the release part in a form this rule does not read')
                sets = [s for s in stmts_of(r) if isinstance(s, ast.Assign) and norm(s.targets[0]) == pre and norm(s.value) == 'True']
                if split_mode:
                    # padding and the -1 marker are emitted once, where the two lists are joined (judged by _assembly below)
                    ctx.require(not marker and bool(sets), 'first identifier: pre-release state entered, identifier starts the pre-release list', mod, hq,
                                f'pre-release start :: {norm(node)}', f'row `{r!r}`: values appended before the identifier {marker} (expected none), state flag set: {bool(sets)}', node)
                else:
                  ctx.require(marker == ['-1'] and padded and bool(sets), 'first identifier: release part padded to three, slot 3 = -1, pre-release state entered', mod, hq,
                              f'pre-release start :: {norm(node)}', f'row `{r!r}`: values appended before the identifier {marker} (expected [-1]), padded to three components: {padded}, '
                              f'state flag set: {bool(sets)}', node)
            elif c.get(PRE) is True:
                ctx.require(len(app_nodes) == 1 and not prefix, 'identifier inside the pre-release section: appended as is', mod, hq, f'identifier, pre-release :: {norm(node)}',
                            f'row `{r!r}` appends {[norm(x) for x in app_nodes]} (stripped prefix {prefix!r}); expected the identifier alone, unstripped', node)
            # E6: can this identifier (after the strip of this row) consist of digits only?
            w = rx.intersects(_re.escape(prefix) + r'[0-9]+', facts['ident'])
            fam = 'numeric identifier right after the section marker is an int' if prefix else 'all-digit identifier is an int'
            guarded = _guarded_int(payload, core) or any(v and norm(payload) == f'int({core})' for a, v in digit_tests) \
                or any((not v) and norm(payload) == core for a, v in digit_tests)
            if w is None:
                ctx.ok(f'identifier row ({"after stripping " + repr(prefix) if prefix else "unstripped"}): the identifier alternative cannot yield an all-digit identifier here; stored as text')
            else:
                ctx.require(guarded, f'identifier row (after stripping {prefix!r}): all-digit identifiers such as {w!r} are converted with a guarded int()', mod, hq,
                            f'{fam} :: {norm(node)}',
                            f'{fam}: the identifier alternative {facts["ident"]!r} matches {w!r} as one token; this row strips {prefix!r} and appends `{norm(payload)}` unconverted, '
                            f'so the numeric identifier {w[len(prefix):]!r} is stored as str (e.g. 1.0.0{w} : SemVer("1.0.0-2") < SemVer("1.0.0-10") is False)', node)
        else:
            # ---- neither digits nor identifier: by the language facts this is the build alternative
            n_rows['build'] += 1
            ctx.require(r.outcome == ('break',) and not appended(r), 'build metadata token stops tokenisation', mod, hq, f'build token :: {norm(node)}',
                        f'row `{r!r}` leaves by {r.outcome} after appending {[norm(x) for x in appended(r)]}; "+build" must end the scan (break) without storing anything', node)
    if split_mode:
        _assembly(ctx, mod, host, hq, loop, vec, ACC_REL, ACC_PRE, PRE)
    ctx.floor('tokenizer rows: digit', n_rows['digit'], 1)
    ctx.floor('tokenizer rows: identifier', n_rows['ident'], 1)
    if not (two_alt or cut_first):
        ctx.floor('tokenizer rows: build', n_rows['build'], 1)
    # token boundaries vs identifier boundaries: inside the pre-release section a digit token directly followed by an identifier token is ONE
    # alphanumeric identifier (0a, 1-2: SemVer section 9).  The alternation always cuts there (digit branch first, language facts above), so
    # the loop has to rejoin them; it can only do so by reading match positions or by carrying the previous token over.
    w = rx.intersects(facts['digits'][:-1] + facts['ident'][1:], r'([0-9]+[A-Za-z][0-9A-Za-z-]*)')
    if w is not None:
        if any(x in facts['pattern'] for x in ('(?=', '(?!', '(?<')):
            raise Undecided('_SEMVER_TOK_RE uses look-around, which sa.rx over-approximates: token boundaries are not decided')
        uses = {n.attr for n in ast.walk(ast.Module(body=body, type_ignores=[])) if isinstance(n, ast.Attribute) and norm(n.value) == m}
        other_m = [n for n in ast.walk(ast.Module(body=body, type_ignores=[])) if isinstance(n, ast.Name) and n.id == m and isinstance(n.ctx, ast.Load)]
        carried = set()
        for r in tab.rows:
            seen_store: T.Set[str] = set()
            for ev in r.path.events:
                if ev.node is None:
                    continue
                for n in ast.walk(ev.node):
                    if isinstance(n, ast.Name) and isinstance(n.ctx, ast.Load) and n.id not in seen_store:
                        carried.add(n.id)
                for n in ast.walk(ev.node):
                    if isinstance(n, ast.Name) and isinstance(n.ctx, ast.Store):
                        seen_store.add(n.id)
        stored = {n.id for st in body for n in ast.walk(st) if isinstance(n, ast.Name) and isinstance(n.ctx, ast.Store)}
        state = (carried & stored) - {pre, count, vec, ACC_REL, ACC_PRE}
        if not uses <= {'group', 'groups', 'lastgroup', 'lastindex'} or len(other_m) != sum(1 for n in ast.walk(ast.Module(body=body, type_ignores=[])) if isinstance(n, ast.Attribute) and norm(n.value) == m) or state:
            raise Undecided(f'{hq}: the token loop reads {sorted(uses - {"group", "groups", "lastgroup", "lastindex"})} of the match / carries {sorted(state)} between tokens: '
                            f'it may rejoin adjacent tokens in a form this rule does not read')
        ctx.violation(mod, 'SemVer.__init__', 'alphanumeric identifier starting with digits is split into two tokens',     # keyed on the constructor wherever the loop lives
                      f'inside the pre-release section the text {w!r} is ONE alphanumeric SemVer identifier, but _SEMVER_TOK_RE {facts["pattern"]!r} cuts it into a digit token and an '
                      f'identifier token, and the loop stores them as two identifiers (it never reads match positions nor keeps the previous token): '
                      f'SemVer("1.0.0-alpha.0a")._v is [1, 0, 0, -1, "alpha", 0, "a"] and 1.0.0-alpha.0a > 1.0.0-alpha.1 is False (alphanumeric must rank above numeric)', loop)


# =====================================================================================================
# R3  cfg evaluation
# =====================================================================================================

def _ir_classes(mod: Module) -> T.Dict[str, T.Dict[str, T.Any]]:
    """Dataclasses of cfg.py: name -> {'fields': [(name, annotation text)], 'bases': [...]}"""
    out: T.Dict[str, T.Dict[str, T.Any]] = {}
    for name, c in mod.classes().items():
        decos = [attr_chain(x.func if isinstance(x, ast.Call) else x) for x in c.decorator_list]
        if not any(d in ('dataclasses.dataclass', 'dataclass') for d in decos):
            continue
        fields = [(st.target.id, norm(st.annotation)) for st in c.body if isinstance(st, ast.AnnAssign) and isinstance(st.target, ast.Name)]
        out[name] = {'fields': fields, 'bases': [attr_chain(b) or '' for b in c.bases]}
    return out


def _built_classes(mod: Module, fn: ast.FunctionDef, classes: T.Dict[str, ClassRef]) -> T.Set[str]:
    """IR classes that `fn` can return (constructor calls reaching a return, through local aliases)."""
    defs: T.Dict[str, T.List[ast.AST]] = {}
    for n in walk_no_nested(fn):
        if isinstance(n, ast.Assign) and len(n.targets) == 1 and isinstance(n.targets[0], ast.Name):
            defs.setdefault(n.targets[0].id, []).append(n.value)
        elif isinstance(n, ast.AnnAssign) and isinstance(n.target, ast.Name) and n.value is not None:
            defs.setdefault(n.target.id, []).append(n.value)
    out: T.Set[str] = set()

    def cls_of(e: ast.AST, depth: int = 0) -> None:
        if depth > 6:
            raise Undecided(f'{fn.name}: alias chain too deep')
        if isinstance(e, ast.IfExp):
            cls_of(e.body, depth + 1)
            cls_of(e.orelse, depth + 1)
        elif isinstance(e, ast.Name):
            if e.id in classes:
                out.add(e.id)
            elif e.id in defs:
                for v in defs[e.id]:
                    val(v, depth + 1) if not _is_classy(v) else cls_of(v, depth + 1)
            else:
                raise Undecided(f'{fn.name}: cannot resolve {e.id} to an IR class')
        else:
            raise Undecided(f'{fn.name}: cannot resolve {short(e)} to an IR class')

    def _is_classy(v: ast.AST) -> bool:
        return isinstance(v, (ast.IfExp, ast.Name)) and all(isinstance(x, (ast.Name, ast.IfExp, ast.Compare, ast.Attribute, ast.expr_context, ast.cmpop)) for x in ast.walk(v))

    def val(e: ast.AST, depth: int = 0) -> None:
        """e is a returned *value*: a constructor call, a recursive call, or a local holding one."""
        if isinstance(e, ast.Call):
            if isinstance(e.func, ast.Name) and e.func.id == fn.name:
                return
            cls_of(e.func, depth + 1)
        elif isinstance(e, ast.Name) and e.id in defs:
            for v in defs[e.id]:
                val(v, depth + 1)
        else:
            raise Undecided(f'{fn.name}: returned value {short(e)} is not a constructor call')
    rets = [n for n in walk_no_nested(fn) if isinstance(n, ast.Return) and n.value is not None]
    for r in rets:
        val(r.value)
    return out


REF_DENOTATION = {  # IR class -> (meaning, denoting construct)   (Rust reference: conditional compilation)
    'Identifier': ('name is set', 'in'), 'Equal': ('name is set to exactly that value', 'get =='), 'Not': ('negation', 'not'),
    'Any': ('disjunction', 'any'), 'All': ('conjunction', 'all')}


def _short_circuit_loop(fn: ast.FunctionDef, loops: T.List[ast.AST], fields: T.List[str], me: str) -> str:
    """'any' / 'all' when the arm is the explicit loop form of the builtin; 'unreadable: ...' otherwise."""
    if len(loops) != 1 or len(fields) != 1:
        return 'unreadable: more than one loop in the arm'
    lp = loops[0]
    ir, cfgs = fn.args.args[0].arg, fn.args.args[1].arg
    block = None
    for n in ast.walk(fn):
        for fld in ('body', 'orelse', 'finalbody'):
            b = getattr(n, fld, None)
            if isinstance(b, list) and lp in b:
                block = b
    if block is None or not isinstance(lp, ast.For) or lp.orelse or not isinstance(lp.target, ast.Name) or norm(lp.iter) != f'{ir}.{fields[0]}':
        return f'unreadable: loop {short(lp)}'
    after = block[block.index(lp) + 1:block.index(lp) + 2]
    if not (len(lp.body) == 1 and isinstance(lp.body[0], ast.If) and not lp.body[0].orelse and len(lp.body[0].body) == 1 and isinstance(lp.body[0].body[0], ast.Return)
            and isinstance(lp.body[0].body[0].value, ast.Constant) and len(after) == 1 and isinstance(after[0], ast.Return) and isinstance(after[0].value, ast.Constant)):
        return f'unreadable: loop {short(lp)}'
    a, pol = tables.canon(lp.body[0].test, True)
    if a != Atom('truth', (f'{me}({lp.target.id}, {cfgs})',)):
        return f'unreadable: loop test {a!r}'
    inside, tail = lp.body[0].body[0].value.value, after[0].value.value
    if (pol, inside, tail) == (True, True, False):
        return 'any'
    if (pol, inside, tail) == (False, False, True):
        return 'all'
    return f'a loop returning {inside} as soon as an argument is {"true" if pol else "false"}, else {tail}'


def _eval_arms(mod: Module) -> T.Dict[str, T.Tuple[str, T.Optional[ast.AST]]]:
    """class -> (denoting construct found | 'missing' | description of something else, node)"""
    fn = nf(mod, '_eval_cfg')
    ircls = _ir_classes(mod)
    tab = resolve_table(tables.extract(fn, bool_returns=True, name='_eval_cfg'), fn=fn)
    me = fn.name
    out: T.Dict[str, T.Tuple[str, T.Optional[ast.AST]]] = {}
    inst = [a for a in tab.atoms() if a.kind == 'isinstance']
    for a in inst:
        if a.args[0] != 'ARG1':
            raise Undecided(f'_eval_cfg: isinstance test on {a.args[0]}')
        strange = [n for n in a.args[1] if n not in ircls and not mod.has_cls(n)]
        if strange:
            raise Undecided(f'_eval_cfg: isinstance against {strange}, which is not a class of this module (table-driven dispatch this rule could not unroll)')
    for cname, info in ircls.items():
        def is_a(names: T.Tuple[str, ...]) -> bool:
            return cname in names or any(b in names for b in info['bases'])
        rows = [r for r in tab.rows if all(is_a(a.args[1]) == v for a, v in r.conds.items() if a.kind == 'isinstance')]
        node = rows[0].path.events[-1].node if rows and rows[0].path.events else fn
        if not rows or any(r.outcome[0] != 'return' for r in rows):
            out[cname] = ('missing', node)
            continue
        others = {a for r in rows for a in r.conds if a.kind != 'isinstance'}
        loops = {id(e.node): e.node for r in rows for e in r.path.events if e.kind == 'iter'}
        if loops:
            # explicit short-circuit loop:  for x in ir.f: if [not] me(x, cfgs): return B   ; return not B
            out[cname] = (_short_circuit_loop(fn, list(loops.values()), [x[0] for x in info['fields']], me), node)
            continue
        if not others and len(rows) == 1 and rows[0].outcome[1] not in ('True', 'False', 'None'):
            # a value returned as is (not decomposed because it is not a boolean expression): `return f(x)` == truth of f(x)
            atom, pol0 = tables.canon(expr_of(rows[0].outcome[1]), True)
            val = {pol0: 'True', (not pol0): 'False'}
        elif len(others) != 1 or len(rows) != 2:
            out[cname] = (f'unreadable: {len(rows)} rows over the tests {[repr(a) for a in others]}', node)
            continue
        else:
            atom = others.pop()
            val = {r.conds[atom]: r.outcome[1] for r in rows}
        if val == {True: 'True', False: 'False'}:
            pol = True
        elif val == {True: 'False', False: 'True'}:
            pol = False
        else:
            out[cname] = (f'returns {val} on `{atom!r}`', node)
            continue
        f = [x[0] for x in info['fields']]
        ann = dict(info['fields'])
        # only shapes that are *understood* may be judged: anything else is unreadable (-> Undecided), never a finding
        found = f'unreadable: `{"" if pol else "not "}{atom!r}`'

        def of_ir(t: str) -> bool:
            return t == 'ARG1' or t.startswith('ARG1.')
        if atom.kind == 'in' and atom.args[1] == 'ARG2' and of_ir(atom.args[0]) and pol:
            found = 'in' if len(f) == 1 and atom.args[0] == f'ARG1.{f[0]}' else f'`{atom.args[0]} in <configuration>`'
        elif atom.kind == 'cmp' and atom.args[0] == 'eq' and pol:
            gets = [x for x in atom.args[1:] if x.startswith('ARG2.get(') and x.endswith(')') and of_ir(x[9:-1])]
            rest = [x for x in atom.args[1:] if x not in gets]
            if len(gets) == 1 and len(rest) == 1 and of_ir(rest[0]):
                found = f'`<configuration>.get({gets[0][9:-1]}) == {rest[0]}`'
                if len(f) == 2 and ann[f[0]] in ircls and ann[f[1]] in ircls:
                    lf, rf = ircls[ann[f[0]]]['fields'][0][0], ircls[ann[f[1]]]['fields'][0][0]
                    if gets[0] == f'ARG2.get(ARG1.{f[0]}.{lf})' and rest[0] == f'ARG1.{f[1]}.{rf}':
                        found = 'get =='
        elif atom.kind == 'truth':
            e = expr_of(atom.args[0])
            if isinstance(e, ast.Call) and norm(e.func) == 'bool' and len(e.args) == 1:
                e = e.args[0]
            if isinstance(e, ast.Call) and norm(e.func) == me and len(e.args) == 2 and of_ir(norm(e.args[0])) and norm(e.args[1]) == 'ARG2':
                if len(f) == 1 and norm(e.args[0]) == f'ARG1.{f[0]}':
                    found = 'not' if not pol else 'identity'
            elif isinstance(e, ast.Call) and norm(e.func) == 'ARG2.get' and len(e.args) == 1 and of_ir(norm(e.args[0])) and pol:
                found = f'`truthiness of <configuration>.get({norm(e.args[0])})`'
            elif isinstance(e, ast.Call) and norm(e.func) in ('any', 'all') and pol and len(e.args) == 1 and isinstance(e.args[0], (ast.GeneratorExp, ast.ListComp)) \
                    and len(e.args[0].generators) == 1 and not e.args[0].generators[0].ifs and isinstance(e.args[0].generators[0].target, ast.Name):
                g = e.args[0].generators[0]
                if norm(e.args[0].elt) == f'{me}({g.target.id}, ARG2)' and len(f) == 1:     # type: ignore[attr-defined]
                    if norm(g.iter) == f'ARG1.{f[0]}':
                        found = norm(e.func)
                    elif isinstance(g.iter, ast.Subscript) and norm(g.iter.value) == f'ARG1.{f[0]}':
                        found = f'`{norm(e.func)}` over the part {norm(g.iter)} of the arguments'
        out[cname] = (found, node)
    return out


def r3_eval(ctx: RuleCtx) -> None:
    mod = ctx.repo.module(CFGPY)
    ircls = _ir_classes(mod)
    built = _built_classes(mod, nf(mod, '_parse'), {k: None for k in ircls})     # type: ignore[arg-type]
    ctx.floor('IR classes built by _parse', len(built), 5)
    unknown = built - set(REF_DENOTATION)
    if unknown:
        raise Undecided(f'_parse builds IR classes without a reference denotation: {sorted(unknown)}')
    arms = _eval_arms(mod)
    for cname in sorted(built):
        found, node = arms[cname]
        meaning, want = REF_DENOTATION[cname]
        if found.startswith('unreadable'):
            raise Undecided(f'_eval_cfg: arm for {cname} is in a form this rule does not read ({found})')
        ctx.require(found == want, f'_eval_cfg: arm for {cname} denotes "{meaning}" by `{want}`', mod, '_eval_cfg', f'arm for {cname}',
                    f'{cname} must denote "{meaning}" (`{want}` over its field(s) and the configuration); the arm ' +
                    ('is missing: the value falls through to the MesonBugException arm' if found == 'missing' else f'is {found}'), node)


KEYWORDS = {'all': 'ALL', 'any': 'ANY', 'not': 'NOT'}
WHITESPACE = ' \t\n\r\x0b\x0c'     # the class str.isspace() accepts (ASCII part); every member must separate tokens
DELIMS = {'(': 'LPAREN', ')': 'RPAREN', ',': 'COMMA', '=': 'EQUAL'}
TOKEN_CLASS = {'ALL': 'All', 'ANY': 'Any', 'NOT': 'Not'}


def _char_loop(loop: ast.For, raw: str) -> T.Tuple[str, str, T.List[ast.stmt]]:
    """(index name, character name, body) of `for i, s in enumerate(raw)` or `for i in range(len(raw)): s = raw[i]`."""
    it, tg = loop.iter, loop.target
    if isinstance(it, ast.Call) and norm(it.func) == 'enumerate' and [norm(a) for a in it.args] == [raw] and isinstance(tg, ast.Tuple) and len(tg.elts) == 2 \
            and all(isinstance(x, ast.Name) for x in tg.elts):
        return tg.elts[0].id, tg.elts[1].id, list(loop.body)     # type: ignore[attr-defined]
    if isinstance(it, ast.Call) and norm(it) == f'range(len({raw}))' and isinstance(tg, ast.Name) and loop.body and isinstance(loop.body[0], ast.Assign) \
            and isinstance(loop.body[0].targets[0], ast.Name) and norm(loop.body[0].value) == f'{raw}[{tg.id}]':
        return tg.id, loop.body[0].targets[0].id, list(loop.body[1:])
    raise Undecided(f'lexer: the loop is not `for i, s in enumerate({raw})` / `for i in range(len({raw})): s = {raw}[i]`')


def _word_pred(ctx: RuleCtx, mod: Module, a: Atom, W: str) -> T.Optional[T.Callable[[str], bool]]:
    """Truth of an atom over the pending word for a word class (keyword / other word / empty)."""
    if a == Atom('truth', (W,)):
        return lambda w: w != ''
    if a.kind == 'in' and a.args[0] == W and _is_folded(ctx, mod, expr_of(a.args[1])):
        cs = _folded(ctx, mod, expr_of(a.args[1]))
        if isinstance(cs, (dict, set, frozenset, tuple, list)):
            return lambda w: w in cs
    if a.kind == 'cmp' and a.args[0] == 'eq' and a.args[1] == W and is_const(expr_of(a.args[2])):
        c = const_of(expr_of(a.args[2]))
        return lambda w: w == c
    return None


def _word_helpers(ctx: RuleCtx, mod: Module, body: T.List[ast.stmt], W: str) -> T.Dict[str, T.Callable[[str], str]]:
    """Locals bound to `H(word)` where H is a module-level classification function of the word alone: local -> (word class -> text of
    the value H returns for that class, with H's parameter spelled as the word variable).  A callee summary by decision table."""
    out: T.Dict[str, T.Callable[[str], str]] = {}
    for st in ast.walk(ast.Module(body=body, type_ignores=[])):
        if isinstance(st, ast.Assign) and isinstance(st.targets[0], ast.Name) and isinstance(st.value, ast.Call) and isinstance(st.value.func, ast.Name) \
                and mod.has_func(st.value.func.id) and [norm(a) for a in st.value.args] == [W] and not st.value.keywords:
            h = nf(mod, st.value.func.id)
            if len(h.args.args) != 1:
                continue
            th = tables.extract(h, name=h.name)
            preds = {}
            for a in th.atoms():
                p = _word_pred(ctx, mod, a, 'ARG1')
                if p is None:
                    raise Undecided(f'{h.name}: atom outside the word vocabulary: {a!r}')
                preds[a] = p

            def ret(w: str, th: tables.Table = th, preds: T.Dict[Atom, T.Any] = preds, h: ast.FunctionDef = h) -> str:
                rows = th.fire({a: p(w) for a, p in preds.items()})
                if len(rows) != 1 or rows[0].outcome[0] not in ('return', 'fall'):
                    raise Undecided(f'{h.name}: {len(rows)} rows for the word class {w!r}')
                return norm(_Replace('ARG1', W).visit(expr_of(rows[0].outcome[1]))) if rows[0].outcome[0] == 'return' else 'None'
            out[st.targets[0].id] = ret
    return out


def _lexer_table(ctx: RuleCtx, mod: Module) -> T.Dict[str, str]:
    """Checks the decision table of the lexer loop body; returns keyword -> token member."""
    fn = nf(mod, 'lexer')
    raw = fn.args.args[0].arg
    loops = [s for s in fn.body if isinstance(s, ast.For)]
    if len(loops) != 1:
        raise Undecided('lexer: expected one character loop')
    loop = loops[0]
    I, S, body = _char_loop(loop, raw)
    tab = tables.extract(fn, body=body, effects=eff, inline=False, name='lexer:char')
    # names by role: the word (a slice of the input ending at i), the start index, the in-string flag
    words = {norm(s.targets[0]) for s in ast.walk(loop) if isinstance(s, ast.Assign) and isinstance(s.value, ast.Subscript) and norm(s.value.value) == raw
             and isinstance(s.value.slice, ast.Slice) and norm(s.value.slice.upper) == I}
    flags = {norm(s.targets[0]) for s in ast.walk(loop) if isinstance(s, ast.Assign) and isinstance(s.value, ast.Constant) and s.value.value is True} & \
        ({norm(s.target if isinstance(s, ast.AnnAssign) else s.targets[0]) for s in ast.walk(fn) if isinstance(s, (ast.Assign, ast.AnnAssign)) and isinstance(s.value, ast.Constant) and s.value.value is False} |
         {norm(s.targets[0]) for s in ast.walk(loop) if isinstance(s, ast.Assign) and norm(s.value) == f'not {norm(s.targets[0])}'})
    if len(words) != 1 or len(flags) != 1:
        raise Undecided(f'lexer: word variable {sorted(words)} / in-string flag {sorted(flags)} not identifiable')
    W, F = words.pop(), flags.pop()
    wdef = [s for s in ast.walk(loop) if isinstance(s, ast.Assign) and norm(s.targets[0]) == W][0]
    START = norm(wdef.value.slice.lower) if wdef.value.slice.lower is not None else None     # type: ignore[attr-defined]
    if START is None:
        raise Undecided('lexer: the word does not start at a tracked index')
    WDEF = norm(_Rename({raw: ast.Name(id='ARG1', ctx=ast.Load())}).visit(copy.deepcopy(wdef.value)))     # `raw[start:i]`: what the word denotes when no start-index write lies between

    helpers = _word_helpers(ctx, mod, body, W)

    def atom_pred(a: Atom) -> T.Callable[[str, str, bool], bool]:
        for hv, ret in helpers.items():
            if a == Atom('is', (hv, 'None')):
                return lambda s, w, f, ret=ret: ret(w) == 'None'     # type: ignore[misc]
            if a == Atom('truth', (hv,)):
                return lambda s, w, f, ret=ret: ret(w) != 'None'     # type: ignore[misc]
        if a == Atom('truth', (f'{S}.isspace()',)):
            return lambda s, w, f: s in WHITESPACE
        if a == Atom('truth', (F,)):
            return lambda s, w, f: f
        if a == Atom('truth', (W,)):
            return lambda s, w, f: w != ''
        if a.kind == 'in' and a.args[0] in (S, W) and _is_folded(ctx, mod, expr_of(a.args[1])):
            cs = _folded(ctx, mod, expr_of(a.args[1]))     # a literal or a module-level constant table (dict: its keys)
            if not isinstance(cs, (dict, set, frozenset, tuple, list, str)):
                raise Undecided(f'lexer: membership in {cs!r}')
            return (lambda s, w, f: s in cs) if a.args[0] == S else (lambda s, w, f: w in cs)
        if a.kind == 'cmp' and a.args[0] == 'eq' and a.args[1] in (S, W) and _is_folded(ctx, mod, expr_of(a.args[2])):
            c = _folded(ctx, mod, expr_of(a.args[2]))
            return (lambda s, w, f: s == c) if a.args[1] == S else (lambda s, w, f: w == c)
        raise Undecided(f'lexer: atom outside the vocabulary: {a!r}')
    preds = {a: atom_pred(a) for a in tab.atoms()}

    def table_lookup(y: ast.AST, s_cls: str, w_cls: str) -> ast.AST:
        """`TABLE[word]` / `TABLE[char]` with a module-level constant dict: the member the table holds for this class (policy form c);
        a local bound to a word-classification helper: what the helper returns for this word class."""
        if isinstance(y, ast.Name) and y.id in helpers:
            return expr_of(helpers[y.id](w_cls))
        if isinstance(y, ast.Tuple) and y.elts and isinstance(y.elts[0], ast.Subscript) and isinstance(y.elts[0].value, ast.Name) and norm(y.elts[0].slice) in (S, W):
            tbl = _folded(ctx, mod, y.elts[0].value)
            key = s_cls if norm(y.elts[0].slice) == S else w_cls
            if not isinstance(tbl, dict):
                raise Undecided(f'lexer: {short(y)} does not index a constant table')
            v = tbl.get(key)
            txt = f'{v.cls}.{v.name}' if hasattr(v, 'cls') and hasattr(v, 'name') else f'<no entry for {key!r}: KeyError>'
            return ast.Tuple(elts=[ast.Name(id=txt, ctx=ast.Load())] + list(y.elts[1:]), ctx=ast.Load())
        return y
    kw_tokens: T.Dict[str, str] = {}
    bad_string: T.Optional[T.Tuple[tables.Row, str]] = None
    n = 0
    # character classes: blank, the other white space characters (Rust/Cargo: any white space separates tokens), each punctuation, quote, other
    for s_cls, w_cls, in_str in itertools.product([' ', '\t', '\n', '(', ')', ',', '=', '"', 'x'], ['any', 'all', 'not', 'w', ''], [False, True]):
        world = {a: p(s_cls, w_cls, in_str) for a, p in preds.items()}
        rows = tab.fire(world)
        if len(rows) != 1:
            raise Undecided(f'lexer: {len(rows)} rows fire for character class {s_cls!r}, pending word {w_cls!r}, in string {in_str}')
        n += 1
        r = rows[0]
        sts = stmts_of(r)
        for st in sts:
            if isinstance(st, ast.Expr) and not isinstance(st.value, ast.Yield):
                raise Undecided(f'lexer: the row contains `{short(st)}`, which may produce tokens in a form this rule does not read')
        # payloads are compared by what they denote: the word local and a direct slice `raw[start:i]` are one thing.  The word is read where
        # the row binds it (before the start index moves); a slice written out in a yield is read at the yield (reaching definitions).
        envp: T.Dict[str, ast.AST] = {}
        ys = []
        for st in sts:
            if isinstance(st, ast.Expr) and isinstance(st.value, ast.Yield):
                yv = resolve(table_lookup(st.value.value, s_cls, w_cls), {k0: v0 for k0, v0 in envp.items() if k0 != W})
                ys.append(norm(_Replace(WDEF, W).visit(yv)) if W not in envp or norm(envp[W]) == WDEF else norm(yv))
            elif isinstance(st, ast.Assign) and len(st.targets) == 1 and isinstance(st.targets[0], ast.Name):
                envp[st.targets[0].id] = resolve(st.value, {k0: v0 for k0, v0 in envp.items() if k0 != W})
        writes = {norm(st.targets[0]): norm(st.value) for st in sts if isinstance(st, ast.Assign) and norm(st.targets[0]) in (START, F)}
        if writes.get(F) == f'not {F}':
            writes[F] = str(not in_str)     # toggling the flag in a world where its value is known
        node = r.path.events[-1].node if r.path.events else loop
        desc = f'character {s_cls!r}, pending word {w_cls!r}, {"inside" if in_str else "outside"} a string literal'
        if in_str and s_cls != '"':
            # inside a string literal only the closing quote acts
            if (ys or writes) and bad_string is None:
                bad_string = (r, f'{desc}: the row yields {ys} and writes {writes}; inside a string literal every character except the closing quote is text '
                                 f'(`feature = "a b"` must lex as IDENTIFIER EQUAL STRING)')
            continue
        if in_str:
            want_y = [f'(TokenType.STRING, {W})']
            want_w = {START: f'{I} + 1', F: 'False'}
        elif s_cls == 'x':
            want_y, want_w = [], {}
        else:
            want_y = []
            if w_cls in KEYWORDS:
                want_y.append(None)     # type: ignore[arg-type]   # a keyword token: member read below
            elif w_cls:
                want_y.append(f'(TokenType.IDENTIFIER, {W})')
            if s_cls in DELIMS:
                want_y.append(f'(TokenType.{DELIMS[s_cls]}, None)')
            want_w = {START: f'{I} + 1'}
            if s_cls == '"':
                want_w[F] = 'True'
        got_y = list(ys)
        if None in want_y and len(got_y) == len(want_y):
            e = expr_of(got_y[0])
            if isinstance(e, ast.Tuple) and len(e.elts) == 2 and (attr_chain(e.elts[0]) or '').startswith('TokenType.') and norm(e.elts[1]) == 'None':
                member = attr_chain(e.elts[0]).split('.')[1]     # type: ignore[union-attr]
                if kw_tokens.setdefault(w_cls, member) == member:
                    want_y[0] = got_y[0]
        ctx.require(got_y == want_y and writes == want_w, f'lexer: {desc}: tokens {want_y}, state {want_w}', mod, 'lexer', f'lexer row: {desc}',
                    f'{desc}: the row yields {got_y} and writes {writes}; expected tokens {["<keyword token>" if y is None else y for y in want_y]} and writes {want_w}', node)
    ctx.floor('lexer worlds', n, 90)
    if bad_string is None:
        ctx.ok('lexer: inside a string literal only the closing quote yields a token or moves the start index')
    else:
        r, msg = bad_string
        ctx.violation(mod, 'lexer', 'lexer: delimiter inside a string literal', msg, r.path.events[-1].node if r.path.events else loop)
    # after the loop: a pending non-empty word is an identifier
    post = fn.body[fn.body.index(loop) + 1:]
    t2 = tables.extract(fn, body=post, effects=eff, inline=False, name='lexer:tail')
    for r in t2.rows:
        env, rest = propagate(stmts_of(r))
        ys = [norm(st.value.value) for st in rest if isinstance(st, ast.Expr) and isinstance(st.value, ast.Yield)]
        truth = [v for a, v in r.conds.items() if a.kind == 'truth']
        want = [f'(TokenType.IDENTIFIER, ARG1[{START}:])'] if truth == [True] else []
        ctx.require(len(truth) == 1 and ys == want, f'lexer: at the end of the text a pending word is {"an IDENTIFIER" if want else "nothing when empty"}', mod, 'lexer', f'lexer tail {truth}',
                    f'after the loop the row `{r!r}` yields {ys}; expected {want}', r.path.events[-1].node if r.path.events else fn)
    return kw_tokens


def r3_maps(ctx: RuleCtx) -> None:
    mod = ctx.repo.module(CFGPY)
    kw = _lexer_table(ctx, mod)
    members = {t.id for st in mod.cls('TokenType').body if isinstance(st, ast.Assign) for t in st.targets if isinstance(t, ast.Name)}
    ctx.require(set(kw) == set(KEYWORDS) and len(set(kw.values())) == 3 and set(kw.values()) <= members, f'lexer: the three keywords map to three distinct TokenType members {kw}',
                mod, 'lexer', 'keyword tokens', f'keyword -> token map of the lexer is {kw}; expected three distinct members of TokenType for all/any/not')
    tmap = _parse_analysis(ctx, mod, report=False)['token_class']
    arms = _eval_arms(mod)
    for k in KEYWORDS:
        tok = kw.get(k)
        cls = tmap.get(tok or '')
        if tok is None or cls is None or cls not in arms:
            raise Undecided(f'keyword chain {k!r}: token {tok} / class {cls} could not be read from the lexer / parser tables')
        den = arms.get(cls or '', ('?', None))[0]
        if den.startswith('unreadable'):
            raise Undecided(f'_eval_cfg: arm for {cls} is in a form this rule does not read ({den})')
        ctx.require(den == k, f'keyword {k!r} -> TokenType.{tok} -> {cls} -> `{den}`', mod, '<module>', f'keyword chain {k}',
                    f'the keyword {k!r} is lexed to TokenType.{tok}, parsed to {cls}, and evaluated by `{den}`: the three maps do not compose to `{k}`')


# =====================================================================================================
# R4  malformed input is rejected, not mis-evaluated
# =====================================================================================================

def _token_var(inner: ast.FunctionDef) -> str:
    """Name of the current-token variable of the recursive parser: first element of the pair read from the stream."""
    arg = inner.args.args[0].arg
    for st in inner.body:
        if isinstance(st, ast.Assign) and isinstance(st.value, ast.Call) and norm(st.value.func) == 'next' and [norm(a) for a in st.value.args] == [arg]:
            t = st.targets[0]
            if isinstance(t, ast.Tuple) and len(t.elts) == 2 and isinstance(t.elts[0], ast.Tuple) and len(t.elts[0].elts) == 2 and isinstance(t.elts[0].elts[0], ast.Name):
                return t.elts[0].elts[0].id
    raise Undecided(f'{inner.name}: first token read `(token, value), look = next({arg})` not found')


class _Expect:
    """Token-expectation helpers found by role: a function (nested in the parser or module-level) whose whole table is
    `A is B` false -> raise MesonException, true -> fall through.  Calls are bound to the signature (positional or keyword)."""

    def __init__(self, mod: Module, inner: ast.FunctionDef):
        self.tok = _token_var(inner)
        self.helpers: T.Dict[str, T.Tuple[ast.FunctionDef, T.Tuple[str, str], bool]] = {}   # name -> (fn, (side, side), raises_when_different)
        cands: T.Dict[str, ast.FunctionDef] = {st.name: st for st in inner.body if isinstance(st, ast.FunctionDef)}
        for c in ast.walk(inner):
            if isinstance(c, ast.Call) and isinstance(c.func, ast.Name) and c.func.id not in cands and c.func.id != inner.name and mod.has_func(c.func.id):
                cands[c.func.id] = nf(mod, c.func.id)     # type: ignore[assignment]
        for name, f in cands.items():
            try:
                tab = tables.extract(f, name=name)
            except Undecided:
                continue
            atoms = tab.atoms()
            if len(atoms) != 1 or atoms[0].kind != 'is' or len(tab.rows) != 2:
                continue
            out = {r.conds[atoms[0]]: r.outcome for r in tab.rows}
            if out.get(False) == ('raise', 'MesonException') and out.get(True, ('?',))[0] in ('fall', 'return'):
                self.helpers[name] = (f, (atoms[0].args[0], atoms[0].args[1]), True)
            elif out.get(True) == ('raise', 'MesonException') and out.get(False, ('?',))[0] in ('fall', 'return'):
                self.helpers[name] = (f, (atoms[0].args[0], atoms[0].args[1]), False)

    def call(self, c: ast.AST) -> T.Optional[T.Tuple[str, str, str]]:
        """(helper name, expected TokenType member, name of the variable that is checked) for a call of an expectation helper."""
        if not (isinstance(c, ast.Call) and isinstance(c.func, ast.Name) and c.func.id in self.helpers):
            return None
        f, sides, _ = self.helpers[c.func.id]
        params = [a.arg for a in f.args.args]
        bound: T.Dict[str, ast.AST] = {}
        for i, a in enumerate(c.args):
            if isinstance(a, ast.Starred) or i >= len(params):
                raise Undecided(f'call {short(c)} cannot be bound to the signature of {f.name}')
            bound[f'ARG{i + 1}'] = a
        for k in c.keywords:
            if k.arg is None or k.arg not in params + [a.arg for a in f.args.kwonlyargs]:
                raise Undecided(f'call {short(c)} cannot be bound to the signature of {f.name}')
            bound[f'ARG{params.index(k.arg) + 1}' if k.arg in params else f'ARG_{k.arg}'] = k.value
        vals = [bound[x] if x in bound else expr_of(x) for x in sides]
        members = [(attr_chain(v) or '').split('.')[1] for v in vals if (attr_chain(v) or '').startswith('TokenType.') and (attr_chain(v) or '').count('.') == 1]
        names = [v.id for v in vals if isinstance(v, ast.Name)]
        if len(members) != 1 or len(names) != 1:
            raise Undecided(f'expectation call {short(c)}: cannot tell the expected member from the checked variable')
        return c.func.id, members[0], names[0]


class _SubCalls(ast.NodeTransformer):
    """Replace recursive calls by numbered placeholders (in evaluation order)."""

    def __init__(self, fname: str, arg: str, start: int):
        self.fname, self.arg, self.n = fname, arg, start
        self.seen: T.List[int] = []

    def visit_Call(self, node: ast.Call) -> ast.AST:
        self.generic_visit(node)
        if isinstance(node.func, ast.Name) and node.func.id == self.fname and [norm(a) for a in node.args] == [self.arg]:
            self.n += 1
            self.seen.append(self.n)
            return ast.Name(id=f'sub{self.n}', ctx=ast.Load())
        return node


def _lookahead_token(v: ast.AST) -> T.Optional[str]:
    """j when v is `lookJ[0] if lookJ is not None else None` (or the mirrored / truthiness spelling): the type of the
    token after read j, None at the end of the stream - the same value the if/else unpacking binds."""
    if not isinstance(v, ast.IfExp):
        return None
    a, pol = tables.canon(v.test, True)
    if a.kind == 'is' and a.args[1] == 'None' and a.args[0].startswith('look') and a.args[0][4:].isdigit():
        j, present_when = a.args[0][4:], not pol
    elif a.kind == 'truth' and a.args[0].startswith('look') and a.args[0][4:].isdigit():
        j, present_when = a.args[0][4:], pol
    else:
        return None
    yes, no = (v.body, v.orelse) if present_when else (v.orelse, v.body)
    if norm(yes) == f'look{j}[0]' and isinstance(no, ast.Constant) and no.value is None:
        return j
    return None


def _trace(fn: ast.FunctionDef, p: Path, expect: _Expect) -> T.Optional[T.Tuple[T.List[T.Tuple[T.Any, ...]], T.Tuple[T.Any, ...]]]:
    """Abstract one enumerated path of the recursive parser to its sequence of stream operations and token tests.
    Items: ('read', k) ('skip', k) ('expect', MEMBER, k) ('test', MEMBER, k, bool) ('testin', members, k, bool)
    ('look', MEMBER, j, bool) ('lookany', j, bool) ('sub', n).  None = the path is infeasible (constant-false test)."""
    arg = fn.args.args[0].arg
    env: T.Dict[str, ast.AST] = {}
    tr: T.List[T.Tuple[T.Any, ...]] = []
    reads = 0
    cur = 0
    subs = 0

    def member(e: ast.AST) -> T.Optional[str]:
        c = attr_chain(e) or ''
        return c.split('.')[1] if c.startswith('TokenType.') and c.count('.') == 1 else None

    def with_subs(e: ast.AST) -> ast.AST:
        nonlocal subs
        sc = _SubCalls(fn.name, arg, subs)
        e2 = sc.visit(copy.deepcopy(e))
        for n in sc.seen:
            tr.append(('sub', n))
        subs = sc.n
        return e2

    def is_next(e: ast.AST) -> bool:
        return isinstance(e, ast.Call) and norm(e.func) == 'next' and [norm(a) for a in e.args] == [arg]
    for ev in p.events:
        st = ev.node
        if ev.kind == 'cond':
            a, pol = tables.canon(resolve(st, env), True)      # type: ignore[arg-type]
            val = ev.val == pol
            if a.kind == 'is' and a.args[0].startswith('tok') and member(expr_of(a.args[1])):
                tr.append(('test', member(expr_of(a.args[1])), int(a.args[0][3:]), val))
            elif a.kind == 'in' and a.args[0].startswith('tok') and isinstance(expr_of(a.args[1]), (ast.Set, ast.Tuple, ast.List)):
                ms = frozenset(member(x) or '?' for x in expr_of(a.args[1]).elts)     # type: ignore[attr-defined]
                tr.append(('testin', ms, int(a.args[0][3:]), val))
            elif a.kind == 'is' and a.args[0].startswith('looktok') and member(expr_of(a.args[1])):
                tr.append(('look', member(expr_of(a.args[1])), int(a.args[0][7:]), val))
            elif a.kind == 'is' and a.args[0].startswith('look') and a.args[0].endswith('[0]') and a.args[0][4:-3].isdigit() and member(expr_of(a.args[1])):
                tr.append(('look', member(expr_of(a.args[1])), int(a.args[0][4:-3]), val))
            elif a.kind == 'cmp' and a.args[0] == 'eq' and any(x.startswith('look') and x.endswith('[0]') for x in a.args[1:]):
                lk = [x for x in a.args[1:] if x.startswith('look')][0]
                other = [x for x in a.args[1:] if x != lk][0]
                if not member(expr_of(other)):
                    raise Undecided(f'{fn.name}: look-ahead test {a!r}')
                tr.append(('look', member(expr_of(other)), int(lk[4:-3]), val))
            elif a.kind == 'is' and a.args[0] == 'None' or (a.kind == 'is' and a.args[1] == 'None' and a.args[0] == 'None'):
                # a constant: `None is TokenType.X` (look-ahead absent) is false, `None is None` true
                truth = a.args[1] == 'None'
                if val != truth:
                    return None
            elif a.kind == 'is' and a.args[1] == 'None' and a.args[0].startswith('look'):
                tr.append(('lookany', int(a.args[0][4:]), not val))
            elif a.kind == 'truth' and a.args[0].startswith('look') and a.args[0][4:].isdigit():
                tr.append(('lookany', int(a.args[0][4:]), val))
            elif (a.kind == 'truth' and a.args[0].startswith('val')) or (a.kind == 'is' and a.args[0].startswith('val') and a.args[1] == 'None'):
                pass    # payload assertions: discharged by the lexer facts (R4a)
            else:
                raise Undecided(f'{fn.name}: test outside the token vocabulary: {a!r}')
            continue
        if ev.kind == 'iter' and isinstance(st, ast.For) and norm(st.iter) == arg:
            # `for <item> in <stream>`: one turn is a read bound to the target; leaving the loop because the stream is exhausted is NOT a
            # read that fails (next() raises StopIteration, which parse() turns into MesonException): the path goes on as if nothing happened
            if ev.val == 'done':
                if st.orelse and p.outcome == 'raise':
                    return None     # end of input rejected by the else clause: the counterpart of next() raising (not a path of the grammar; exception class: R4a)
                tr.append(('end-of-input-ignored', reads))
                continue
            t = st.target
            if not (isinstance(t, ast.Tuple) and len(t.elts) == 2 and isinstance(t.elts[0], ast.Tuple) and len(t.elts[0].elts) == 2
                    and all(isinstance(x, ast.Name) for x in list(t.elts[0].elts) + [t.elts[1]])):
                raise Undecided(f'{fn.name}: read target {short(t)}')
            reads += 1
            cur = reads
            env[t.elts[0].elts[0].id] = ast.Name(id=f'tok{reads}', ctx=ast.Load())     # type: ignore[attr-defined]
            env[t.elts[0].elts[1].id] = ast.Name(id=f'val{reads}', ctx=ast.Load())     # type: ignore[attr-defined]
            if t.elts[1].id != '_':     # type: ignore[attr-defined]
                env[t.elts[1].id] = ast.Name(id=f'look{reads}', ctx=ast.Load())     # type: ignore[attr-defined]
            tr.append(('read', reads))
            continue
        if ev.kind != 'stmt' or st is None:
            raise Undecided(f'{fn.name}: event {ev!r}')
        if isinstance(st, (ast.Return, ast.Raise, ast.FunctionDef)):
            continue
        if isinstance(st, ast.Assign) and len(st.targets) == 1 and is_next(st.value):
            t = st.targets[0]
            if not (isinstance(t, ast.Tuple) and len(t.elts) == 2 and isinstance(t.elts[0], ast.Tuple) and len(t.elts[0].elts) == 2
                    and all(isinstance(x, ast.Name) for x in list(t.elts[0].elts) + [t.elts[1]])):
                raise Undecided(f'{fn.name}: read target {short(t)}')
            reads += 1
            cur = reads
            env[t.elts[0].elts[0].id] = ast.Name(id=f'tok{reads}', ctx=ast.Load())     # type: ignore[attr-defined]
            env[t.elts[0].elts[1].id] = ast.Name(id=f'val{reads}', ctx=ast.Load())     # type: ignore[attr-defined]
            if t.elts[1].id != '_':     # type: ignore[attr-defined]
                env[t.elts[1].id] = ast.Name(id=f'look{reads}', ctx=ast.Load())     # type: ignore[attr-defined]
            tr.append(('read', reads))
        elif isinstance(st, ast.Expr) and is_next(st.value):
            reads += 1
            tr.append(('skip', reads))
        elif isinstance(st, ast.Expr) and expect.call(st.value) is not None:
            _h, mname, checked = expect.call(st.value)     # type: ignore[misc]
            if checked != expect.tok:
                raise Undecided(f'{fn.name}: {short(st)} checks {checked}, not the current token')
            tr.append(('expect', mname, cur))
        elif isinstance(st, ast.Assign) and len(st.targets) == 1 and isinstance(st.targets[0], ast.Tuple) and len(st.targets[0].elts) == 2 \
                and all(isinstance(x, ast.Name) for x in st.targets[0].elts):
            # unpacking the look-ahead pair
            v = resolve(st.value, env)
            t0 = st.targets[0].elts[0].id     # type: ignore[attr-defined]
            if isinstance(v, ast.Name) and v.id.startswith('look'):
                env[t0] = ast.Name(id=f'looktok{v.id[4:]}', ctx=ast.Load())
            elif isinstance(v, ast.Tuple) and all(isinstance(x, ast.Constant) and x.value is None for x in v.elts):
                env[t0] = ast.Constant(None)
            else:
                raise Undecided(f'{fn.name}: {short(st)}')
        elif isinstance(st, (ast.Assign, ast.AnnAssign)) and isinstance(st.targets[0] if isinstance(st, ast.Assign) else st.target, ast.Name):
            name = (st.targets[0] if isinstance(st, ast.Assign) else st.target).id     # type: ignore[union-attr]
            if st.value is not None:
                v = resolve(st.value, env)
                lk = _lookahead_token(v)
                env[name] = ast.Name(id=f'looktok{lk}', ctx=ast.Load()) if lk is not None else with_subs(v)
        elif isinstance(st, ast.Expr) and isinstance(st.value, ast.Call) and isinstance(st.value.func, ast.Attribute) and st.value.func.attr == 'append' \
                and isinstance(st.value.func.value, ast.Name) and isinstance(env.get(st.value.func.value.id), ast.List) and len(st.value.args) == 1:
            lst = env[st.value.func.value.id]
            env[st.value.func.value.id] = ast.List(elts=list(lst.elts) + [with_subs(resolve(st.value.args[0], env))], ctx=ast.Load())     # type: ignore[attr-defined]
        else:
            raise Undecided(f'{fn.name}: statement outside the parser vocabulary: {short(st)}')
    if p.outcome == 'return':
        out: T.Tuple[T.Any, ...] = ('return', norm(with_subs(resolve(p.value, env))) if p.value is not None else 'None')
    elif p.outcome == 'raise':
        e = p.value.func if isinstance(p.value, ast.Call) else p.value
        out = ('raise', attr_chain(e) if e is not None else None)
    else:
        out = (p.outcome,)
    return tr, out


def _match_production(tr: T.List[T.Tuple[T.Any, ...]], out: T.Tuple[T.Any, ...], tmap: T.Dict[str, str]) -> T.Tuple[str, T.Optional[str]]:
    """Is the abstract path a sentence of the cfg grammar (project tests: no trailing comma)?  -> (production, error)"""
    items = list(tr)
    pos = 0

    def peek() -> T.Optional[T.Tuple[T.Any, ...]]:
        return items[pos] if pos < len(items) else None

    def take(kind: str, *want: T.Any) -> bool:
        nonlocal pos
        it = peek()
        if it is not None and it[0] == kind and all(w is None or it[i + 1] == w for i, w in enumerate(want)):
            pos += 1
            return True
        return False

    def fmt(it: T.Optional[T.Tuple[T.Any, ...]]) -> str:
        return 'the end of the path' if it is None else ' '.join(str(x) if not isinstance(x, frozenset) else '{' + ','.join(sorted(x)) + '}' for x in it)
    if not take('read', 1):
        return '?', f'the path starts with {fmt(peek())}, not with reading a token'
    while take('lookany', 1, None):
        pass
    kind = None
    while True:
        it = peek()
        if it is None or it[0] not in ('test', 'testin') or it[2] != 1:
            break
        pos += 1
        if it[-1]:
            if it[0] == 'test':
                kind = it[1]
            else:
                kind = 'LIST' if it[1] == frozenset(('ANY', 'ALL')) else '?' + fmt(it)
                # an inner test may narrow the member (type selection)
            break
    if kind is None:
        if out == ('raise', 'MesonException') and peek() is None:
            return 'unexpected token', None
        return '?', f'no dispatch test succeeded but the path continues with {fmt(peek())} and ends by {out}'
    if kind == 'IDENTIFIER':
        if take('look', 'EQUAL', 1, True):
            k0 = pos
            if not (take('skip', None) and take('read', None)):
                return 'name = "value"', f'after the look-ahead saw `=`, expected: skip it, read the next token; found {fmt(peek())}'
            rd = items[pos - 1][1]
            if not take('expect', 'STRING', rd):
                return 'name = "value"', f'the token after `=` is not checked to be a STRING (found {fmt(peek())})'
            if peek() is not None:
                return 'name = "value"', f'unexpected {fmt(peek())}'
            want = f'Equal(Identifier(val1), String(val{rd}))'
            return 'name = "value"', None if out == ('return', want) else f'builds {out}; expected {want} (name from the first token, value from the STRING token)'
        take('look', 'EQUAL', 1, False)
        if peek() is not None:
            return 'name', f'unexpected {fmt(peek())}'
        return 'name', None if out == ('return', 'Identifier(val1)') else f'builds {out}; expected Identifier(val1)'
    if kind in ('LIST', 'ALL', 'ANY'):
        prod = 'all/any list'
        if not take('read', None):
            return prod, f'expected reading the token after the keyword, found {fmt(peek())}'
        rd = items[pos - 1][1]
        if not take('expect', 'LPAREN', rd):
            return prod, f'the token after all/any is not checked to be `(` (found {fmt(peek())})'
        subs: T.List[int] = []
        if take('lookany', rd, True) and take('look', 'RPAREN', rd, True):
            prod = 'all/any empty list'
            if not (take('read', None) or take('skip', None)):     # the look-ahead already identified it: a bare next() is as good
                return prod, f'empty list: the `)` seen by the look-ahead is not consumed (found {fmt(peek())})'
        else:
            take('lookany', rd, False)
            take('look', 'RPAREN', rd, False)
            while True:
                if not take('sub', None):
                    return prod, f'expected a nested expression, found {fmt(peek())}'
                subs.append(items[pos - 1][1])
                if not take('read', None):
                    return prod, f'expected reading the token after a list item, found {fmt(peek())}'
                r2 = items[pos - 1][1]
                if take('test', 'RPAREN', r2, True):
                    break
                if not (take('test', 'RPAREN', r2, False) and take('expect', 'COMMA', r2)):
                    return prod, f'after a list item the token must be `)` (end) or be checked to be `,`; found {fmt(peek())}'
        if peek() is not None:
            return prod, f'unexpected {fmt(peek())} after the closing parenthesis'
        args = '[' + ', '.join(f'sub{n}' for n in subs) + ']'
        if out[0] != 'return':
            return prod, f'ends by {out}'
        e = expr_of(out[1])
        if not (isinstance(e, ast.Call) and len(e.args) == 1 and norm(e.args[0]) == args and not e.keywords):
            return prod, f'builds {out[1]}; expected <class>({args}) with the items in order'
        f = e.func
        if isinstance(f, ast.IfExp):
            a, pol = tables.canon(f.test, True)
            if not (a.kind == 'is' and a.args[0] == 'tok1' and a.args[1] in ('TokenType.ALL', 'TokenType.ANY') and isinstance(f.body, ast.Name) and isinstance(f.orelse, ast.Name)):
                return prod, f'class selection {short(f)} is not a test of the keyword token'
            m1 = a.args[1].split('.')[1]
            m2 = 'ANY' if m1 == 'ALL' else 'ALL'
            yes, no = (f.body.id, f.orelse.id) if pol else (f.orelse.id, f.body.id)
            for mm, cc in ((m1, yes), (m2, no)):
                if tmap.setdefault(mm, cc) != cc:
                    return prod, f'TokenType.{mm} builds {cc} here but {tmap[mm]} elsewhere'
        elif isinstance(f, ast.Name) and kind in ('ALL', 'ANY'):
            if tmap.setdefault(kind, f.id) != f.id:
                return prod, f'TokenType.{kind} builds {f.id} here but {tmap[kind]} elsewhere'
        else:
            return prod, f'class selection {short(f)} is not decidable'
        return prod, None
    if kind == 'NOT':
        prod = 'not(...)'
        if not take('read', None):
            return prod, f'expected reading the token after `not`, found {fmt(peek())}'
        rd = items[pos - 1][1]
        if not take('expect', 'LPAREN', rd):
            return prod, f'the token after `not` is not checked to be `(` (found {fmt(peek())})'
        if not take('sub', None):
            return prod, f'expected the nested expression, found {fmt(peek())}'
        sn = items[pos - 1][1]
        if not take('read', None):
            return prod, f'expected reading the closing token, found {fmt(peek())}'
        rd = items[pos - 1][1]
        if not take('expect', 'RPAREN', rd):
            return prod, f'the token after the operand of `not` is not checked to be `)` (found {fmt(peek())})'
        if peek() is not None:
            return prod, f'unexpected {fmt(peek())}'
        if out[0] == 'return':
            e = expr_of(out[1])
            if isinstance(e, ast.Call) and isinstance(e.func, ast.Name) and [norm(a) for a in e.args] == [f'sub{sn}']:
                if tmap.setdefault('NOT', e.func.id) != e.func.id:
                    return prod, 'inconsistent class'
                return prod, None
        return prod, f'builds {out}; expected <class>(sub{sn})'
    return '?', f'dispatch on {kind} is not a production of the cfg grammar'


def _parse_analysis(ctx: RuleCtx, mod: Module, report: bool) -> T.Dict[str, T.Any]:
    fn = nf(mod, '_parse')
    paths = enumerate_paths(fn.body, unroll=2)
    tmap: T.Dict[str, str] = {}
    per: T.Dict[str, int] = {}
    bad: T.Dict[str, T.Tuple[ast.AST, str]] = {}
    expect = _Expect(mod, fn)
    for p in paths:
        t = _trace(fn, p, expect)
        if t is None:
            continue
        tr, out = t
        prod, err = _match_production(tr, out, tmap)
        per[prod] = per.get(prod, 0) + 1
        if err is not None and out[0] == 'return':
            unknown = [norm(c.func) for c in ast.walk(expr_of(out[1])) if isinstance(c, ast.Call) and isinstance(c.func, ast.Name) and mod.has_func(c.func.id) and c.func.id != fn.name]
            if unknown:
                raise Undecided(f'_parse: a path returns `{out[1]}` through {unknown}, a helper this rule does not follow')
        if err is not None:
            node = [e.node for e in p.events if e.kind == 'stmt'][-1] if p.events else fn
            bad.setdefault(f'{prod}: {err.split(";")[0].split("(found")[0].strip()} :: {norm(node)}',
                           (node, f'production `{prod}`: {err}.  Path: {" > ".join(" ".join(str(x) if not isinstance(x, frozenset) else "{ALL,ANY}" for x in it) for it in tr)} => {" ".join(str(x) for x in out)}'))
    if report:
        for key, (node, msg) in bad.items():
            ctx.violation(mod, '_parse', key, msg, node)
        for prod in ('name', 'name = "value"', 'all/any list', 'all/any empty list', 'not(...)', 'unexpected token'):
            if not any(k.startswith(prod + ':') for k in bad):
                ctx.require(per.get(prod, 0) > 0, f'_parse: production `{prod}`: {per.get(prod, 0)} enumerated path(s) read / check / recurse / build exactly as the grammar prescribes',
                            mod, '_parse', f'production {prod}', f'no path of _parse implements the production `{prod}`', fn)
        ctx.floor('_parse paths abstracted', sum(per.values()), 6)
        # the expectation helper(s): raise exactly when the checked token is not the expected member
        if not expect.helpers:
            raise Undecided('_parse: no token-expectation helper (`if token is not <expected>: raise MesonException`) found')
        for hname, (hf, sides, raises_when_different) in expect.helpers.items():
            ctx.require(raises_when_different, f'{hname}: raises MesonException exactly when the checked token is not the expected member', mod, hname if mod.has_func(hname) else f'_parse.{hname}',
                        f'{hname} polarity', f'{hname} raises MesonException when `{sides[0]} is {sides[1]}` HOLDS and passes otherwise: every delimiter check is inverted', hf)
    return {'token_class': tmap, 'bad': bad, 'per': per}


def r4_grammar(ctx: RuleCtx) -> None:
    _parse_analysis(ctx, ctx.repo.module(CFGPY), report=True)


def _exc_names(h: ast.ExceptHandler) -> T.List[str]:
    if h.type is None:
        return ['BaseException']
    ts = h.type.elts if isinstance(h.type, ast.Tuple) else [h.type]
    return [(attr_chain(t) or '?').split('.')[-1] for t in ts]


def r4_escape(ctx: RuleCtx) -> None:
    mod = ctx.repo.module(CFGPY)
    # (1) every raise in the module raises a MesonException (sub)class
    ok_classes = {'MesonException', 'MesonBugException'}
    imps = mod.imports()
    for n in ok_classes:
        if n in imps and not imps[n].startswith('mesonbuild.'):
            raise Undecided(f'{n} is imported from {imps[n]}')
    nraise = 0
    for q, fn in [(q0, nf(mod, q0)) for q0 in mod.funcs()]:
        for n in walk_no_nested(fn):
            if isinstance(n, ast.Raise):
                nraise += 1
                e = n.exc.func if isinstance(n.exc, ast.Call) else n.exc
                name = attr_chain(e) if e is not None else None
                if name not in ok_classes and name is not None and mod.has_cls(name.split('.')[-1]):
                    chain = [attr_chain(b) or '' for _m, c in ctx.repo.mro(mod, mod.cls(name.split('.')[-1])) for b in c.bases]
                    if any(b.split('.')[-1] in ok_classes for b in chain):
                        ctx.ok(f'{q}: raises {name} (a MesonException subclass of this module)')
                        continue
                if name not in ok_classes and (name is None or not hasattr(_builtins, name.split('.')[-1])):
                    raise Undecided(f'{q}: raises {name or "<re-raise>"}, whose class this rule cannot resolve')
                ctx.require(name in ok_classes, f'{q}: raises {name}', mod, q, n, f'{q} raises {name or "<re-raise>"}; only MesonException may leave cfg parsing/evaluation')
    ctx.floor('raise statements in cfg.py', nraise, 5)
    # (2) _parse is entered only from parse (under the StopIteration handler) and from itself
    parse = nf(mod, 'parse')
    inner = nf(mod, '_parse')
    callers: T.Dict[str, T.List[ast.Call]] = {}
    for q, fn in [(q0, nf(mod, q0)) for q0 in mod.funcs()]:
        if q.startswith('_parse.'):
            continue
        for c in ast.walk(fn):
            if isinstance(c, ast.Call) and isinstance(c.func, ast.Name) and c.func.id == '_parse':
                callers.setdefault(q.split('.')[0], []).append(c)
    # a function that calls _parse and is itself reachable only from _parse / parse is part of the parser (per-production helpers)
    def module_callers(name: str) -> T.Set[str]:
        return {q.split('.')[0] for q, f in mod.funcs().items() if q.split('.')[0] != name
                and any(isinstance(c, ast.Call) and isinstance(c.func, ast.Name) and c.func.id == name for c in ast.walk(f))}
    inside = {'parse', '_parse'}
    grew = True
    while grew:
        grew = False
        for cand in set(callers) - inside:
            cs = module_callers(cand)
            if cs and cs <= inside:
                inside.add(cand)
                grew = True
    extra = sorted(set(callers) - inside)
    if 'parse' not in callers:
        raise Undecided('_parse is not called from parse directly (moved behind a helper?)')
    ctx.require(not extra and 'parse' in callers, '_parse is called only by parse and by itself', mod, '<module>', '_parse callers',
                f'_parse is also called from {extra}: its StopIteration would escape there')
    g = CFG(parse)
    for c in callers.get('parse', []):
        nodes = g.node_containing(c)
        if len(nodes) != 1:
            raise Undecided('parse: cannot place the _parse call in the CFG')
        handlers = [g.nodes[b] for b, lab in g.succ[nodes[0].id] if lab == 'exc' and g.nodes[b].kind == 'handler']
        catching = [h for h in handlers if set(_exc_names(h.ast)) & {'StopIteration', 'Exception', 'BaseException'}]   # type: ignore[arg-type]
        ok = bool(catching)
        for h in catching:
            reach = g.reachable([h])
            if g.exit_return.id in reach:
                ok = False
            for nid in reach:
                st = g.nodes[nid].ast
                if g.nodes[nid].kind == 'stmt' and isinstance(st, ast.Raise):
                    e = st.exc.func if isinstance(st.exc, ast.Call) else st.exc
                    if e is None or attr_chain(e) not in ok_classes:
                        ok = False
        ctx.require(ok, 'parse: running out of tokens inside _parse (StopIteration) is converted to MesonException', mod, 'parse', c,
                    'the _parse call in parse is not covered by an `except StopIteration` handler that always raises MesonException: '
                    'a truncated expression such as `all(a` would escape as StopIteration')
    nexts = [c for c in ast.walk(inner) if isinstance(c, ast.Call) and isinstance(c.func, ast.Name) and c.func.id == 'next' and len(c.args) == 1]
    ctx.floor('next(ast) calls in _parse', len(nexts), 6)
    # (3) after _parse the stream must be exhausted: decision table of parse (normal paths)
    tab = tables.extract(parse, effects=eff, inline=False, name='parse')
    seen = {'reject': 0, 'accept': 0}
    # EAFP spelling of the same test: `try: next(stream) except StopIteration: return ir` followed by the raise - read on the CFG
    probes = [n for n in g.nodes if n.kind == 'stmt' and isinstance(n.ast, ast.Expr) and isinstance(n.ast.value, ast.Call) and norm(n.ast.value.func) == 'next'
              and len(n.ast.value.args) == 1 and not n.ast.value.keywords]
    eafp = False
    if len(probes) == 1:
        pn = probes[0]
        stream = norm(pn.ast.value.args[0])     # type: ignore[union-attr]
        sdef = [st for st in walk_no_nested(parse) if isinstance(st, (ast.Assign, ast.AnnAssign)) and norm(st.targets[0] if isinstance(st, ast.Assign) else st.target) == stream]
        same_stream = any(isinstance(c, ast.Call) and norm(c.func) == '_parse' and [norm(a) for a in c.args] == [stream] for c in ast.walk(parse)) and len(sdef) == 1 \
            and norm(sdef[0].value) == f'lookahead({parse.args.args[0].arg})'
        hs = [g.nodes[b] for b, lab in g.succ[pn.id] if lab == 'exc' and g.nodes[b].kind == 'handler']
        stop = [h for h in hs if set(_exc_names(h.ast)) & {'StopIteration'}]     # type: ignore[arg-type]
        if same_stream and len(stop) == 1:
            hreach = g.reachable([stop[0]])
            h_ok = g.exit_return.id in hreach and not any(g.nodes[i].kind == 'stmt' and isinstance(g.nodes[i].ast, ast.Raise) for i in hreach)
            hrets = [g.nodes[i].ast for i in hreach if g.nodes[i].kind == 'stmt' and isinstance(g.nodes[i].ast, ast.Return)]
            irdef = {norm(st.targets[0]) for st in walk_no_nested(parse) if isinstance(st, ast.Assign) and isinstance(st.value, ast.Call) and norm(st.value.func) == '_parse'}
            h_ok = h_ok and bool(hrets) and all(r0.value is not None and norm(r0.value) in irdef for r0 in hrets)     # type: ignore[union-attr]
            nreach = g.reachable([pn], edge_ok=lambda a, b, lab: lab != 'exc')
            n_ok = g.exit_return.id not in nreach and any(g.nodes[i].kind == 'stmt' and isinstance(g.nodes[i].ast, ast.Raise) for i in nreach) and \
                all(attr_chain(g.nodes[i].ast.exc.func if isinstance(g.nodes[i].ast.exc, ast.Call) else g.nodes[i].ast.exc) in ok_classes     # type: ignore[union-attr]
                    for i in nreach if g.nodes[i].kind == 'stmt' and isinstance(g.nodes[i].ast, ast.Raise))
            eafp = True
            ctx.require(n_ok, 'parse: a token left after the expression -> MesonException (next() succeeds -> raise)', mod, 'parse', 'leftover rejected (EAFP)',
                        'after a successful `next(stream)` (a token is left) parse can still return instead of raising MesonException', pn.ast)
            ctx.require(h_ok, 'parse: an exhausted stream -> the IR of _parse (StopIteration of next() -> return ir)', mod, 'parse', 'result (EAFP)',
                        'when `next(stream)` raises StopIteration (stream exhausted) parse does not return the IR of _parse', stop[0].ast)
            seen = {'reject': 1, 'accept': 1}
    for r in ([] if eafp else tab.rows):
        env, rest = propagate(stmts_of(r))
        left = None
        for a, v in r.conds.items():
            e_l, e_r = (expr_of(a.args[0]), a.args[1]) if a.kind == 'is' else (None, None)
            if e_l is not None and e_r == 'None':
                e_l = resolve(e_l, env)
                if isinstance(e_l, ast.Call) and norm(e_l.func) == 'next' and len(e_l.args) == 2 and norm(e_l.args[1]) == 'None':
                    left = (norm(e_l.args[0]), not v)
        node = r.path.events[-1].node if r.path.events else parse
        if left is None:
            streams = {norm(c.args[0]) for c in ast.walk(parse) if isinstance(c, ast.Call) and norm(c.func) == '_parse' and len(c.args) == 1 and isinstance(c.args[0], ast.Name)}
            after = False
            used = False
            for ev in r.path.events:
                if ev.node is None:
                    continue
                if after and streams & names_in(ev.node):
                    used = True
                if any(isinstance(c, ast.Call) and norm(c.func) == '_parse' for c in ast.walk(ev.node)):
                    after = True
            if used or not streams:
                raise Undecided(f'parse: row `{r!r}` uses the token stream after _parse in a form this rule does not read')
            ctx.violation(mod, 'parse', f'leftover check :: {norm(node)}', f'row `{r!r}` ends by {r.outcome} without testing `next(<stream>, None) is None`: '
                          f'trailing tokens (`cfg(a))`, `cfg(a b)`) would be accepted', node)
            continue
        stream, leftover = left
        if leftover:
            seen['reject'] += 1
            ctx.require(r.outcome == ('raise', 'MesonException'), 'parse: a token left after the expression -> MesonException', mod, 'parse', f'leftover rejected :: {norm(node)}',
                        f'with a token left in the stream the row ends by {r.outcome}', node)
        else:
            seen['accept'] += 1
            ret = norm(resolve(expr_of(r.outcome[1]), env)) if r.outcome[0] == 'return' else None
            ctx.require(ret == f'_parse({stream})' and stream == f'lookahead(ARG1)', 'parse: an exhausted stream -> the IR of _parse(lookahead(tokens))', mod, 'parse',
                        f'result :: {norm(node)}', f'with the stream exhausted the row ends by {r.outcome} (= {ret}); expected _parse(lookahead(ARG1)) on the same stream that is tested for leftovers', node)
    ctx.floor('parse rows (reject / accept)', min(seen.values()), 1)
    # (4) every token read whose value is bound is checked (assertToken / identity test) before the parse goes on
    g2 = CFG(inner)
    expect = _Expect(mod, inner)
    TOK = expect.tok
    reads = []
    for node in g2.nodes:
        st = node.ast
        if node.kind == 'stmt' and isinstance(st, ast.Assign) and isinstance(st.value, ast.Call) and norm(st.value.func) == 'next':
            names = {n.id for t in st.targets for n in ast.walk(t) if isinstance(n, ast.Name)}
            if TOK in names:
                reads.append(node)
    if len(reads) < 2:
        raise Undecided('_parse: token reads `(token, value), _ = next(ast)` not found')
    first = min(reads, key=lambda n: n.id)

    def is_check(node: T.Any) -> bool:
        e = node.expr()
        if e is None:
            return False
        for c in walk_no_nested(e):
            ec = expect.call(c)
            if ec is not None and ec[2] == TOK:
                return True
            if node.kind == 'test' and isinstance(c, ast.Compare) and TOK in {n.id for n in ast.walk(c) if isinstance(n, ast.Name)}:
                return True
        return False
    checks = [n for n in g2.nodes if is_check(n)]

    def is_progress(node: T.Any) -> bool:
        if node.id in (g2.exit_return.id,):
            return True
        e = node.expr()
        if e is None or is_check(node):
            return False
        if node.kind == 'stmt' and isinstance(node.ast, ast.Return):
            return True
        return any(isinstance(c, ast.Call) and isinstance(c.func, ast.Name) and c.func.id in ('next', '_parse') for c in walk_no_nested(e))
    progress = [n for n in g2.nodes if is_progress(n)]
    look: T.Set[str] = set()
    for rd in reads:
        t = rd.ast.targets[0]     # type: ignore[union-attr]
        if isinstance(t, ast.Tuple) and len(t.elts) == 2 and isinstance(t.elts[1], ast.Name) and t.elts[1].id != '_':
            look.add(t.elts[1].id)
    for st in walk_no_nested(inner):
        if isinstance(st, ast.Assign) and isinstance(st.value, ast.Name) and st.value.id in look:
            look |= {n.id for n in ast.walk(st.targets[0]) if isinstance(n, ast.Name) and n.id != '_'}

    def confirmed_by_lookahead(rd: T.Any) -> bool:
        seen_n: T.Set[int] = set()
        todo = [rd.id]
        while todo:
            cur = todo.pop()
            for p, lab in g2.pred[cur]:
                pn = g2.nodes[p]
                if pn.kind == 'test' and lab is True and {n.id for n in ast.walk(pn.expr()) if isinstance(n, ast.Name)} & look:   # type: ignore[arg-type]
                    continue
                consumes = pn.expr() is not None and any(isinstance(c, ast.Call) and isinstance(c.func, ast.Name) and c.func.id in ('next', '_parse')
                                                         for c in walk_no_nested(pn.expr()))     # type: ignore[arg-type]
                if pn.kind == 'entry' or consumes or lab == 'exc':
                    return False    # another token was consumed in between: the look-ahead spoke about that one
                if p not in seen_n:
                    seen_n.add(p)
                    todo.append(p)
        return True
    maybe_checks = [short(c) for c in ast.walk(inner) if isinstance(c, ast.Call) and expect.call(c) is None and not (isinstance(c.func, ast.Name) and c.func.id in ('next', inner.name))
                    and any(isinstance(a, ast.Name) and a.id == TOK for a in list(c.args) + [k.value for k in c.keywords])]
    for rd in reads:
        esc = [p for p in progress if p.id != rd.id and g2.can_reach(rd, p, avoid=checks, no_exc=True)]
        if esc and maybe_checks and not confirmed_by_lookahead(rd):
            raise Undecided(f'_parse: `{maybe_checks[0]}` receives the token and may be the check this rule looks for')
        how = 'dispatch' if rd is first else 'delimiter'
        if esc and confirmed_by_lookahead(rd):
            esc, how = [], 'already identified by the look-ahead test'
        tgt = esc[0] if esc else None
        where = 'the end of _parse' if tgt is not None and tgt.ast is None else f'`{short(tgt.ast, 60)}`' if tgt is not None else ''
        ctx.require(not esc, f'_parse: token read `{short(rd.ast, 50)}` ({how}) is checked before the parse continues', mod, '_parse',
                    rd.ast, f'after `{short(rd.ast, 60)}` the parse can continue to {where} without assertToken / a test of the token', rd.ast)
    ctx.floor('token reads in _parse', len(reads), 5)
    # (5) payload asserts of _parse are discharged by the lexer table: IDENTIFIER only with a truthy word, STRING with a slice of the input
    lex = nf(mod, 'lexer')
    raw = lex.args.args[0].arg
    for part, body in (('loop', [s for s in lex.body if isinstance(s, ast.For)][0].body), ('tail', lex.body[lex.body.index([s for s in lex.body if isinstance(s, ast.For)][0]) + 1:])):
        tab = tables.extract(lex, body=body, effects=eff, inline=False, name=f'lexer:{part}')
        okp = True
        ny = 0
        for r in tab.rows:
            for st in stmts_of(r):
                y = st.value.value if isinstance(st, ast.Expr) and isinstance(st.value, ast.Yield) else None
                if not (isinstance(y, ast.Tuple) and len(y.elts) == 2):
                    continue
                mem = (attr_chain(y.elts[0]) or '').split('.')[-1]
                if mem in ('IDENTIFIER', 'STRING'):
                    ny += 1
                    pv = norm(y.elts[1])
                    defs = [s for s in walk_no_nested(lex) if isinstance(s, ast.Assign) and norm(s.targets[0]) == pv]
                    is_slice = lambda e: isinstance(e, ast.Subscript) and norm(e.value) in (raw, 'ARG1') and isinstance(e.slice, ast.Slice)     # noqa: E731
                    sliced = (bool(defs) and all(is_slice(d.value) for d in defs)) or is_slice(y.elts[1])     # a local bound to slices of the input, or the slice written out
                    guarded = r.conds.get(Atom('truth', (pv,))) is True or r.conds.get(Atom('cmp', ('eq', pv, "''"))) is False
                    if not sliced or (mem == 'IDENTIFIER' and not guarded):
                        okp = False
        if ny == 0:
            raise Undecided(f'lexer ({part}): no IDENTIFIER / STRING token is yielded here directly (produced by a helper?)')
        ctx.require(okp and ny > 0, f'lexer ({part}): IDENTIFIER is yielded only under a truthy word, payloads are slices of the input (discharges the payload asserts of _parse)', mod, 'lexer',
                    f'token payloads ({part})', 'the lexer can yield an IDENTIFIER without text or a payload that is not a str: `assert value` in _parse would escape as AssertionError')
    asserts = [n for n in walk_no_nested(inner) if isinstance(n, ast.Assert)]
    for a in asserts:
        if {n.id for n in ast.walk(a.test) if isinstance(n, ast.Name)} != {'value'}:
            raise Undecided(f'_parse: assert on {short(a.test)}')
    # (6) eval_cfg: only cfg(...) is evaluated, on the text between the parentheses
    ec = nf(mod, 'eval_cfg')
    t3 = tables.extract(ec, effects=eff, inline=False, name='eval_cfg')
    sw, ew = Atom('truth', ("ARG1.startswith('cfg(')",)), Atom('truth', ("ARG1.endswith(')')",))
    memo_atoms = {a for a in t3.atoms() if a.kind == 'in' and mod.has_assign(a.args[1]) and isinstance(mod.assign_value(a.args[1]), ast.Dict)}     # `key in CACHE`
    if not set(t3.atoms()) <= {sw, ew} | memo_atoms:
        raise Undecided(f'eval_cfg: tests {t3.atoms()}')
    for w in t3.worlds([sw, ew]):
        rows = t3.fire(w)
        if len(rows) != 1:
            raise Undecided(f'eval_cfg: {len(rows)} rows for {w}')
        want = "_eval_cfg(parse(lexer(ARG1[4:-1])), ARG2)" if (w[sw] and w[ew]) else 'False'
        envw, _restw = propagate(stmts_of(rows[0]))
        gotw = ('return', norm(resolve(expr_of(rows[0].outcome[1]), envw))) if rows[0].outcome[0] == 'return' else rows[0].outcome
        # memoised spelling: `if key not in CACHE: CACHE[key] = E` ... `return CACHE[key]` - the value is E, provided the key keeps both arguments
        mm = _re.fullmatch(r'(\w+)\[(.+)\]', gotw[1]) if gotw[0] == 'return' else None
        if mm is not None and mod.has_assign(mm.group(1)) and isinstance(mod.assign_value(mm.group(1)), ast.Dict) and not mod.assign_value(mm.group(1)).keys:     # type: ignore[union-attr]
            cache, key = mm.group(1), mm.group(2)
            stores = [st for st in ast.walk(ec) if isinstance(st, ast.Assign) and isinstance(st.targets[0], ast.Subscript) and norm(st.targets[0].value) == cache]
            if len(stores) == 1:
                kenv, _ = propagate([st for st in walk_no_nested(ec) if isinstance(st, ast.Assign) and isinstance(st.targets[0], ast.Name)])
                kexpr = _Rename(tables._param_map(ec)).visit(resolve(stores[0].targets[0].slice, kenv))
                parts = [norm(x) for x in kexpr.elts] if isinstance(kexpr, ast.Tuple) else [norm(kexpr)]
                whole = {'frozenset(ARG2.items())', 'tuple(sorted(ARG2.items()))', 'tuple(ARG2.items())'}
                lossy = {'frozenset(ARG2)', 'tuple(ARG2)', 'tuple(sorted(ARG2))', 'len(ARG2)', 'frozenset(ARG2.keys())', 'tuple(ARG2.keys())'}
                if 'ARG1' in parts and any(x in whole for x in parts):
                    gotw = ('return', norm(_Rename(tables._param_map(ec)).visit(resolve(stores[0].value, kenv))))
                elif any(x in lossy for x in parts) or 'ARG1' not in parts:
                    ctx.violation(mod, 'eval_cfg', 'memo key drops part of the arguments', f'eval_cfg caches its verdict in `{cache}` under the key `({", ".join(parts)})`: the key does not '
                                  f'keep {"the values of the configuration (only its names)" if "ARG1" in parts else "the expression text"}, so `cfg(target_os = "linux")` evaluated once '
                                  f'for {{target_os: linux}} is replayed for {{target_os: windows}}', stores[0])
                    continue
        if gotw != ('return', want) and gotw[0] == 'return':
            unknown = [norm(c.func) for c in ast.walk(expr_of(gotw[1])) if isinstance(c, ast.Call) and isinstance(c.func, ast.Name) and c.func.id not in ('_eval_cfg', 'parse', 'lexer')]
            if unknown:
                raise Undecided(f'eval_cfg: the result `{gotw[1]}` goes through {unknown}, which this rule does not follow')
        ctx.require(gotw == ('return', want), f'eval_cfg: startswith cfg( = {w[sw]}, endswith ) = {w[ew]} -> {want}', mod, 'eval_cfg', f'eval_cfg {w[sw]} {w[ew]}',
                    f'eval_cfg row `{rows[0]!r}`; expected return {want}', rows[0].path.events[-1].node if rows[0].path.events else ec)


RULES = [
    Rule('C20.R1a', 'split(): prefix chain, slice lengths, wildcard -> tilde, default caret', r1_split),
    Rule('C20.R1b', 'cargo_parse: per-operator (comparator, bound) rows, sticky pre-release flag, matcher table', r1_cargo_parse),
    Rule('C20.R1c', 'next_ver / list constructor / has_prerelease by expression shape', r1_next_ver),
    Rule('C20.R2a', 'SemVer: one comparison core, ranking keys [int below str, value, length]', r2_core),
    Rule('C20.R2b', 'SemVer tokenizer: regex language facts + decision table of the token loop (int conversion structure)', r2_tokens),
    Rule('C20.R3a', '_eval_cfg: one arm per IR class built by _parse, with the denoting construct', r3_eval),
    Rule('C20.R3b', 'lexer decision table; keyword -> token -> IR class -> builtin compose', r3_maps),
    Rule('C20.R4a', 'only MesonException escapes; StopIteration covered; stream exhausted; token reads checked', r4_escape),
    Rule('C20.R4b', '_parse: every enumerated path is a sentence of the cfg grammar and builds its IR', r4_grammar),
]
