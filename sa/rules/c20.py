"""C20 - Cargo version requirements and cfg() expressions (DESIGN section 2 C20, data sheet A.17)."""
from __future__ import annotations

import ast
import itertools
import typing as T

from ..core import Module, Undecided, norm, short, attr_chain, walk_no_nested
from ..report import Rule, RuleCtx
from ..cfg import CFG
from ..consteval import fold_expr, Regex, Folder
from .. import rx
from . import cmpcore
from .c20_eval import Interp, Obj, ClassRef, ExcClass, Namespace, EnumVal, Raised, Stream, last_call_stmt, dataclass_model

VERSION = 'mesonbuild/cargo/version.py'
CFGPY = 'mesonbuild/cargo/cfg.py'

EXPLANATION = (
    'Decides structural clauses of C20.  R1: the decision function of cargo_parse (operator, number of specified components, '
    'zero pattern of major/minor/patch, pre-release flags) -> set of (comparator, bound) equals the Cargo table of A.17 on every '
    'world, plus the pre-release gate and the conjunction of the returned matcher; split() canonicalisation (two-character '
    'operators first, wildcard -> tilde, bare * skipped, default caret); next_ver (bump, zero the lower components, drop the '
    'pre-release), the list constructor and has_prerelease (slot 3).  R2: SemVer has one comparison core with symmetric ranking '
    'keys [kind: int below str, value, length]; tokenizer regex language facts (digit branch only digits, identifier branch '
    'disjoint from it and free of "." and "+", build branch anchored on "+") and the transition table of the tokenizer loop on '
    'witness tokens taken from that language by a product automaton: slot 3 is 0/-1, build metadata stops tokenisation, every '
    'all-digit identifier is stored as int.  R3: _eval_cfg has an arm with the reference denotation for every IR class _parse can '
    'build (children are oracles); keyword -> token -> IR class maps agree; a string literal is one STRING token.  R4: every raise '
    'in cfg.py is a MesonException, every next() of _parse is covered by the StopIteration handler of parse, the stream must be '
    'exhausted after _parse, every token read is checked before the parse continues (CFG dominance), and the decision table of '
    '_parse over token-kind worlds (well-formed shapes and all their single-edit neighbours, nested expressions as oracle '
    'non-terminal) equals the cfg grammar the project pins in its tests (trailing comma = malformed).  '
    'The tables are evaluated by a bounded evaluator over the function ASTs with model collaborators (sa/rules/c20_eval.py); '
    'no repository code is imported or executed.  Does NOT decide pointwise agreement with Cargo on concrete requirement x version '
    'strings, tokenisation of strings outside the witness classes (e.g. an alphanumeric identifier that starts with a digit inside '
    'the pre-release section), or escapes inside cfg string literals.')
ASSUMPTIONS = ['operator.lt/gt/le/ge/eq/ne, Python int/str/list comparison and the whitelisted str/list/dict methods behave as documented',
               're alternation/finditer semantics as documented; the NFA of sa.rx over-approximates look-around (none is used here)',
               'dataclasses generates positional constructors in field order']
TECHNIQUE = 'decision tables over model worlds (bounded AST evaluator) + regex-language product automaton + CFG dominance/exception edges'

OPS = ['>=', '<=', '!=', '~', '=', '^', '>', '<']
OPNAME = {'>=': 'ge', '<=': 'le', '!=': 'ne', '=': 'eq', '>': 'gt', '<': 'lt'}


def _undecided_on_raise(what: str, r: Raised) -> Undecided:
    return Undecided(f'{what}: the evaluated code raised {r.exc!r} in a world where the reference expects a value')


# =====================================================================================================
# R1  requirement table
# =====================================================================================================

def ref_split(req: str) -> T.List[T.Tuple[str, str]]:
    """Cargo reference (specifying-dependencies: comparison / tilde / caret / wildcard requirements)."""
    out: T.List[T.Tuple[str, str]] = []
    req = req.strip()
    if not req:
        return out
    for part in req.split(','):
        part = part.strip()
        if part == '*':
            continue
        for op in sorted(OPS, key=len, reverse=True):
            if part.startswith(op):
                out.append((op, part[len(op):].strip()))
                break
        else:
            if part.endswith('.*'):
                out.append(('~', part[:-2]))
            else:
                out.append(('^', part))
    return out


def _split_samples() -> T.Dict[str, T.List[str]]:
    fam: T.Dict[str, T.List[str]] = {}
    for op in OPS:
        fam[f'operator {op}'] = [op + sp + tail for sp in ('', ' ') for tail in ('1', '1.2', '1.2.3', '0.0.3-rc.1')]
    fam['bare version (caret default)'] = ['1', '1.2', '0.2.3', ' 1.2.3 ', '0.0.0']
    fam['wildcard'] = ['1.*', '1.2.*', ' 0.* ', '*', ' * ']
    fam['empty'] = ['', '   ']
    fam['comma list'] = ['>=1, <2', '>= 1.2 ,< 2', '1, *', '*, ~1.2', ' ~1.2 , =3 ', '>1,<=2,!=1.5', '1.*, <1.5', '^1,>1.0.1']
    return fam


def r1_split(ctx: RuleCtx) -> None:
    mod = ctx.repo.module(VERSION)
    fn = mod.func('split')
    n = sum(len(v) for v in _split_samples().values())
    for family, samples in _split_samples().items():
        bad = None
        for s in samples:
            it = Interp({}, name='split')
            try:
                got = it.closure(fn)(s)
            except Raised as r:
                raise _undecided_on_raise(f'split({s!r})', r)
            got = [tuple(x) if isinstance(x, (tuple, list)) else x for x in got]
            want = ref_split(s)
            if got != want:
                node = last_call_stmt(it.trace, 'lstrip') or (it.trace[-1] if it.trace else fn)
                ys = [st for st in it.trace if isinstance(st, ast.Expr) and isinstance(st.value, ast.Yield)]
                bad = (s, got, want, ys[-1] if ys else node)
                break
        if bad is None:
            ctx.ok(f'split: {family}: {len(samples)} requirement texts canonicalised as Cargo documents')
        else:
            s, got, want, node = bad
            ctx.violation(mod, 'split', node, f'split({s!r}) yields {got}; the Cargo reference ({family}) is {want}', node)
    ctx.floor('split requirement samples', n, 50)


class _SemModel:
    """World of one requirement token: specified count, component values, pre-release flag."""

    def __init__(self, tag: str, comps: T.Sequence[int], n: int, pre: bool, log: T.List[T.Any]):
        self.tag, self.comps, self.n, self.pre = tag, list(comps), n, pre
        v: T.List[T.Any] = list(comps) + ([-1, 'rc', 1] if pre else [0])
        self.obj = Obj('SemVer', (), {'_v': v, 'specified_count': n, 'has_prerelease': pre}, {'next_ver': self.next_ver}, strict=True)
        self.bumps: T.Dict[int, Obj] = {}
        self.log = log

    def next_ver(self, idx: T.Any) -> Obj:
        if not isinstance(idx, int) or isinstance(idx, bool):
            raise Undecided(f'cargo_parse: next_ver called with non-integer {idx!r}')
        if not 0 <= idx <= 2:
            # the real next_ver indexes a three-element list: outside 0..2 it raises / wraps around
            self.log.append(('next_ver-out-of-range', self.tag, idx))
        if idx not in self.bumps:
            self.bumps[idx] = Obj('SemVer', (), {'_v': ['bump', self.tag, idx], 'specified_count': 3, 'has_prerelease': False,
                                                  '%bound': ('bump', self.tag, idx)}, {}, strict=True)
        return self.bumps[idx]


def _ref_constraints(op: str, tag: str, comps: T.Sequence[int], n: int) -> T.List[T.Tuple[str, T.Any]]:
    """A.17: op -> constraints; ('v', tag) is the version itself, ('bump', tag, k) its k-th component bumped."""
    v = ('v', tag)
    if op == '<=':
        return [('lt', ('bump', tag, n - 1))]
    if op == '~':
        return [('ge', v), ('lt', ('bump', tag, 1 if n >= 2 else 0))]
    if op == '^':
        nz = [i for i in range(3) if comps[i] != 0]
        return [('ge', v), ('lt', ('bump', tag, nz[0] if nz else 0))]
    return [(OPNAME[op], v)]


def _cargo_worlds() -> T.Iterator[T.List[T.Tuple[str, T.Tuple[int, ...], int, bool]]]:
    """Requirement worlds: lists of (op, components, specified count, has pre-release)."""
    shapes: T.List[T.Tuple[T.Tuple[int, ...], int]] = []
    for n in (1, 2, 3):
        for bits in itertools.product((0, 1), repeat=n):
            comps = tuple((5 + i) * b for i, b in enumerate(bits)) + (0,) * (3 - n)
            shapes.append((comps, n))
    for op in OPS:
        for comps, n in shapes:
            for pre in (False, True):
                if pre and n < 3:
                    continue    # a pre-release requirement always names all three components
                yield [(op, comps, n, pre)]
    full = ((5, 6, 7), 3)
    for (o1, p1), (o2, p2) in itertools.product([('>=', False), ('>=', True), ('^', False), ('~', True)], [('<', False), ('<', True), ('!=', False), ('<=', False)]):
        yield [(o1, full[0], 3, p1), (o2, (5, 7, 0), 2 if not p2 else 3, p2)]
    yield [('>', (1, 0, 0), 1, False), ('<', (3, 0, 0), 1, False), ('!=', (2, 0, 0), 3, True)]


def r1_cargo_parse(ctx: RuleCtx) -> None:
    mod = ctx.repo.module(VERSION)
    fn = mod.func('cargo_parse')
    calls = [c for c in ast.walk(fn) if isinstance(c, ast.Call) and norm(c.func) == 'split']
    ctx.floor('cargo_parse iterates over split()', len(calls), 1)
    rows: T.Dict[str, int] = {}
    bad: T.Dict[str, T.Tuple[ast.AST, str]] = {}
    nworlds = 0
    for world in _cargo_worlds():
        nworlds += 1
        log: T.List[T.Any] = []
        toks = {f'V{i}': _SemModel(f'V{i}', comps, n, pre, log) for i, (op, comps, n, pre) in enumerate(world)}
        lhs_pre = {'flag': False}
        answers: T.Dict[int, bool] = {}
        seq: T.List[T.Tuple[str, T.Any]] = []

        def semver_ctor(text: T.Any) -> Obj:
            if text in toks:
                return toks[text].obj
            if text == 'LHS':
                return Obj('SemVer', (), {'_v': ['lhs'], 'specified_count': 3, 'has_prerelease': lhs_pre['flag'], '%bound': ('lhs',)}, {}, strict=True)
            raise Undecided(f'cargo_parse: SemVer() called with {text!r}')

        def bound_of(o: T.Any) -> T.Any:
            if isinstance(o, Obj) and o.cls == 'SemVer':
                if '%bound' in o.attrs:
                    return o.attrs['%bound']
                for t in toks.values():
                    if t.obj is o:
                        return ('v', t.tag)
            raise Undecided(f'cargo_parse: comparison operand {o!r} is not a SemVer')

        def mk_op(name: str) -> T.Callable[[T.Any, T.Any], bool]:
            def f(a: T.Any, b: T.Any) -> bool:
                seq.append((name, bound_of(a), bound_of(b)))     # type: ignore[arg-type]
                return answers.get(len(seq) - 1, True)
            f.__name__ = name
            return f
        env = {
            'split': lambda req: [(op, f'V{i}') for i, (op, _c, _n, _p) in enumerate(world)],
            'SemVer': ClassRef('SemVer', (), semver_ctor),
            'operator': Namespace('operator', **{k: mk_op(k) for k in ('lt', 'le', 'gt', 'ge', 'eq', 'ne')}),
        }
        it = Interp(env, name='cargo_parse')
        desc = ', '.join(f'{op}{".".join(str(c) for c in comps[:n])}{"-pre" if pre else ""}' for op, comps, n, pre in world)
        try:
            matcher = it.closure(fn)('REQ')
        except Raised as r:
            raise _undecided_on_raise(f'cargo_parse[{desc}]', r)
        if not callable(matcher):
            raise Undecided(f'cargo_parse[{desc}] returns {matcher!r}, not a matcher')
        parse_trace = list(it.trace)

        def run(pre: bool, ans: T.Dict[int, bool]) -> T.Tuple[T.Any, T.List[T.Tuple[str, T.Any]]]:
            lhs_pre['flag'] = pre
            answers.clear()
            answers.update(ans)
            seq.clear()
            try:
                res = matcher('LHS')
            except Raised as r:
                raise _undecided_on_raise(f'matcher of cargo_parse[{desc}]', r)
            return res, list(seq)

        want: T.List[T.Tuple[str, T.Any]] = []
        for i, (op, comps, n, pre) in enumerate(world):
            want.extend(_ref_constraints(op, f'V{i}', comps, n))
        accept = any(pre for _o, _c, _n, pre in world)
        key = ' '.join(op for op, _c, _n, _p in world)
        rows[key] = rows.get(key, 0) + 1

        def fail(node: T.Optional[ast.AST], msg: str) -> None:
            node = node or fn
            bad.setdefault(norm(node) + '|' + msg.split(':')[0], (node, f'requirement [{desc}]: {msg}'))

        res, got = run(False, {})
        for g in got:
            if g[1] != ('lhs',):
                fail(None, f'operands swapped: the matcher calls {g[0]}({g[1]}, {g[2]}); the candidate version must be the left operand')
        gotc = sorted((g[0], g[2]) for g in got)
        if log:
            fail(last_call_stmt(parse_trace, 'next_ver'), f'bump index out of range: {log}')
        if gotc != sorted(want):
            node = last_call_stmt(parse_trace, 'append')
            fail(node, f'constraints: the matcher tests {gotc}; the Cargo table requires {sorted(want)}')
            continue
        if res is not True:
            fail(None, f'all constraints hold but the matcher returns {res!r}')
        for i in range(len(got)):
            res_i, _ = run(False, {i: False})
            if res_i is not False:
                fail(None, f'conjunction: constraint {got[i][0]} {got[i][2]} fails but the matcher returns {res_i!r}')
        res_p, got_p = run(True, {})
        if accept:
            if res_p is not True or sorted((g[0], g[2]) for g in got_p) != sorted(want):
                fail(None, f'pre-release gate: a constraint names a pre-release, so a pre-release candidate must be compared normally; got {res_p!r} after {len(got_p)} comparisons')
        else:
            if res_p is not False:
                fail(None, f'pre-release gate: no constraint names a pre-release but a pre-release candidate is accepted ({res_p!r})')
    # empty requirement: always true
    for pre in (False, True):
        it = Interp({'split': lambda req: [], 'SemVer': ClassRef('SemVer', (), lambda t: Obj('SemVer', (), {'has_prerelease': pre}, {}, strict=True)),
                     'operator': Namespace('operator')}, name='cargo_parse')
        try:
            m = it.closure(fn)('')
            res = m('LHS') if callable(m) else m
        except Raised as r:
            raise _undecided_on_raise('cargo_parse[empty]', r)
        ctx.require(res is True, f'empty / * requirement accepts every version (pre-release candidate: {pre})', mod, 'cargo_parse', 'empty requirement',
                    f'an empty requirement returns {res!r} for a {"pre-release" if pre else "release"} candidate; Cargo: always true')
    for key, (node, msg) in bad.items():
        ctx.violation(mod, 'cargo_parse', node, msg, node)
    if not bad:
        for key, cnt in rows.items():
            ctx.ok(f'cargo_parse: requirement shape [{key}]: {cnt} worlds (specified components x zero pattern x pre-release) agree with the Cargo table, gate and conjunction')
    ctx.floor('cargo_parse worlds', nworlds, 150)


def r1_next_ver(ctx: RuleCtx) -> None:
    mod = ctx.repo.module(VERSION)
    fn = mod.func('SemVer.next_ver')
    init = mod.func('SemVer.__init__')
    vecs = [[5, 6, 7, 0], [5, 6, 7, -1, 'rc', 1], [0, 0, 0, 0], [0, 9, 0, -1, 'a']]
    for idx in (0, 1, 2):
        bad = None
        for vec in vecs:
            built: T.List[T.Any] = []

            def ctor(arg: T.Any = None) -> Obj:
                built.append(arg)
                return Obj('SemVer', (), {'%arg': arg})
            it = Interp({'SemVer': ClassRef('SemVer', (), ctor)}, name='SemVer.next_ver')
            me = Obj('SemVer', (), {'_v': list(vec), 'specified_count': 3}, strict=True)
            try:
                res = it.closure(fn)(me, idx)
            except Raised as r:
                raise _undecided_on_raise(f'next_ver({vec}, {idx})', r)
            want = vec[:idx] + [vec[idx] + 1] + [0] * (2 - idx)
            arg = res.attrs.get('%arg') if isinstance(res, Obj) else None
            if arg != want or me.attrs['_v'] != vec:
                bad = (vec, arg, want, me.attrs['_v'])
                break
            # the list constructor pads slot 3 with 0 (release) and counts three specified components
            it2 = Interp({'_SEMVER_TOK_RE': Obj('re.Pattern', (), {}, {}, strict=True)}, name='SemVer.__init__')
            me2 = Obj('SemVer', (), {})
            try:
                it2.closure(init)(me2, list(arg))
            except Raised as r:
                raise _undecided_on_raise(f'SemVer({arg})', r)
            v2 = me2.attrs.get('_v')
            ok = v2 == want + [0] and me2.attrs.get('specified_count') == 3
            if not ok:
                ctx.violation(mod, 'SemVer.__init__', last_call_stmt(it2.trace, 'append') or init,
                              f'SemVer({arg}) stores _v={v2}, specified_count={me2.attrs.get("specified_count")}; expected {want + [0]} (slot 3 = 0: release) and 3')
                return
        if bad is None:
            ctx.ok(f'next_ver({idx}): component {idx} + 1, lower components zeroed, pre-release dropped, receiver untouched ({len(vecs)} vectors); list constructor pads the release slot')
        else:
            vec, arg, want, after = bad
            node = [st for st in it.trace if isinstance(st, ast.Assign) and isinstance(st.targets[0], ast.Subscript)]
            ctx.violation(mod, 'SemVer.next_ver', node[-1] if node else fn,
                          f'next_ver({idx}) on {vec} builds SemVer({arg}) (receiver afterwards {after}); expected SemVer({want}) and an unchanged receiver')
    # has_prerelease reads slot 3
    hp = mod.func('SemVer.has_prerelease')
    for vec, want_b in (([1, 2, 3, 0], False), ([1, 2, 3, -1, 'a'], True), ([1, 0, -1, 0], False), ([0, 0, 0, -1, 0], True)):
        it = Interp({}, name='SemVer.has_prerelease')
        try:
            res = it.closure(hp)(Obj('SemVer', (), {'_v': vec}, strict=True))
        except Raised as r:
            raise _undecided_on_raise(f'has_prerelease({vec})', r)
        ctx.require(res is want_b, f'has_prerelease of {vec} is {want_b}', mod, 'SemVer.has_prerelease', hp,
                    f'has_prerelease of {vec} is {res!r}; slot 3 == -1 marks a pre-release, expected {want_b}')


# =====================================================================================================
# R2  SemVer ordering structure
# =====================================================================================================

def r2_core(ctx: RuleCtx) -> None:
    mod = ctx.repo.module(VERSION)
    core = cmpcore.one_core(ctx, mod, 'SemVer')
    if core is None:
        return
    keys = cmpcore.ranking_keys(ctx, mod, 'SemVer', core)
    want = [('isinstance(@, int)', 'desc'), ('@', 'asc'), ('len(@)', 'asc')]
    ctx.require(keys == want, f'SemVer ranking keys {keys}', mod, f'SemVer.{core}', 'ranking keys',
                f'ranking keys are {keys}; SemVer section 11 (numeric below alphanumeric, value ascending, more fields is greater) is {want}')
    # the dunders hand the core the same field of `other` that the core pairs with its own
    meths = mod.methods('SemVer')
    name = core if core in meths else f'_SemVer{core}'
    fn = meths[name]
    other = fn.args.args[1].arg
    loop = [s for s in fn.body if isinstance(s, ast.For)][0]
    own = [attr_chain(a) for a in loop.iter.args if 'self' in {n.id for n in ast.walk(a) if isinstance(n, ast.Name)}]   # type: ignore[attr-defined]
    theirs = [norm(a) for a in loop.iter.args if other in {n.id for n in ast.walk(a) if isinstance(n, ast.Name)}]       # type: ignore[attr-defined]
    if len(own) != 1 or own[0] is None or not own[0].startswith('self.') or len(theirs) != 1:
        raise Undecided(f'SemVer.{name}: cannot attribute the zip operands')
    field = own[0][len('self.'):]
    suffix = theirs[0][len(other):]     # '' when the parameter already is the field value, '._v' when it is the object
    for d in cmpcore.DUNDER_OP:
        dfn = meths[d]
        oparam = dfn.args.args[1].arg
        cs = [c for c in ast.walk(dfn) if isinstance(c, ast.Call) and isinstance(c.func, ast.Attribute) and c.func.attr in (core, name)]
        for c in cs:
            passed = [norm(a) for a in c.args if not (attr_chain(a) or '').startswith('operator.')]
            wanted = f'{oparam}.{field}' if suffix == '' else oparam
            ctx.require(passed == [wanted], f'SemVer.{d} hands {wanted} to the core (paired with self.{field})', mod, f'SemVer.{d}', c,
                        f'{d} passes {passed} to the core, which pairs its argument with self.{field}; expected {wanted}')


def split_alternatives(pattern: str) -> T.List[str]:
    """Top-level alternatives of a regex, as pattern texts."""
    out, cur, depth, i, in_cls = [], '', 0, 0, False
    while i < len(pattern):
        ch = pattern[i]
        if ch == '\\' and i + 1 < len(pattern):
            cur += pattern[i:i + 2]
            i += 2
            continue
        if in_cls:
            if ch == ']':
                in_cls = False
        elif ch == '[':
            in_cls = True
            if pattern[i + 1:i + 2] == '^':
                cur += ch
                i += 1
                ch = pattern[i]
            if pattern[i + 1:i + 2] == ']':
                cur += ch
                i += 1
                ch = pattern[i]
        elif ch == '(':
            depth += 1
        elif ch == ')':
            depth -= 1
        elif ch == '|' and depth == 0:
            out.append(cur)
            cur = ''
            i += 1
            continue
        cur += ch
        i += 1
    out.append(cur)
    return out


def _tok_language(ctx: RuleCtx, mod: Module) -> T.Dict[str, T.Any]:
    """Regex-language facts of the tokenizer: which alternative feeds which group, witness tokens."""
    r = fold_expr(ctx.repo, mod, mod.assign_value('_SEMVER_TOK_RE'))
    if not isinstance(r, Regex) or r.flags:
        raise Undecided(f'_SEMVER_TOK_RE does not fold to a flag-less regex: {r!r}')
    alts = split_alternatives(r.pattern)
    if len(alts) != len(rx.branch_alternatives(r.pattern)) or len(alts) != 3:
        raise Undecided(f'_SEMVER_TOK_RE: expected three top-level alternatives (digits | identifier | build), got {alts}')
    import re as _re
    for i, a in enumerate(alts):
        try:
            c = _re.compile(a)
        except _re.error as e:
            raise Undecided(f'_SEMVER_TOK_RE alternative {a!r}: {e}')
        if c.groups != 1 or not (a.startswith('(') and a.endswith(')')):
            raise Undecided(f'_SEMVER_TOK_RE alternative {a!r} is not one capturing group')
    digits, ident, build = alts
    facts: T.Dict[str, T.Any] = {'pattern': r.pattern, 'alts': alts}
    ANY = r'[\s\S]*'
    # group 1: only digits, never empty
    w = rx.intersects(digits, ANY + r'[^0-9]' + ANY)
    ctx.require(w is None and not rx.full_matches(digits, '') and rx.full_matches(digits, '10'), 'digit branch: language is [0-9]+', mod, '<module>', '_SEMVER_TOK_RE digit branch',
                f'the first alternative {digits!r} also matches {w!r}: int(group(1)) is not total / the branch is not the numeric-identifier branch')
    # group 2 disjoint from group 1 (dispatch on m.group(n) truthiness is then order-independent)
    w = rx.intersects(digits, ident)
    ctx.require(w is None, 'digit and identifier branches are disjoint', mod, '<module>', '_SEMVER_TOK_RE branches', f'{w!r} is matched by both the digit and the identifier alternative')
    # group 3 starts with + and swallows the rest
    w = rx.intersects(build, r'[^+]' + ANY)
    w2 = rx.intersects(build, r'\+[0-9A-Za-z.-]+')
    ctx.require(w is None and w2 is not None and not rx.full_matches(build, ''), 'build branch: + followed by the rest of the text', mod, '<module>', '_SEMVER_TOK_RE build branch',
                f'the third alternative {build!r} matches {w!r} / does not cover "+meta.1"')
    # neither the digit nor the identifier branch may run into build metadata or across a dot
    for ch in '+.':
        ctx.require(not rx.matches_char(digits, ch) and not rx.matches_char(ident, ch), f'digit/identifier tokens cannot contain {ch!r}', mod, '<module>',
                    f'_SEMVER_TOK_RE token containing {ch}', f'a digit or identifier token can contain {ch!r}: identifiers / build metadata are no longer separated')
    # witnesses for the transition table
    facts['plain'] = rx.intersects(ident, r'[A-Za-z][0-9A-Za-z-]*')          # identifier inside the pre-release section
    facts['dash_alpha'] = rx.intersects(ident, r'-[A-Za-z][0-9A-Za-z]*')     # '-rc': section marker + identifier
    facts['dash_digits'] = rx.intersects(ident, r'-[0-9]+')                   # '-2': section marker + numeric identifier
    facts['dash_digits2'] = rx.intersects(ident, r'-[0-9][0-9]+')
    facts['dash_mixed'] = rx.intersects(ident, r'-[0-9]+[A-Za-z][0-9A-Za-z]*')  # '-0a': alphanumeric identifier starting with a digit
    facts['dash'] = rx.intersects(ident, r'-')
    facts['digits_in_ident'] = rx.intersects(ident, r'[0-9]+')
    ctx.note(f'tokenizer language: alternatives {alts}; witnesses ' + ', '.join(f'{k}={facts[k]!r}' for k in ('plain', 'dash_alpha', 'dash_digits', 'dash_mixed', 'dash', 'digits_in_ident')))
    return facts


def _ref_tokens(tokens: T.List[T.Tuple[int, str]]) -> T.Optional[T.Tuple[T.List[T.Any], int]]:
    """Reference SemVer reading of a token sequence (group number, text); None = outside the grammar (don't care)."""
    vec: T.List[T.Any] = []
    count = 0
    pre = False

    def ident(text: str) -> T.Any:
        return int(text) if text.isdigit() else text
    for g, text in tokens:
        if g == 3:
            break
        if g == 1:
            if pre:
                vec.append(int(text))
            elif count < 3:
                vec.append(int(text))
                count += 1
            else:
                return None
        else:
            if not pre:
                if not text.startswith('-') or text == '-':
                    return None
                while len(vec) < 3:
                    vec.append(0)
                vec.append(-1)
                pre = True
                vec.append(ident(text[1:]))
            else:
                vec.append(ident(text))
    if count == 0:
        return None
    while len(vec) < 3:
        vec.append(0)
    if not pre:
        vec.append(0)
    return vec, count


def r2_tokens(ctx: RuleCtx) -> None:
    mod = ctx.repo.module(VERSION)
    init = mod.func('SemVer.__init__')
    facts = _tok_language(ctx, mod)
    if facts['dash_alpha'] is None or facts['plain'] is None:
        raise Undecided('the identifier alternative no longer admits "-rc" / "rc": the section-marker idiom of SemVer.__init__ is not the one this rule understands')
    D = [(1, '1'), (1, '2'), (1, '3')]
    H = (2, facts['dash_alpha'])
    P = (2, facts['plain'])
    B = (3, '+b.7')
    seqs: T.Dict[str, T.List[T.List[T.Tuple[int, str]]]] = {
        'release (missing components are 0, slot 3 = 0)': [D[:1], D[:2], D[:3], [(1, '0'), (1, '0'), (1, '10')]],
        'build metadata stops tokenisation': [D + [B], D + [B, (1, '9')], D[:2] + [B, H], D + [H, B, (1, '9'), P]],
        'pre-release (slot 3 = -1, identifiers follow)': [D + [H], D + [H, (1, '4')], D + [H, P, (1, '11')], D[:1] + [H], D[:2] + [H, (1, '0')], D + [H, (2, facts['dash_alpha'])]],
    }
    numeric = [w for w in (facts['dash_digits'], facts['dash_digits2']) if w]
    if numeric:
        seqs['numeric identifier right after the section marker is an int'] = [D + [(2, w)] for w in numeric] + [D + [(2, numeric[0]), (1, '5')]]
    if facts['dash_mixed']:
        seqs['alphanumeric identifier starting with a digit stays a str'] = [D + [(2, facts['dash_mixed'])]]
    if facts['digits_in_ident']:
        seqs['all-digit identifier inside the pre-release section is an int'] = [D + [H, (2, facts['digits_in_ident'])]]
    n = sum(1 for lst in seqs.values() for toks in lst if _ref_tokens(toks) is not None)
    for family, lst in seqs.items():
        bad = None
        for toks in lst:
            want = _ref_tokens(toks)
            if want is None:
                continue

            def mk(g: int, text: str) -> Obj:
                def group(i: T.Any = 0) -> T.Any:
                    if i == 0:
                        return text
                    if i in (1, 2, 3):
                        return text if i == g else None
                    raise Undecided(f'SemVer.__init__: m.group({i!r})')
                return Obj('re.Match', (), {}, {'group': group}, strict=True)
            pat = Obj('re.Pattern', (), {}, {'finditer': lambda s, toks=toks: [mk(g, t) for g, t in toks]}, strict=True)   # type: ignore[misc]
            it = Interp({'_SEMVER_TOK_RE': pat}, name='SemVer.__init__')
            me = Obj('SemVer', (), {})
            try:
                it.closure(init)(me, 'TEXT')
            except Raised as r:
                raise _undecided_on_raise(f'SemVer.__init__ on tokens {toks}', r)
            got = (me.attrs.get('_v'), me.attrs.get('specified_count'))
            if got[0] != want[0] or [type(x) for x in got[0]] != [type(x) for x in want[0]] or got[1] != want[1]:
                bad = (toks, got, want, last_call_stmt(it.trace, 'append') or init)
                break
        if bad is None:
            ctx.ok(f'SemVer tokenizer: {family}: {len(lst)} token sequences read as SemVer 2.0.0 prescribes')
        else:
            toks, got, want, node = bad
            text = ''.join(('.' if (i and g == 1) or (i and g == 2 and not t.startswith('-')) else '') + t for i, (g, t) in enumerate(toks))
            ctx.violation(mod, 'SemVer.__init__', f'{family} :: {norm(node)}',
                          f'{family}: the token sequence {[t for _g, t in toks]} (e.g. version text {text!r}) is stored as _v={got[0]!r}, specified_count={got[1]}; '
                          f'SemVer 2.0.0 reading is {want[0]!r}, {want[1]} (the identifier alternative of the tokenizer matches {toks[-1][1]!r} as one token)', node)
    ctx.floor('tokenizer worlds', n, 14)


# =====================================================================================================
# R3  cfg evaluation
# =====================================================================================================

def _cfg_models(ctx: RuleCtx, mod: Module) -> T.Dict[str, T.Any]:
    classes: T.Dict[str, ClassRef] = {}
    for name, c in mod.classes().items():
        bases = [attr_chain(b) or '' for b in c.bases]
        if any(d in ('dataclasses.dataclass', 'dataclass') for d in [attr_chain(x.func if isinstance(x, ast.Call) else x) for x in c.decorator_list]):
            allb: T.List[str] = []
            todo = list(bases)
            while todo:
                b = todo.pop()
                if b in allb:
                    continue
                allb.append(b)
                if mod.has_cls(b):
                    todo.extend(attr_chain(x) or '' for x in mod.cls(b).bases)
            classes[name] = dataclass_model(c, allb)
    tt = mod.cls('TokenType')
    members = Folder(ctx.repo, mod)._enum_members(mod, tt)
    token = Namespace('TokenType', **{k: EnumVal('TokenType', k) for k in members})
    env: T.Dict[str, T.Any] = dict(classes)
    env['TokenType'] = token
    env['MesonException'] = ExcClass('MesonException', ('Exception',))
    env['MesonBugException'] = ExcClass('MesonBugException', ('MesonException', 'Exception'))
    return {'classes': classes, 'token': token, 'env': env}


def _built_classes(mod: Module, fn: ast.FunctionDef, classes: T.Dict[str, ClassRef]) -> T.Set[str]:
    """IR classes that `fn` can return (constructor calls reaching a return, through local aliases)."""
    defs: T.Dict[str, T.List[ast.AST]] = {}
    for n in walk_no_nested(fn):
        if isinstance(n, ast.Assign) and len(n.targets) == 1 and isinstance(n.targets[0], ast.Name):
            defs.setdefault(n.targets[0].id, []).append(n.value)
        elif isinstance(n, ast.AnnAssign) and isinstance(n.target, ast.Name) and n.value is not None:
            defs.setdefault(n.target.id, []).append(n.value)
    out: T.Set[str] = set()

    def cls_of(e: ast.AST, depth: int = 0) -> None:
        if depth > 6:
            raise Undecided(f'{fn.name}: alias chain too deep')
        if isinstance(e, ast.IfExp):
            cls_of(e.body, depth + 1)
            cls_of(e.orelse, depth + 1)
        elif isinstance(e, ast.Name):
            if e.id in classes:
                out.add(e.id)
            elif e.id in defs:
                for v in defs[e.id]:
                    val(v, depth + 1) if not _is_classy(v) else cls_of(v, depth + 1)
            else:
                raise Undecided(f'{fn.name}: cannot resolve {e.id} to an IR class')
        else:
            raise Undecided(f'{fn.name}: cannot resolve {short(e)} to an IR class')

    def _is_classy(v: ast.AST) -> bool:
        return isinstance(v, (ast.IfExp, ast.Name)) and all(isinstance(x, (ast.Name, ast.IfExp, ast.Compare, ast.Attribute, ast.expr_context, ast.cmpop)) for x in ast.walk(v))

    def val(e: ast.AST, depth: int = 0) -> None:
        """e is a returned *value*: a constructor call, a recursive call, or a local holding one."""
        if isinstance(e, ast.Call):
            if isinstance(e.func, ast.Name) and e.func.id == fn.name:
                return
            cls_of(e.func, depth + 1)
        elif isinstance(e, ast.Name) and e.id in defs:
            for v in defs[e.id]:
                val(v, depth + 1)
        else:
            raise Undecided(f'{fn.name}: returned value {short(e)} is not a constructor call')
    rets = [n for n in walk_no_nested(fn) if isinstance(n, ast.Return) and n.value is not None]
    for r in rets:
        val(r.value)
    return out


REF_DENOTATION = {  # IR class -> meaning (Rust reference: conditional compilation)
    'Identifier': 'name is set', 'Equal': 'name is set to exactly that value', 'Not': 'negation', 'Any': 'disjunction (false when empty)',
    'All': 'conjunction (true when empty)'}


def r3_eval(ctx: RuleCtx) -> None:
    mod = ctx.repo.module(CFGPY)
    m = _cfg_models(ctx, mod)
    classes: T.Dict[str, ClassRef] = m['classes']
    parse_fn = mod.func('_parse')
    ev_fn = mod.func('_eval_cfg')
    built = _built_classes(mod, parse_fn, classes)
    ctx.floor('IR classes built by _parse', len(built), 5)
    unknown = built - set(REF_DENOTATION)
    if unknown:
        raise Undecided(f'_parse builds IR classes without a reference denotation: {sorted(unknown)}')

    def run(ir: Obj, cfgs: T.Dict[str, str], oracle: T.Dict[int, bool]) -> T.Any:
        it = Interp(dict(m['env']), name='_eval_cfg')
        real = it.closure(ev_fn)

        def dispatch(node: T.Any, c: T.Any) -> T.Any:
            if isinstance(node, Obj) and node.cls == '%child':
                if c is not cfgs:
                    raise Undecided('_eval_cfg: a child is evaluated against a different configuration')
                return oracle[node.attrs['n']]
            return real(node, c)
        it.globals.set('_eval_cfg', dispatch)
        try:
            return real(ir, cfgs), it
        except Raised as r:
            return r, it

    def child(i: int) -> Obj:
        return Obj('%child', ('IR',), {'n': i}, strict=True)
    C = classes
    worlds: T.Dict[str, T.List[T.Tuple[str, Obj, T.Dict[str, str], T.Dict[int, bool], bool]]] = {k: [] for k in REF_DENOTATION}
    cfg_grid = [{}, {'a': ''}, {'a': 'x'}, {'a': 'y'}, {'b': 'x'}, {'a': 'x', 'b': 'y'}, {'x': 'a'}]
    for cfgs in cfg_grid:
        worlds['Identifier'].append((f'a in {cfgs}', C['Identifier']('a'), cfgs, {}, 'a' in cfgs))
        for v in ('x', ''):
            worlds['Equal'].append((f'a = "{v}" in {cfgs}', C['Equal'](C['Identifier']('a'), C['String'](v)), cfgs, {}, cfgs.get('a') == v))
    for b in (True, False):
        worlds['Not'].append((f'not({b})', C['Not'](child(0)), {'a': 'x'}, {0: b}, not b))
    for k in range(4):
        for bits in itertools.product((True, False), repeat=k):
            oracle = dict(enumerate(bits))
            kids = [child(i) for i in range(k)]
            worlds['Any'].append((f'any{bits}', C['Any'](kids), {'a': 'x'}, oracle, any(bits)))
            worlds['All'].append((f'all{bits}', C['All'](list(kids)), {'a': 'x'}, oracle, all(bits)))
    for cname in sorted(built):
        bad = None
        for desc, ir, cfgs, oracle, want in worlds[cname]:
            got, it = run(ir, cfgs, oracle)
            if isinstance(got, Raised) or got is not want:
                rets = [st for st in it.trace if isinstance(st, (ast.Return, ast.Raise))]
                bad = (desc, got.exc if isinstance(got, Raised) else got, want, rets[-1] if rets else ev_fn)
                break
        if bad is None:
            ctx.ok(f'_eval_cfg: arm for {cname} denotes "{REF_DENOTATION[cname]}" on {len(worlds[cname])} worlds')
        else:
            desc, got, want, node = bad
            ctx.violation(mod, '_eval_cfg', node, f'{cname} must denote "{REF_DENOTATION[cname]}": for {desc} the arm gives {got!r}, expected {want!r}', node)


KEYWORDS = {'all': 'ALL', 'any': 'ANY', 'not': 'NOT'}
DELIMS = {'(': 'LPAREN', ')': 'RPAREN', ',': 'COMMA', '=': 'EQUAL'}
TOKEN_CLASS = {'ALL': 'All', 'ANY': 'Any', 'NOT': 'Not', 'IDENTIFIER': 'Identifier'}


def r3_maps(ctx: RuleCtx) -> None:
    mod = ctx.repo.module(CFGPY)
    m = _cfg_models(ctx, mod)
    lex = mod.func('lexer')
    tok = m['token']._attrs

    def run_lexer(text: str) -> T.List[T.Tuple[str, T.Any]]:
        it = Interp(dict(m['env']), name='lexer', max_steps=60000)
        try:
            out = it.closure(lex)(text)
        except Raised as r:
            raise _undecided_on_raise(f'lexer({text!r})', r)
        res = []
        for t in out:
            if not (isinstance(t, tuple) and len(t) == 2 and isinstance(t[0], EnumVal)):
                raise Undecided(f'lexer yields {t!r}')
            res.append((t[0].name, t[1]))
        return res
    # keyword -> token, before every delimiter; other words -> IDENTIFIER carrying the text
    for word in list(KEYWORDS) + ['unix', 'allx', 'nota', 'target_os']:
        want_t = (KEYWORDS[word], None) if word in KEYWORDS else ('IDENTIFIER', word)
        bad = None
        for d, dt in list(DELIMS.items()) + [(' ', None), ('\t', None)]:
            got = run_lexer(word + d + 'z')
            want = [want_t] + ([(dt, None)] if dt else []) + [('IDENTIFIER', 'z')]
            if got != want:
                bad = (word + d + 'z', got, want)
                break
        ctx.require(bad is None, f'lexer: word {word!r} -> {want_t[0]} before each of ( ) , = and white space', mod, 'lexer', f'lexer word {word}',
                    f'lexer({bad[0]!r}) yields {bad[1]}; expected {bad[2]}' if bad else '')
    # strings: the text between the quotes, also when empty; identifiers are never empty
    for text, want in (('a = "x"', [('IDENTIFIER', 'a'), ('EQUAL', None), ('STRING', 'x')]), ('a=""', [('IDENTIFIER', 'a'), ('EQUAL', None), ('STRING', '')]),
                       ('all(a, b)', [('ALL', None), ('LPAREN', None), ('IDENTIFIER', 'a'), ('COMMA', None), ('IDENTIFIER', 'b'), ('RPAREN', None)]),
                       ('not(a = "all")', [('NOT', None), ('LPAREN', None), ('IDENTIFIER', 'a'), ('EQUAL', None), ('STRING', 'all'), ('RPAREN', None)]),
                       ('  ( ,', [('LPAREN', None), ('COMMA', None)])):
        got = run_lexer(text)
        ctx.require(got == want, f'lexer({text!r}) -> {[t for t, _ in want]}', mod, 'lexer', f'lexer text {text}', f'lexer({text!r}) yields {got}; expected {want}')
    # a string literal runs to the closing quote: delimiters inside it are text (cargo-platform's tokenizer; no escapes)
    bad_s = None
    for body in ('x y', 'a,b', '(x)', 'k=v', ' ', 'all', 'sse4.1'):
        text = f'a = "{body}"'
        got = run_lexer(text)
        want = [('IDENTIFIER', 'a'), ('EQUAL', None), ('STRING', body)]
        if got != want and bad_s is None:
            bad_s = (text, got, want)
    ctx.require(bad_s is None, 'lexer: white space and ( ) , = inside a string literal are part of the STRING token', mod, 'lexer', 'lexer: delimiter inside a string literal',
                f'lexer({bad_s[0]!r}) yields {bad_s[1]}; expected {bad_s[2]} (the text between the quotes is one STRING token)' if bad_s else '', lex)
    # token -> IR class (one level: nested expressions are an oracle non-terminal)
    parse_fn = mod.func('_parse')
    for tname, cname in TOKEN_CLASS.items():
        if tname == 'IDENTIFIER':
            stream = [(tok['IDENTIFIER'], 'a')]
        elif tname == 'NOT':
            stream = [(tok['NOT'], None), (tok['LPAREN'], None), ('<expr>', 0), (tok['RPAREN'], None)]
        else:
            stream = [(tok[tname], None), (tok['LPAREN'], None), ('<expr>', 0), (tok['COMMA'], None), ('<expr>', 1), (tok['RPAREN'], None)]
        res, st, it = _run_parse(m, parse_fn, stream)
        ok = isinstance(res, Obj) and res.cls == cname and st.exhausted()
        ctx.require(ok, f'_parse: token {tname} builds {cname}', mod, '_parse', f'token {tname}',
                    f'a {tname} expression is parsed to {res!r}; the keyword/token/IR maps require {cname}', _last_ret(it, parse_fn))


def _last_ret(it: Interp, fn: ast.AST) -> ast.AST:
    rets = [st for st in it.trace if isinstance(st, (ast.Return, ast.Raise))]
    return rets[-1] if rets else fn


def _lookahead(items: T.List[T.Any]) -> Stream:
    return Stream([(x, items[i + 1] if i + 1 < len(items) else None) for i, x in enumerate(items)])


def _run_parse(m: T.Dict[str, T.Any], parse_fn: ast.FunctionDef, stream: T.List[T.Any]) -> T.Tuple[T.Any, Stream, Interp]:
    """Evaluate _parse on a shape-level stream; ('<expr>', n) is a nested expression handled by an oracle."""
    it = Interp(dict(m['env']), name='_parse')
    real = it.closure(parse_fn)
    st = _lookahead(stream)

    def dispatch(s: T.Any) -> T.Any:
        if s is not st:
            raise Undecided('_parse recurses on a different stream')
        if st.pos < len(st.items) and isinstance(st.items[st.pos][0], tuple) and st.items[st.pos][0][0] == '<expr>':
            (_, n), _nx = next(st)
            return Obj('%child', ('IR',), {'n': n}, strict=True)
        return real(s)
    it.globals.set('_parse', dispatch)
    try:
        return dispatch(st), st, it
    except Raised as r:
        return r, st, it


# =====================================================================================================
# R4  malformed input is rejected, not mis-evaluated
# =====================================================================================================

class _Reject(Exception):
    def __init__(self, why: str, pos: int):
        self.why, self.pos = why, pos


def _ref_parse_shape(toks: T.List[T.Any]) -> T.Tuple[str, T.Any, int, T.Dict[int, str]]:
    """Reference cfg grammar over token kinds: `all(` / `any(` take a possibly empty comma separated list, `not(` exactly
    one predicate, a predicate is `name` or `name = "string"`.  A trailing comma is *malformed* here: Cargo and rustc accept
    `all(a,)`, but the project pins it as invalid in its own tests (unittests/cargotests.py, test_parse_invalid), and the
    property statement follows the pinned tests.  '<expr>' = an already parsed nested expression.
    Returns ('ok', shape, consumed, labels) or ('reject', why, pos, labels); labels name the grammar element each token matched."""
    labels: T.Dict[int, str] = {}

    def kind(i: int) -> T.Any:
        return toks[i] if i < len(toks) else None

    def expr(i: int) -> T.Tuple[T.Any, int]:
        k = kind(i)
        if k == '<expr>':
            labels[i] = 'nested expression'
            n = sum(1 for x in toks[:i] if x == '<expr>')
            return ('child', n), i + 1
        if k == 'IDENTIFIER':
            labels[i] = 'identifier'
            if kind(i + 1) == 'EQUAL':
                labels[i + 1] = 'equal sign'
                if kind(i + 2) == 'STRING':
                    labels[i + 2] = 'string value'
                    return ('Equal',), i + 3
                raise _Reject('string expected', i + 2)
            return ('Identifier',), i + 1
        if k in ('ALL', 'ANY'):
            labels[i] = 'all/any keyword'
            if kind(i + 1) != 'LPAREN':
                raise _Reject('( expected', i + 1)
            labels[i + 1] = 'opening parenthesis of a list'
            j = i + 2
            args: T.List[T.Any] = []
            if kind(j) == 'RPAREN':
                labels[j] = 'closing parenthesis of an empty list'
                return (TOKEN_CLASS[k], ()), j + 1
            while True:
                a, j = expr(j)
                args.append(a)
                if kind(j) == 'RPAREN':
                    labels[j] = 'closing parenthesis of a list'
                    return (TOKEN_CLASS[k], tuple(args)), j + 1
                if kind(j) != 'COMMA':
                    raise _Reject(') or , expected', j)
                labels[j] = 'comma'
                j += 1
        if k == 'NOT':
            labels[i] = 'not keyword'
            if kind(i + 1) != 'LPAREN':
                raise _Reject('( expected', i + 1)
            labels[i + 1] = 'opening parenthesis of not'
            a, j = expr(i + 2)
            if kind(j) != 'RPAREN':
                raise _Reject(') expected', j)
            labels[j] = 'closing parenthesis of not'
            return ('Not', a), j + 1
        raise _Reject('expression expected', i)
    try:
        shape, used = expr(0)
    except _Reject as r:
        return ('reject', r.why, r.pos, labels)
    return ('ok', shape, used, labels)


def _shape_of(res: T.Any) -> T.Any:
    if not isinstance(res, Obj):
        return ('?', repr(res))
    vals = list(res.attrs.values())
    if res.cls == '%child':
        return ('child', res.attrs['n'])
    if res.cls in ('Any', 'All') and len(vals) == 1 and isinstance(vals[0], list):
        return (res.cls, tuple(_shape_of(a) for a in vals[0]))
    if res.cls == 'Not' and len(vals) == 1:
        return ('Not', _shape_of(vals[0]))
    if res.cls == 'Equal' and len(vals) == 2:
        l, r = vals
        ok = isinstance(l, Obj) and l.cls == 'Identifier' and list(l.attrs.values()) == ['a'] and isinstance(r, Obj) and r.cls == 'String' and list(r.attrs.values()) == ['s']
        return ('Equal',) if ok else ('?', repr(res))
    if res.cls == 'Identifier':
        return ('Identifier',) if vals == ['a'] else ('?', repr(res))
    return ('?', repr(res))


def r4_parse_table(ctx: RuleCtx) -> None:
    mod = ctx.repo.module(CFGPY)
    m = _cfg_models(ctx, mod)
    tok = m['token']._attrs
    parse_fn = mod.func('_parse')
    kinds = ['IDENTIFIER', 'STRING', 'ALL', 'ANY', 'NOT', 'LPAREN', 'RPAREN', 'COMMA', 'EQUAL', '<expr>']
    valid = [['IDENTIFIER'], ['IDENTIFIER', 'EQUAL', 'STRING'], ['NOT', 'LPAREN', '<expr>', 'RPAREN'],
             ['ALL', 'LPAREN', 'RPAREN'], ['ANY', 'LPAREN', 'RPAREN'], ['ALL', 'LPAREN', '<expr>', 'RPAREN'], ['ANY', 'LPAREN', '<expr>', 'RPAREN'],
             ['ALL', 'LPAREN', '<expr>', 'COMMA', '<expr>', 'RPAREN'], ['ANY', 'LPAREN', '<expr>', 'COMMA', '<expr>', 'COMMA', '<expr>', 'RPAREN'],
             ['NOT', 'LPAREN', 'IDENTIFIER', 'RPAREN'], ['ANY', 'LPAREN', 'IDENTIFIER', 'EQUAL', 'STRING', 'COMMA', 'NOT', 'LPAREN', '<expr>', 'RPAREN', 'RPAREN']]
    total = 0
    bad: T.Dict[str, T.Tuple[ast.AST, str]] = {}
    for v in valid:
        before = len(bad)
        streams: T.Dict[T.Tuple[str, ...], None] = {tuple(v): None}
        for i in range(len(v) + 1):
            streams.setdefault(tuple(v[:i]))                       # truncation
            for k in kinds:
                streams.setdefault(tuple(v[:i] + [k] + v[i:]))     # insertion
                if i < len(v):
                    streams.setdefault(tuple(v[:i] + [k] + v[i + 1:]))   # replacement
            if i < len(v):
                streams.setdefault(tuple(v[:i] + v[i + 1:]))       # deletion
        n_ok = n_rej = 0
        for s in streams:
            if not s or s[0] == '<expr>':
                continue    # a leading nested expression would be consumed by the oracle, not by _parse
            nexpr = 0
            items: T.List[T.Any] = []
            for k in s:
                if k == '<expr>':
                    items.append(('<expr>', nexpr))
                    nexpr += 1
                else:
                    items.append((tok[k], {'IDENTIFIER': 'a', 'STRING': 's'}.get(k)))
            want = _ref_parse_shape(list(s))
            res, st, it = _run_parse(m, parse_fn, items)
            node = _last_ret(it, parse_fn)
            text = ' '.join(s)
            # findings are keyed by the grammar element concerned (one finding per defect, not per token sequence)
            if want[0] == 'ok':
                n_ok += 1
                if isinstance(res, Raised):
                    elem = want[3].get(st.pos - 1, 'end of the expression') if res.exc.cls != 'StopIteration' else 'end of the token stream'
                    bad.setdefault(f'well-formed input rejected at: {elem} :: {norm(node)}',
                                   (node, f'the well-formed token sequence `{text}` is rejected with {res.exc!r} at token {st.pos - 1} ({elem})'))
                elif _shape_of(res) != want[1] or st.pos != want[2]:
                    bad.setdefault(f'wrong IR for {want[1][0]} :: {norm(node)}',
                                   (node, f'`{text}` is parsed to {res!r} consuming {st.pos} tokens; the grammar gives {want[1]} consuming {want[2]}'))
            else:
                n_rej += 1
                if isinstance(res, Raised):
                    # StopIteration is converted by parse (checked by R4a); anything but these two is an escape
                    if res.exc.cls not in ('MesonException', 'StopIteration') and 'MesonException' not in res.exc.bases:
                        bad.setdefault(f'{res.exc.cls} escapes where: {want[1]} :: {norm(node)}',
                                       (node, f'the malformed token sequence `{text}` ({want[1]} at token {want[2]}) escapes as {res.exc!r}'))
                    elif res.exc.cls == 'StopIteration' and want[2] < len(s):
                        bad.setdefault(f'reads past: {want[1]} :: {norm(node)}',
                                       (node, f'`{text}` is malformed at token {want[2]} ({want[1]}) but _parse reads on to the end of the stream'))
                else:
                    bad.setdefault(f'malformed input accepted where: {want[1]} :: {norm(node)}',
                                   (node, f'the malformed token sequence `{text}` ({want[1]} at token {want[2]}) is accepted as {res!r} after {st.pos} tokens'))
        total += n_ok + n_rej
        for key, (node, msg) in list(bad.items())[before:]:
            ctx.violation(mod, '_parse', key, msg, node)
        if len(bad) == before:
            ctx.ok(f'_parse: `{" ".join(v)}` and its single-edit neighbours: {n_ok} well-formed sequences build the grammar\'s IR, {n_rej} malformed ones are rejected at the offending token')
    ctx.floor('_parse shape worlds', total, 300)


def _exc_names(h: ast.ExceptHandler) -> T.List[str]:
    if h.type is None:
        return ['BaseException']
    ts = h.type.elts if isinstance(h.type, ast.Tuple) else [h.type]
    return [(attr_chain(t) or '?').split('.')[-1] for t in ts]


def r4_escape(ctx: RuleCtx) -> None:
    mod = ctx.repo.module(CFGPY)
    m = _cfg_models(ctx, mod)
    # (1) every raise in the module raises a MesonException (sub)class
    ok_classes = {'MesonException', 'MesonBugException'}
    imps = mod.imports()
    for n in ok_classes:
        if n in imps and not imps[n].startswith('mesonbuild.'):
            raise Undecided(f'{n} is imported from {imps[n]}')
    nraise = 0
    for q, fn in mod.funcs().items():
        for n in walk_no_nested(fn):
            if isinstance(n, ast.Raise):
                nraise += 1
                e = n.exc.func if isinstance(n.exc, ast.Call) else n.exc
                name = attr_chain(e) if e is not None else None
                ctx.require(name in ok_classes, f'{q}: raises {name}', mod, q, n, f'{q} raises {name or "<re-raise>"}; only MesonException may leave cfg parsing/evaluation')
    ctx.floor('raise statements in cfg.py', nraise, 5)
    # (2) _parse is entered only from parse (under the StopIteration handler) and from itself
    parse = mod.func('parse')
    inner = mod.func('_parse')
    callers: T.Dict[str, T.List[ast.Call]] = {}
    for q, fn in mod.funcs().items():
        if q.startswith('_parse.'):
            continue
        for c in ast.walk(fn):
            if isinstance(c, ast.Call) and isinstance(c.func, ast.Name) and c.func.id == '_parse':
                callers.setdefault(q.split('.')[0], []).append(c)
    extra = sorted(set(callers) - {'parse', '_parse'})
    ctx.require(not extra and 'parse' in callers, '_parse is called only by parse and by itself', mod, '<module>', '_parse callers',
                f'_parse is also called from {extra}: its StopIteration would escape there')
    g = CFG(parse)
    for c in callers.get('parse', []):
        nodes = g.node_containing(c)
        if len(nodes) != 1:
            raise Undecided('parse: cannot place the _parse call in the CFG')
        handlers = [g.nodes[b] for b, lab in g.succ[nodes[0].id] if lab == 'exc' and g.nodes[b].kind == 'handler']
        catching = [h for h in handlers if set(_exc_names(h.ast)) & {'StopIteration', 'Exception', 'BaseException'}]   # type: ignore[arg-type]
        ok = bool(catching)
        for h in catching:
            # every way out of the handler is a raise of MesonException
            reach = g.reachable([h])
            if g.exit_return.id in reach:
                ok = False
            for nid in reach:
                st = g.nodes[nid].ast
                if g.nodes[nid].kind == 'stmt' and isinstance(st, ast.Raise):
                    e = st.exc.func if isinstance(st.exc, ast.Call) else st.exc
                    if e is None or attr_chain(e) not in ok_classes:
                        ok = False
        ctx.require(ok, 'parse: running out of tokens inside _parse (StopIteration) is converted to MesonException', mod, 'parse', c,
                    'the _parse call in parse is not covered by an `except StopIteration` handler that always raises MesonException: '
                    'a truncated expression such as `all(a` would escape as StopIteration')
    # every next(...) without default in _parse is a source of StopIteration: count them (they are all covered by (2))
    nexts = [c for c in ast.walk(inner) if isinstance(c, ast.Call) and isinstance(c.func, ast.Name) and c.func.id == 'next' and len(c.args) == 1]
    ctx.floor('next(ast) calls in _parse', len(nexts), 6)
    # (3) after _parse the stream must be exhausted (decision table of parse over: leftover token yes/no)
    for leftover in (False, True):
        it = Interp(dict(m['env']), name='parse')
        child = Obj('%child', ('IR',), {'n': 0}, strict=True)
        holder: T.Dict[str, Stream] = {}

        def lookahead(x: T.Any) -> Stream:
            holder['s'] = _lookahead(list(x))
            return holder['s']

        def fake_parse(s: T.Any) -> Obj:
            next(s)
            return child
        it.globals.set('lookahead', lookahead)
        it.globals.set('_parse', fake_parse)
        toks = [(m['token']._attrs['IDENTIFIER'], 'a')] + ([(m['token']._attrs['RPAREN'], None)] if leftover else [])
        try:
            res: T.Any = it.closure(parse)(toks)
        except Raised as r:
            res = r
        if leftover:
            ok = isinstance(res, Raised) and (res.exc.cls == 'MesonException' or 'MesonException' in res.exc.bases)
            ctx.require(ok, 'parse: a token left after the expression is rejected with MesonException', mod, 'parse', _last_ret(it, parse),
                        f'with a token left over after the expression (e.g. `cfg(a))`, `cfg(a b)`) parse gives {res.exc if isinstance(res, Raised) else res!r} instead of raising MesonException')
        else:
            ctx.require(res is child, 'parse: an exhausted stream returns the IR of _parse', mod, 'parse', _last_ret(it, parse),
                        f'with the stream exhausted parse gives {res.exc if isinstance(res, Raised) else res!r} instead of the parsed IR')
    # (4) every token read whose value is bound is checked (assertToken / identity test) before the parse goes on
    g2 = CFG(inner)
    reads = []
    for node in g2.nodes:
        st = node.ast
        if node.kind == 'stmt' and isinstance(st, ast.Assign) and isinstance(st.value, ast.Call) and norm(st.value.func) == 'next':
            names = {n.id for t in st.targets for n in ast.walk(t) if isinstance(n, ast.Name)}
            if 'token' in names:
                reads.append(node)
    if len(reads) < 2:
        raise Undecided('_parse: token reads `(token, value), _ = next(ast)` not found')
    first = min(reads, key=lambda n: n.id)

    def is_check(node: T.Any) -> bool:
        e = node.expr()
        if e is None:
            return False
        for c in walk_no_nested(e):
            if isinstance(c, ast.Call) and isinstance(c.func, ast.Name) and c.func.id == 'assertToken':
                return True
            if node.kind == 'test' and isinstance(c, ast.Compare) and isinstance(c.left, ast.Name) and c.left.id == 'token':
                return True
        return False
    checks = [n for n in g2.nodes if is_check(n)]

    def is_progress(node: T.Any) -> bool:
        if node.id in (g2.exit_return.id,):
            return True
        e = node.expr()
        if e is None or is_check(node):
            return False
        if node.kind == 'stmt' and isinstance(node.ast, ast.Return):
            return True
        return any(isinstance(c, ast.Call) and isinstance(c.func, ast.Name) and c.func.id in ('next', '_parse') for c in walk_no_nested(e))
    progress = [n for n in g2.nodes if is_progress(n)]
    # look-ahead names: the second component of a read target, and what is unpacked from it
    look: T.Set[str] = set()
    for rd in reads:
        t = rd.ast.targets[0]     # type: ignore[union-attr]
        if isinstance(t, ast.Tuple) and len(t.elts) == 2 and isinstance(t.elts[1], ast.Name) and t.elts[1].id != '_':
            look.add(t.elts[1].id)
    for st in walk_no_nested(inner):
        if isinstance(st, ast.Assign) and isinstance(st.value, ast.Name) and st.value.id in look:
            look |= {n.id for n in ast.walk(st.targets[0]) if isinstance(n, ast.Name) and n.id != '_'}

    def confirmed_by_lookahead(rd: T.Any) -> bool:
        # walking backwards from the read, every way in comes through the True edge of a test on a look-ahead name
        seen: T.Set[int] = set()
        todo = [rd.id]
        while todo:
            cur = todo.pop()
            for p, lab in g2.pred[cur]:
                pn = g2.nodes[p]
                if pn.kind == 'test' and lab is True and {n.id for n in ast.walk(pn.expr()) if isinstance(n, ast.Name)} & look:   # type: ignore[arg-type]
                    continue
                consumes = pn.expr() is not None and any(isinstance(c, ast.Call) and isinstance(c.func, ast.Name) and c.func.id in ('next', '_parse')
                                                         for c in walk_no_nested(pn.expr()))     # type: ignore[arg-type]
                if pn.kind == 'entry' or consumes or lab == 'exc':
                    return False    # another token was consumed in between: the look-ahead spoke about that one
                if p not in seen:
                    seen.add(p)
                    todo.append(p)
        return True
    for rd in reads:
        esc = [p for p in progress if p.id != rd.id and g2.can_reach(rd, p, avoid=checks, no_exc=True)]
        how = 'dispatch' if rd is first else 'delimiter'
        if esc and confirmed_by_lookahead(rd):
            esc, how = [], 'already identified by the look-ahead test'
        tgt = esc[0] if esc else None
        where = 'the end of _parse' if tgt is not None and tgt.ast is None else f'`{short(tgt.ast, 60)}`' if tgt is not None else ''
        ctx.require(not esc, f'_parse: token read `{short(rd.ast, 50)}` ({how}) is checked before the parse continues', mod, '_parse',
                    rd.ast, f'after `{short(rd.ast, 60)}` the parse can continue to {where} without assertToken / a test of the token', rd.ast)
    ctx.floor('token reads in _parse', len(reads), 5)
    # the asserts on token payloads are discharged by the lexer facts of R3b (identifiers are never empty, strings carry a str)
    asserts = [n for n in walk_no_nested(inner) if isinstance(n, ast.Assert)]
    lex = mod.func('lexer')
    for a in asserts:
        names = {n.id for n in ast.walk(a.test) if isinstance(n, ast.Name)}
        if names != {'value'}:
            raise Undecided(f'_parse: assert on {sorted(names)}')
    ys = [n for n in ast.walk(lex) if isinstance(n, ast.Yield)]
    ident_ok = True
    for text in ('a', 'a b', 'a,', ',,', '( )', '""', 'a=""', ' ', 'all', 'x y z', '"', 'a"b"c'):
        it = Interp(dict(m['env']), name='lexer', max_steps=60000)
        try:
            out = it.closure(lex)(text)
        except Raised as r:
            raise _undecided_on_raise(f'lexer({text!r})', r)
        for t, v in out:
            if t.name == 'IDENTIFIER' and not (isinstance(v, str) and v):
                ident_ok = False
            if t.name == 'STRING' and not isinstance(v, str):
                ident_ok = False
    ctx.require(ident_ok and len(ys) >= 8, 'lexer: IDENTIFIER tokens carry a non-empty text, STRING tokens a str (discharges the payload asserts of _parse)', mod, 'lexer', 'token payloads',
                'the lexer can yield an IDENTIFIER without text or a STRING without a str: `assert value` in _parse would escape as AssertionError')
    # eval_cfg: only the cfg(...) wrapper is evaluated
    ec = mod.func('eval_cfg')
    for raw, want in (('cfg(X)', 'X'), ('cfg()', ''), ('unix', None), ('cfg(a', None), ('xcfg(a)', None)):
        seen: T.List[T.Any] = []
        it = Interp({'_eval_cfg': lambda ir, c: ('EV', ir), 'parse': lambda x: ('P', x), 'lexer': lambda s: seen.append(s) or ('L', s)}, name='eval_cfg')
        try:
            res = it.closure(ec)(raw, {})
        except Raised as r:
            raise _undecided_on_raise(f'eval_cfg({raw!r})', r)
        if want is None:
            ctx.require(res is False and not seen, f'eval_cfg({raw!r}) is False without parsing', mod, 'eval_cfg', f'eval_cfg {raw}', f'eval_cfg({raw!r}) gives {res!r} (lexed: {seen})')
        else:
            ctx.require(seen == [want] and res == ('EV', ('P', ('L', want))), f'eval_cfg({raw!r}) evaluates parse(lexer({want!r}))', mod, 'eval_cfg', f'eval_cfg {raw}',
                        f'eval_cfg({raw!r}) lexes {seen} and returns {res!r}; expected the evaluation of parse(lexer({want!r}))')


RULES = [
    Rule('C20.R1a', 'split(): operator/wildcard canonicalisation table', r1_split),
    Rule('C20.R1b', 'cargo_parse: per-operator constraint table, pre-release gate, conjunction', r1_cargo_parse),
    Rule('C20.R1c', 'next_ver / list constructor / has_prerelease', r1_next_ver),
    Rule('C20.R2a', 'SemVer: one comparison core, ranking keys [int below str, value, length]', r2_core),
    Rule('C20.R2b', 'SemVer tokenizer: regex language facts and transition table on witness tokens', r2_tokens),
    Rule('C20.R3a', '_eval_cfg: an arm with the reference denotation per IR class built by _parse', r3_eval),
    Rule('C20.R3b', 'keyword -> token -> IR class maps agree', r3_maps),
    Rule('C20.R4a', 'only MesonException escapes; StopIteration covered; stream exhausted; delimiters checked', r4_escape),
    Rule('C20.R4b', '_parse one-level decision table over token-kind worlds equals the cfg grammar', r4_parse_table),
]
