"""C17 — rewriter edits are local and meaning-preserving (DESIGN §2 C17)."""
from __future__ import annotations

import ast
import codecs
import copy
import re
import typing as T

from ..core import Module, Undecided, attr_chain, norm, short, walk_no_nested, kwarg
from ..consteval import fold_const, fold_expr, Regex
from ..cfg import CFG
from ..paths import enumerate_paths
from ..report import Rule, RuleCtx
from .. import rx
from . import c17_ladder as LD
from . import c17_printer as PR
from . import c17_splice as SP
from . import c17_values as VL

PRINTER = PR.PRINTER
REWRITER = PR.REWRITER
MPARSER = LD.MPARSER

EXPLANATION = (
    'Decides structural clauses of C17.  R1: the precedence ladder is re-derived from Parser (delegation chain, node class built per level, '
    'ladder level each operand is parsed on) and, for every operand the AstPrinter emits, every (parent kind, child kind) pair that needs '
    'parentheses to keep its grouping gets them (guard of the parenthesising helper evaluated with the folded precedence_level table), or the '
    'child is a ParenthesizedNode that the printer writes out; precedence_level orders the node kinds like the ladder.  R2 (constant table + '
    'regex language, no string is run through a function body): the characters the body class of the string/fstring token excludes are keys of the '
    'folded escape_trans; each table image between the constant delimiters is in the token language, is exactly one non-extensible match of '
    'ESCAPE_SEQUENCE_SINGLE_RE whose unicode_escape denotation is the key; the first-character set of the escape regex is {backslash}.  '
    'R3: apply_changes splices in descending '
    '(lineno, colno) order, with start/end = line_table[lineno-1]+colno against a line table that uses the line terminators the lexer counts, '
    'and replaces exactly raw[start:end].  R4: a node is recorded as modified/to-sort only where its argument list is changed, once, and only '
    'Array/Function nodes; sorting permutes only the StringNode arguments; every removal and candidate choice passes affects_no_other_targets.  '
    'R4 also (splices of one round are disjoint - the general form of "once"): where one command can record two different nodes (two recording statements on a feasible path, '
    'or one recording statement on a loop that re-binds the recorded variable) the pair is excluded by a boolean flag the function sets, or apply_changes drops the nodes lying inside '
    'another recorded node of the same file (filter `not any(<y.start <= x.start and x.end <= y.end, x is not y, same file>)` read symbolically; another form ends undecided).  '
    'R5: every StringNode built from a Python value outside the parser switches the escape decoding off or pre-encodes the value.  '
    'R6: the pattern process_default_options builds per key is <start anchor or nothing> + key + `=`..., and every function that applies it '
    '(followed from rewriter_func_kwargs and the remove_regex dispatch through the callback helper) uses re.match/fullmatch or a ^-anchored search.  '
    'R2 also: decision table of visit_StringNode over is_fstring x is_multiline - the constant text around the value is an (empty) literal of exactly '
    'that token kind.  R7: the lists __init__ creates and apply_changes consumes are emptied on every path between two apply_changes() calls of one '
    'object, and a block that empties one empties all.  '
    'R3 also: where the lexer moves its line counter it re-bases the line start to the first character after the last terminator (characters cut '
    'off the token text before splitting are accounted for); text appended after the last line is preceded by a terminator check; forward scans '
    'that continue while the character matches are bounded by the buffer length.  R4 also (must-not-flow): the node set an extra-files / source '
    'operation searches is built from the matching attribute of the target only.  R8: an operator node synthesised in the AST interpreter and put into '
    'the dataflow graph gets an edge from each of its operands on every path.  R9: a value declared as text does not reach bool() on its way into a '
    'BooleanNode.  '
    'R10: no loop of the rewriter / AST interpreter changes the named list it walks.  R11: rewriter_func_kwargs and the typed_kwargs declarations of the '
    'interpreter agree on which keywords are lists.  '
    'R12: the entry `default-options set` appends per requested option is the template <requested key> + `=` + <requested value as validate_value returns it>, '
    'with no text-changing str method, slice or operator on the way (modulo str()).  R13 (must-flow): where add/rm sources joins a string the target already has '
    '(a `str` runtime value, the value of a StringNode argument) onto a base directory, that base depends on the target parameter.  '
    'R13 also: such a joined path goes through a normaliser that collapses `..` (normpath / abspath / realpath / .resolve()) before it is compared (== / in) with the requested file.  '
    'Normal forms added in round 13: `with self.<@contextmanager generator>(..)` in the printer reads as prologue; body; epilogue (an unread one ends undecided); '
    'visit_ParenthesizedNode is a decision table over the level of the inner expression; R9 classifies every local along the path as text / not text / unread (constant tables read); '
    'R13 fuses `for .. in <generator closure>()` with the generator body; R3 reads the line table written from terminator positions, named key functions with locals and Enum-member action tags; '
    'R6 follows the keyword table and the operation into an extracted method; R2 reads the stripped prefix length from a constant table indexed by the token id.  '
    'R4 reads functions in a normal form: statement-level calls of small procedures of the module/class are inlined, loops over a constant tuple of '
    'callables/records are unrolled; R2/R3 read the lexer tables through display splices, module constants and single-return builder helpers.  '
    'Does NOT decide: what validate_value returns for a requested value, nor how kwargs set converts values (MType*.new_node: value level); that the target-dependent base '
    'directory of R13 is the *right* directory (only that it is not the same for every target); against which directory a *requested* file name is resolved; against which directory a files() object is resolved when sources are listed (nodes_to_pretty_filelist / IntrospectionFile.to_abs_path: value level); which function calls forward data in the dataflow graph (is_ignored_edge); that an operation unsupported for a keyword type (add on a str/bool keyword, remove on an absent keyword) leaves the call unchanged; '
    'names generated by target_add being valid identifiers; CRLF preservation; dict-form default_options; which node of a dataflow path gives the base directory of a relative source (get_relto), whether option keys need regex escaping, nor that the dataflow DAG selects the right node (e.g. which operand attributes of a node get dataflow edges: edges from the branches of a ternary make an array inside ONE branch the node that is extended - seed r7-2, a choice among candidates, value level), nor add/remove round trips, nor printing of statements other than expressions.')
ASSUMPTIONS = ['str.translate, str.splitlines, str.split and codecs unicode_escape behave as documented in the Python library reference',
               'BaseNode.accept dispatches to visit_<ClassName> of the visitor (checked as an anchor)',
               '+ on int/str/list/dict, * on int, and/or are associative in the Meson language (Syntax.md); a+(b-c) == (a+b)-c on integers']
TECHNIQUE = ('ladder re-derived from the parser by delegation chain; precedence_level as a decision table; parenthesising guards decided over the declared '
             'node-kind domain; folded escape table against regex-language facts (body class, token language, first-character set); CFG dominance / '
             'guard edges, path enumeration with copy propagation and normalised linear expression comparison, reaching definitions')


# ---------------------------------------------------------------------------
# R1
def r1(ctx: RuleCtx) -> None:
    pmod = ctx.repo.module(PRINTER)
    mmod = ctx.repo.module(MPARSER)
    lad = LD.extract_ladder(ctx.repo)
    classes = LD.node_classes(mmod)
    ctx.floor('ladder levels derived from Parser', lad.top(), 10)
    ctx.floor('expression node kinds on the ladder', len(lad.kinds), 20)
    ctx.note('ladder: ' + ', '.join(f'{PR.kname(k)}={v}' for k, v in sorted(lad.kinds.items(), key=lambda x: (x[1], x[0][0], str(x[0][1])))))

    # anchor: the visitor protocol the model relies on
    acc = mmod.func('BaseNode.accept')
    fmt = [n for n in ast.walk(acc) if isinstance(n, ast.Constant) and isinstance(n.value, str) and n.value.startswith('visit_')]
    if not fmt or 'type(self).__name__' not in norm(acc):
        raise Undecided('BaseNode.accept does not dispatch on visit_<type name>')

    paren_kind: LD.Kind = ('ParenthesizedNode', None)
    if paren_kind not in lad.kinds:
        raise Undecided('the parser builds no ParenthesizedNode')
    inner_attrs = [a for (k, a) in lad.need if k == paren_kind]
    if len(inner_attrs) != 1:
        raise Undecided(f'ParenthesizedNode operands: {inner_attrs}')
    inner_attr = inner_attrs[0]

    # --- precedence_level vs ladder (K5): order embedding; everything from the bracket level up is atomic
    pt = LD.prec_table(pmod, classes, lad.discr)
    prec: T.Dict[LD.Kind, T.Any] = {k: pt.value(k) for k in lad.kinds}
    atomic_from = lad.kinds[paren_kind]          # level of ( ) [ ] { }: nothing above it ever needs parentheses
    cap = {k: min(v, atomic_from) for k, v in lad.kinds.items()}
    fn_prec = pmod.func('precedence_level')
    for k in sorted(lad.kinds, key=lambda x: (lad.kinds[x], x[0], str(x[1]))):
        pv = prec[k]
        if isinstance(pv, str):
            if k == paren_kind and pv == 'inner:' + inner_attr:
                ctx.ok(f'precedence_level({PR.kname(k)}) is the level of its inner expression')
                continue
            raise Undecided(f'precedence_level({PR.kname(k)}) delegates to {pv}')
        if pv is None:
            ctx.violation(pmod, 'precedence_level', f'precedence_level({PR.kname(k)})',
                          f'precedence_level has no level for {PR.kname(k)} (raises or returns None) although the parser builds it on ladder level {lad.kinds[k]}', fn_prec)
            continue
        bad = []
        for k2 in lad.kinds:
            p2 = prec[k2]
            if not isinstance(p2, int):
                continue
            if cap[k] < cap[k2] and not pv < p2 or cap[k] > cap[k2] and not pv > p2 or (cap[k] == cap[k2] and cap[k] < atomic_from and pv != p2):
                bad.append(k2)
        ctx.require(not bad, f'precedence_level({PR.kname(k)}) = {pv} orders like ladder level {lad.kinds[k]}', pmod, 'precedence_level',
                    f'precedence_level({PR.kname(k)})',
                    f'precedence_level({PR.kname(k)}) = {pv} but the parser ladder has it on level {lad.kinds[k]}: ordered wrongly against '
                    + ', '.join(f'{PR.kname(x)} (ladder {lad.kinds[x]}, precedence_level {prec[x]})' for x in bad[:3]), fn_prec)

    # --- printer model
    helpers = PR.paren_helpers(ctx, pmod, 'AstPrinter')
    for h in helpers.values():
        if h.flag is not None:
            ctx.require(h.sem[True] and not h.sem[False], f'AstPrinter.{h.name}: writes ( operand ) exactly when its flag is true', pmod, f'AstPrinter.{h.name}',
                        pmod.func(f'AstPrinter.{h.name}'), f'helper {h.name} writes parentheses when flag is {[f for f, v in h.sem.items() if v]}')
    printed = PR.paren_mode(ctx, pmod, 'AstPrinter', paren_kind[0], inner_attr)
    ctx.note(f'ParenthesizedNode is {"written as ( inner ) depending on the level of the inner expression" if isinstance(printed, PR.ParenRows) else "written as ( inner )" if printed else "transparent (inner expression printed bare)"}; '
             f'precedence_level(ParenthesizedNode) = {prec[paren_kind]}')
    synth = PR.synthesized(ctx, lad, REWRITER)
    ctx.note('operator nodes built outside the parser (any expression may stand in the operand): '
             + (', '.join(f'{PR.kname(k)}.{a}' for k, a in sorted(synth, key=str)) or 'none'))

    meths = PR.inline_cms(pmod.methods('AstPrinter'))
    top = lad.top() + 1
    # group concrete parent kinds by (class, attribute)
    slots: T.Dict[T.Tuple[str, str], T.List[LD.Kind]] = {}
    for (k, a), r in lad.need.items():
        if r >= 2 and lad.kinds[k] < atomic_from:
            slots.setdefault((k[0], a), []).append(k)
    emitted = 0
    children = [k for k in lad.kinds if k != paren_kind]
    for (cls, attr), parents in sorted(slots.items()):
        vname = f'visit_{cls}'
        if vname not in meths:
            raise Undecided(f'AstPrinter has no {vname}: {cls} would not be printed')
        fn = T.cast(ast.FunctionDef, meths[vname])
        ems = [e for e in PR.emissions(fn, helpers, meths) if e.attr == attr]
        if not ems:
            ctx.note(f'{cls}.{attr} is not emitted through accept() (printed as text): not an operand of the printer')
            continue
        if len(ems) != 1:
            raise Undecided(f'AstPrinter.{vname} emits node.{attr} {len(ems)} times')
        em = ems[0]
        emitted += 1
        failing: T.List[T.Tuple[T.Any, str]] = []
        combos = 0
        for parent in sorted(parents, key=str):
            need = lad.need[(parent, attr)]
            any_child = (parent, attr) in synth
            for child in children:
                lv = lad.kinds[child]
                # (how the child reaches this operand, level of the text that is printed for it, level the guard sees)
                situations: T.List[T.Tuple[str, int, T.Any]] = []
                if lv >= need or any_child:
                    situations.append(('direct', lv, prec[child]))
                vis = prec[child] if isinstance(prec[paren_kind], str) else prec[paren_kind]
                wr = printed.written(prec[child]) if isinstance(printed, PR.ParenRows) else printed
                situations.append(('paren', top if wr else lv, vis))
                for how, eff, seen in situations:
                    combos += 1
                    needs = eff < need
                    if needs and eff == lad.kinds[parent] and need == eff + 1 and (parent, child) in PR.ASSOC_SAFE:
                        needs = False
                    if not needs:
                        continue
                    if em.helper is None:
                        g = False
                    elif em.helper.flag is None or em.guard is None:
                        g = em.helper.sem[True]
                    else:
                        if not isinstance(seen, int) or not isinstance(prec[parent], int):
                            continue   # reported by the K5 part
                        ge = PR.GuardEval(em.fn or fn, 'precedence_level', prec[parent], {attr: seen}, lad.discr.get(cls), parent[1])
                        g = em.helper.sem[bool(ge.ev(em.guard))]
                    if not g:
                        src = PR.hole(parent, attr).format('(' + PR.sample(child) + ')')
                        out = PR.hole(parent, attr).format(PR.sample(child))
                        via = 'a parenthesised' if how == 'paren' else 'a directly attached'
                        failing.append((PR.witness_rank(child), f'{via} {PR.kname(child)} under {PR.kname(parent)}.{attr} (needs ladder level >= {need}): `{src}` is printed as `{out}`'))
        what = f'AstPrinter.{vname}: node.{attr} ({"guarded by " + short(em.guard, 60) if em.guard is not None else "emitted bare"}) keeps its grouping for {combos} parent/child situations'
        if failing:
            failing.sort()
            ctx.violation(pmod, f'AstPrinter.{vname}', em.call,
                          f'operand {attr} of {cls} is printed without the parentheses it needs in {len(failing)} situation(s), e.g. {failing[0][1]}'
                          + (f'; also {failing[1][1]}' if len(failing) > 1 else ''), em.call)
        else:
            ctx.ok(what)
    ctx.floor('operator operands emitted by the printer', emitted, 8)


# ---------------------------------------------------------------------------
# R2
def token_regex(ctx: RuleCtx, mod: Module, tid: str) -> Regex:
    spec = SP.lexer_token_spec(mod)      # the ordered (id, pattern) table however it is put together (display, spliced constants, builder helper)
    if tid not in spec:
        raise Undecided(f'Lexer.token_specification has no token {tid!r}')
    r = fold_expr(ctx.repo, mod, spec[tid])
    if not isinstance(r, Regex):
        raise Undecided(f'token {tid}: not a compiled regex')
    return r


def _nfa_full(nfa: rx.NFA, text: str) -> bool:
    st = nfa.closure([nfa.start])
    for ch in text:
        st = nfa.step(st, ch)
        if not st:
            return False
    return nfa.accept in st


def _flatten_add(e: ast.AST) -> T.List[ast.AST]:
    return SP.template_parts(e)      # `+` chains, f-strings, % and .format templates alike


def _fold_trans_table(ctx: RuleCtx, pmod: Module, name: str, cls: str) -> T.Dict[int, T.Any]:
    """A str.translate table however it is spelled: str.maketrans({...}) / maketrans(a, b), or a dict display keyed by
    code points, ord('<c>') or one-character strings."""
    e = pmod.assign_value(name, pmod.cls(cls))
    if isinstance(e, ast.Dict):
        out: T.Dict[int, T.Any] = {}
        for k, v in zip(e.keys, e.values):
            if isinstance(k, ast.Call) and norm(k.func) == 'ord' and len(k.args) == 1:
                kk = fold_expr(ctx.repo, pmod, k.args[0], cls=cls)
                if not (isinstance(kk, str) and len(kk) == 1):
                    raise Undecided(f'translate table key {short(k)}')
                key = ord(kk)
            elif k is not None:
                kv = fold_expr(ctx.repo, pmod, k, cls=cls)
                if isinstance(kv, int) and not isinstance(kv, bool):
                    key = kv
                else:
                    raise Undecided(f'translate table key {short(k)} is not a code point')
            else:
                raise Undecided('translate table with ** expansion')
            out[key] = fold_expr(ctx.repo, pmod, v, cls=cls)
        return out
    if isinstance(e, ast.Call) and norm(e.func) == 'str.maketrans' and len(e.args) == 2:
        a, b = fold_expr(ctx.repo, pmod, e.args[0], cls=cls), fold_expr(ctx.repo, pmod, e.args[1], cls=cls)
        if isinstance(a, str) and isinstance(b, str) and len(a) == len(b):
            return {ord(x): y for x, y in zip(a, b)}
        raise Undecided('str.maketrans(a, b) with unequal lengths')
    tab = fold_expr(ctx.repo, pmod, e, cls=cls)
    if not isinstance(tab, dict):
        raise Undecided(f'translate table {name} does not fold to a dict')
    return tab


Piece = T.Union[str, ast.AST]      # constant text, or the expression that carries node.value


def _expand(parts: T.List[ast.AST], conds: T.Dict[str, bool], value_text: str) -> T.List[T.Tuple[T.Dict[str, bool], T.List[Piece]]]:
    """Rows (conditions, pieces) of a `+` chain whose parts are constants, the value expression, or `c1 if atom else c2`."""
    rows: T.List[T.Tuple[T.Dict[str, bool], T.List[Piece]]] = [(dict(conds), [])]
    for part in parts:
        nxt: T.List[T.Tuple[T.Dict[str, bool], T.List[Piece]]] = []
        for cd, pcs in rows:
            if isinstance(part, ast.Constant) and isinstance(part.value, str):
                nxt.append((cd, pcs + [part.value]))
            elif value_text in norm(part):
                nxt.append((cd, pcs + [part]))
            elif isinstance(part, ast.IfExp):
                t, pol = SP._strip_not(part.test)
                atom = norm(t)
                for val, branch in ((True, part.body), (False, part.orelse)):
                    truth = val if pol else not val
                    if cd.get(atom, truth) != truth:
                        continue
                    for cd2, pcs2 in _expand(_flatten_add(branch), {**cd, atom: truth}, value_text):
                        nxt.append((cd2, pcs + pcs2))
            else:
                raise Undecided(f'visit_StringNode: emitted piece {short(part)} is neither a constant, the value, nor a conditional constant')
        rows = nxt
    return rows


def _string_emission_table(ctx: RuleCtx, pmod: Module) -> T.Dict[T.Tuple[bool, bool], T.Tuple[str, str, ast.AST, ast.AST]]:
    """(is_fstring, is_multiline) -> (text before the value, text after it, value expression, construct): the decision table of
    AstPrinter.visit_StringNode with the emitted text as a symbolic outcome (constant pieces around the value)."""
    fn = pmod.func('AstPrinter.visit_StringNode')
    node = [a.arg for a in fn.args.args][1]
    fa, ma, vt = f'{node}.is_fstring', f'{node}.is_multiline', f'{node}.value'
    rows: T.List[T.Tuple[T.Dict[str, bool], T.List[Piece], ast.AST]] = []
    for p in enumerate_paths(fn.body):
        acc: T.List[T.Tuple[T.Dict[str, bool], T.List[Piece]]] = [(dict(p.cond_map()), [])]
        last: T.Optional[ast.AST] = None
        for st in p.stmts():
            for c in [c for c in walk_no_nested(st) if isinstance(c, ast.Call)]:
                if not (isinstance(c.func, ast.Attribute) and norm(c.func.value) == 'self' and c.args):
                    continue
                if c.func.attr == 'append_padded':
                    raise Undecided('visit_StringNode: padded emission')
                if c.func.attr != 'append':
                    continue
                env = SP.sym_exec(p, stop=st)      # locals bound first (`prefix = ...`, `body = self.escape(...)`) are read through
                parts = _flatten_add(SP._Subst(env).visit(copy.deepcopy(c.args[0])))
                acc = [(cd2, pcs + pcs2) for cd, pcs in acc for cd2, pcs2 in _expand(parts, cd, vt)]
                if any(vt in norm(x) for x in parts):
                    last = c
        for cd, pcs in acc:
            rows.append((cd, pcs, last or fn))
    # atoms other than the two flags are tolerated only when they hold on every row (the assert on the value type)
    for cd, _, _ in rows:
        for k, v in cd.items():
            if k not in (fa, ma) and not all(r[0].get(k) == v for r in rows):
                raise Undecided(f'visit_StringNode: emission depends on {k}')
    out: T.Dict[T.Tuple[bool, bool], T.Tuple[str, str, ast.AST, ast.AST]] = {}
    for f in (False, True):
        for m in (False, True):
            fire = [r for r in rows if r[0].get(fa, f) == f and r[0].get(ma, m) == m]
            shapes = {tuple(x if isinstance(x, str) else '\0' + norm(x) for x in r[1]) for r in fire}
            if len(shapes) != 1:
                raise Undecided(f'visit_StringNode: {len(shapes)} different emissions for is_fstring={f}, is_multiline={m}')
            pcs = fire[0][1]
            vidx = [i for i, x in enumerate(pcs) if not isinstance(x, str)]
            if len(vidx) != 1:
                raise Undecided(f'visit_StringNode: the value is emitted {len(vidx)} times for is_fstring={f}, is_multiline={m}')
            pre = ''.join(T.cast(T.List[str], pcs[:vidx[0]]))
            post = ''.join(T.cast(T.List[str], pcs[vidx[0] + 1:]))
            out[(f, m)] = (pre, post, T.cast(ast.AST, pcs[vidx[0]]), fire[0][2])
    return out


def _translate_table(ctx: RuleCtx, pmod: Module, e: ast.AST, arg: str, depth: int = 0) -> T.Dict[int, T.Any]:
    """e is f(arg) where f resolves to `<x>.translate(<class constant>)`."""
    if depth > 3 or not isinstance(e, ast.Call):
        raise Undecided(f'string value is transformed by {short(e)}')
    if isinstance(e.func, ast.Attribute) and e.func.attr == 'translate' and norm(e.func.value) == arg and len(e.args) == 1:
        t = attr_chain(e.args[0]) or ''
        if t.startswith('self.') and t.count('.') == 1:
            return _fold_trans_table(ctx, pmod, t.split('.')[1], 'AstPrinter')
        raise Undecided(f'translate table {short(e.args[0])} cannot be folded')
    chain: T.List[T.Tuple[str, str]] = []
    cur: ast.AST = e
    while isinstance(cur, ast.Call) and isinstance(cur.func, ast.Attribute) and cur.func.attr == 'replace' and len(cur.args) == 2 and not cur.keywords:
        a_, b_ = SP.const_str(pmod, cur.args[0]), SP.const_str(pmod, cur.args[1])
        if a_ is None or b_ is None or len(a_) != 1:
            raise Undecided(f'string value is transformed by {short(e)}: replace() of something other than one constant character')
        chain.insert(0, (a_, b_))
        cur = cur.func.value
    if chain and norm(cur) == arg:
        # replace() of single characters acts on every character independently, so the chain IS a translate table: the image of a key is
        # the chain folded on that one-character constant (later replacements see what earlier ones produced - order matters)
        table: T.Dict[int, T.Any] = {}
        for key in dict.fromkeys(a for a, _ in chain):
            img = key
            for a_, b_ in chain:
                img = img.replace(a_, b_)
            table[ord(key)] = img
        return table
    if isinstance(e.func, ast.Attribute) and isinstance(e.func.value, ast.Name) and e.func.value.id == 'self' and len(e.args) == 1 and norm(e.args[0]) == arg:
        r = ctx.repo.find_method(pmod, pmod.cls('AstPrinter'), e.func.attr)
        if r is None:
            raise Undecided(f'AstPrinter.{e.func.attr} not found')
        m = r[2]
        rets = [n for n in walk_no_nested(m) if isinstance(n, ast.Return)]
        if len(rets) != 1 or rets[0].value is None or len(m.body) != 1:
            raise Undecided(f'AstPrinter.{e.func.attr} is not a single return')
        param = [a.arg for a in m.args.args][1]
        return _translate_table(ctx, pmod, rets[0].value, param, depth + 1)
    raise Undecided(f'string value is transformed by {short(e)}')


def _negated_classes(items: T.Any) -> T.List[T.Any]:
    """Negated character classes anywhere in a parsed regex."""
    c = rx.sre_c
    out: T.List[T.Any] = []
    for op, av in items:
        if op is c.IN:
            if any(o is c.NEGATE for o, _ in av):
                out.append(av)
        elif op is c.NOT_LITERAL:       # [^x] is stored as NOT_LITERAL x
            out.append([(c.NEGATE, None), (c.LITERAL, av)])
        elif op is c.BRANCH:
            for br in av[1]:
                out += _negated_classes(br)
        elif op is c.SUBPATTERN:
            out += _negated_classes(av[3])
        elif op in (c.MAX_REPEAT, c.MIN_REPEAT):
            out += _negated_classes(av[2])
    return out


def _resolved_return(mod: Module, fn: ast.AST) -> ast.AST:
    """The value a single-path function returns, with locals read through and module-level functools.partial objects applied
    (`P = partial(f, a); P(x)` is `f(a, x)`)."""
    body = [st for st in fn.body if not (isinstance(st, ast.Expr) and isinstance(st.value, ast.Constant))]  # type: ignore[attr-defined]
    paths = enumerate_paths(body, unroll=0)
    if len(paths) != 1 or paths[0].outcome != 'return' or paths[0].value is None:
        raise Undecided(f'{getattr(fn, "name", "?")}: not a single-path function returning a value')
    e = SP._Subst(SP.sym_exec(paths[0])).visit(copy.deepcopy(paths[0].value))

    class Partial(ast.NodeTransformer):
        def visit_Call(self, c: ast.Call) -> ast.AST:
            self.generic_visit(c)
            if isinstance(c.func, ast.Name) and mod.has_assign(c.func.id):
                d = mod.assign_value(c.func.id)
                if isinstance(d, ast.Call) and (attr_chain(d.func) or '').split('.')[-1] == 'partial' and d.args and not d.keywords:
                    return ast.Call(func=copy.deepcopy(d.args[0]), args=[copy.deepcopy(a) for a in d.args[1:]] + list(c.args), keywords=list(c.keywords))
            return c
    return ast.fix_missing_locations(Partial().visit(e))


def _attr_definitions(fn: ast.AST) -> T.Dict[str, str]:
    """self.<attr> -> its (single) defining expression with single-definition locals read through."""
    loc: T.Dict[str, T.List[ast.AST]] = {}
    for n in ast.walk(fn):
        if isinstance(n, ast.Assign) and len(n.targets) == 1 and isinstance(n.targets[0], ast.Name):
            loc.setdefault(n.targets[0].id, []).append(n.value)
    single = {k: v[0] for k, v in loc.items() if len(v) == 1}
    out: T.Dict[str, T.List[str]] = {}
    for n in ast.walk(fn):
        if isinstance(n, ast.Assign) and len(n.targets) == 1 and isinstance(n.targets[0], ast.Attribute) and norm(n.targets[0].value) == 'self':
            out.setdefault(n.targets[0].attr, []).append(norm(SP._Subst(single).visit(copy.deepcopy(n.value))))
    return {k: v[0] for k, v in out.items() if len(v) == 1}


def _lexer_strip(mmod: Module, tids: T.Tuple[str, ...], repo: T.Any = None) -> T.Dict[str, T.Tuple[int, int]]:
    """How many characters Lexer.lex cuts off the front / the end of the text of each of `tids`: the `v = v[a:-b]` of the arm that
    handles these token ids, with arm-local names read through and `x if tid == c else y` folded per token id."""
    lex = mmod.func('Lexer.lex')
    out: T.Dict[str, T.Tuple[int, int]] = {}
    for arm in ast.walk(lex):
        if not isinstance(arm, ast.If):
            continue
        handled = SP.const_values_tested(arm.test, 'tid', mmod)
        if not handled or not set(tids) <= handled:
            continue
        local: T.Dict[str, ast.AST] = {}
        for st in [x for b in arm.body for x in ast.walk(b)]:
            if isinstance(st, ast.Assign) and len(st.targets) == 1 and isinstance(st.targets[0], ast.Name):
                tgt = st.targets[0].id
                v = st.value
                if isinstance(v, ast.Subscript) and isinstance(v.slice, ast.Slice) and norm(v.value) == tgt and v.slice.step is None:
                    for tid in tids:
                        def fold(e: T.Optional[ast.AST]) -> T.Optional[int]:
                            if e is None:
                                return 0
                            e = SP._Subst(local).visit(copy.deepcopy(e))
                            if isinstance(e, ast.IfExp):
                                a, pol = SP._strip_not(e.test)
                                vals = SP.const_values_tested(a, 'tid', mmod)
                                if vals is None:
                                    return None
                                e = e.body if ((tid in vals) == pol) else e.orelse
                            if isinstance(e, ast.UnaryOp) and isinstance(e.op, ast.USub) and isinstance(e.operand, ast.Constant):
                                return -e.operand.value
                            # a constant table indexed by the token id (`OPENER_LEN[tid]`), or any other constant expression
                            if isinstance(e, ast.Subscript) and norm(e.slice) == 'tid' and repo is not None:
                                try:
                                    tabv = fold_expr(repo, mmod, e.value)
                                except Undecided:
                                    return None
                                r_ = tabv.get(tid) if isinstance(tabv, dict) else None
                                return r_ if isinstance(r_, int) and not isinstance(r_, bool) else None
                            if not isinstance(e, ast.Constant) and repo is not None and not any(isinstance(x, ast.Name) and x.id == 'tid' for x in ast.walk(e)):
                                try:
                                    r_ = fold_expr(repo, mmod, e)
                                except Undecided:
                                    return None
                                return r_ if isinstance(r_, int) and not isinstance(r_, bool) else None
                            return e.value if isinstance(e, ast.Constant) and isinstance(e.value, int) else None
                        lo, up = fold(v.slice.lower), fold(v.slice.upper)
                        if lo is None or up is None or up > 0:
                            raise Undecided(f'Lexer.lex: cannot fold the quote stripping `{short(st)}` for token {tid}')
                        out[tid] = (lo, -up)
                else:
                    local[tgt] = v
    if set(out) != set(tids):
        raise Undecided(f'Lexer.lex: no quote stripping found for the tokens {tids}')
    return out


def r2(ctx: RuleCtx) -> None:
    """Constant-table + regex-language argument (no string is pushed through a function body):
    (1) the characters the body class of the string token excludes are keys of the folded escape table;
    (2) each table image, between the constant delimiters, is in the language of the string / fstring token;
    (3) each image is exactly one escape sequence of ESCAPE_SEQUENCE_SINGLE_RE, cannot be extended by a following
        character, and its unicode_escape denotation (folded on the constant) is the key;
    (4) every alternative of the escape regex starts with a backslash, so characters that are not keys (hence not the
        backslash) can never start an escape sequence and are read back unchanged."""
    pmod = ctx.repo.module(PRINTER)
    mmod = ctx.repo.module(MPARSER)
    esc = fold_const(ctx.repo, mmod, 'ESCAPE_SEQUENCE_SINGLE_RE')
    if not isinstance(esc, Regex):
        raise Undecided('ESCAPE_SEQUENCE_SINGLE_RE is not a compiled regex')
    dm = mmod.func('decode_match')
    dparam = dm.args.args[0].arg
    if norm(_resolved_return(mmod, dm)) != f"codecs.decode({dparam}.group(0).encode(), 'unicode_escape')":
        raise Undecided('decode_match is not codecs.decode(match.group(0).encode(), "unicode_escape")')
    sesc = mmod.func('StringNode.escape')
    if norm(_resolved_return(mmod, sesc)) != 'ESCAPE_SEQUENCE_SINGLE_RE.sub(decode_match, self.raw_value)':
        raise Undecided('StringNode.escape is not ESCAPE_SEQUENCE_SINGLE_RE.sub(decode_match, self.raw_value)')
    strip = _lexer_strip(mmod, ('string', 'fstring'), ctx.repo)      # token id -> (characters cut off the front, off the end), read by role

    # StringNode derives its two flags from the token id: is_multiline = 'multiline' in tid, is_fstring = 'fstring' in tid
    sinit_fn = mmod.func('StringNode.__init__')
    tokp = [a.arg for a in sinit_fn.args.args][1]
    flags = _attr_definitions(sinit_fn)
    if flags.get('is_multiline') != f"'multiline' in {tokp}.tid" or flags.get('is_fstring') != f"'fstring' in {tokp}.tid":
        raise Undecided('StringNode.__init__ does not derive is_multiline / is_fstring from the token id')
    kinds = fold_const(ctx.repo, mmod, 'ALL_STRINGS')
    tid_of = {('fstring' in t, 'multiline' in t): t for t in sorted(kinds)}
    if len(tid_of) != 4 or len(kinds) != 4:
        raise Undecided(f'ALL_STRINGS {sorted(kinds)} does not give one token per (fstring, multiline) combination')
    emis = _string_emission_table(ctx, pmod)
    node_p = [a.arg for a in pmod.func('AstPrinter.visit_StringNode').args.args][1]
    # decision table over is_fstring x is_multiline: the constant text around the value is an (empty) literal of exactly that token kind
    for (f, m), (pre_w, post_w, vexpr, cons) in sorted(emis.items()):
        tr = token_regex(ctx, mmod, tid_of[(f, m)])
        others = [t for k, t in tid_of.items() if k != (f, m) and rx.full_matches(token_regex(ctx, mmod, t).pattern, pre_w + post_w, token_regex(ctx, mmod, t).flags)]
        ok = rx.full_matches(tr.pattern, pre_w + post_w, tr.flags) and not others
        ctx.require(ok, f'is_fstring={f}, is_multiline={m}: written as {pre_w!r} <value> {post_w!r}, a {tid_of[(f, m)]} token and no other string token', pmod,
                    'AstPrinter.visit_StringNode', f'delimiters for is_fstring={f}, is_multiline={m}',
                    f'a StringNode with is_fstring={f}, is_multiline={m} (token {tid_of[(f, m)]}) is written as {pre_w!r} + value + {post_w!r}, which is '
                    + (f'read back as a {others[0]} token' if others else 'not a string token of the lexer')
                    + ': the string changes its kind (an f-string loses/gains its `f`, its @var@ substitutions are no longer performed) or the file stops parsing', cons)
        if m:
            ctx.require(norm(vexpr) == f'{node_p}.value', f'is_fstring={f}, multi-line: the raw value is written unchanged', pmod, 'AstPrinter.visit_StringNode',
                        f'multi-line value (is_fstring={f})', f'a multi-line string is not escape-decoded when read, but it is written as {short(vexpr)}', cons)
    singles = {f: emis[(f, False)] for f in (False, True)}
    tables = {}
    for f, (pre_w, post_w, vexpr, cons) in singles.items():
        tables[f] = None if norm(vexpr) == f'{node_p}.value' else _translate_table(ctx, pmod, vexpr, f'{node_p}.value')
    if tables[False] != tables[True]:
        raise Undecided('visit_StringNode: plain and f single-line strings are escaped with different tables')
    table = tables[False]
    construct = singles[False][3]
    pre, post = singles[False][0], singles[False][1]
    fpre = singles[True][0]
    widths = {tid_of[(False, False)]: (len(pre), len(post)), tid_of[(True, False)]: (len(fpre), len(singles[True][1]))}
    ctx.require(all(strip.get(t_) == w_ for t_, w_ in widths.items()), f'Lexer.lex cuts off exactly the delimiters the printer writes ({strip})', mmod, 'Lexer.lex',
                'quote stripping of string / fstring tokens',
                f'the printer writes {widths} characters around the value of a string / fstring but Lexer.lex cuts off {strip}: a delimiter stays in the value (or a character of the '
                'value is lost) every time a statement is re-printed and read again', mmod.func('Lexer.lex'))
    if not (len(pre) == 1 and len(post) == 1 and fpre == 'f' + pre and singles[True][1] == post):
        raise Undecided(f'visit_StringNode: single-line delimiters {pre!r}/{post!r} and {fpre!r}/{singles[True][1]!r} are not what Lexer.lex strips')
    where = 'AstPrinter' if table is not None else 'AstPrinter.visit_StringNode'
    images: T.Dict[str, str] = {}
    for k, v in (table or {}).items():
        if not isinstance(v, str):
            raise Undecided(f'escape table value {v!r} is not a string')
        images[chr(k)] = v
    ctx.note(f'single-line strings are written as {pre!r} + translate(value) + {post!r}; table = ' + (repr(images) if table is not None else 'identity'))
    tokens = {'': token_regex(ctx, mmod, tid_of[(False, False)]), 'f': token_regex(ctx, mmod, tid_of[(True, False)])}
    nfas = {p: rx.build(r.pattern, r.flags) for p, r in tokens.items()}

    # (1) excluded characters of the body class must be escaped
    n_excl = 0
    for prefix, r in tokens.items():
        neg = _negated_classes(rx.parse(r.pattern, r.flags))
        if len(neg) != 1:
            raise Undecided(f'{"f" if prefix else ""}string token regex has {len(neg)} negated classes (expected the body class)')
        universe = set(rx.alphabet(r.pattern)) | set(images)
        excluded = sorted(universe - rx.class_chars(neg[0], universe))
        ctx.floor(f'characters excluded by the body class of the {"f" if prefix else ""}string token', len(excluded), 2)
        for c in excluded:
            n_excl += 1
            ctx.require(c in images, f'{"f" if prefix else ""}string token: excluded character {c!r} is a key of the escape table', pmod, where,
                        f'{c!r} is not in the escape table',
                        f'the body class of the token regex {r.pattern!r} excludes {c!r}, but the printer writes it unescaped: a value containing {c!r} '
                        f'(printed {pre + c + post!r}) does not lex as one string token', construct)

    # (4) escapes start with a backslash only
    enfa = rx.build(esc.pattern, esc.flags)
    ealpha = set(rx.BASE_SAMPLES) | set('0123456789abcdefABCDEFnrtvxuUN{}')
    rx._collect_chars(rx.parse(esc.pattern, esc.flags), ealpha)
    start = enfa.closure([enfa.start])
    firsts = sorted(c for c in ealpha if enfa.step(start, c))
    if firsts != ['\\'] or enfa.accept in start:
        raise Undecided(f'a match of the escape regex can start with {firsts!r}, not only with a backslash')
    ctx.ok('first-character set of ESCAPE_SEQUENCE_SINGLE_RE is {backslash}: characters outside the table are read back unchanged')
    ctx.require('\\' in images or table is None, 'the backslash itself is a key of the escape table', pmod, where, "'\\\\' is not in the escape table",
                'a backslash in a value is printed bare and starts an escape sequence when read back', construct)

    # (2) (3) table images
    for k, v in sorted(images.items()):
        key = f'escape_trans[{k!r}] = {v!r}'
        bad_tok = [p for p, n in nfas.items() if not _nfa_full(n, p + pre + v + post)]
        ctx.require(not bad_tok, f'{key}: {pre + v + post!r} is in the language of the string and fstring tokens', pmod, 'AstPrinter', key,
                    f'a string value containing {k!r} is printed as {v!r}: {pre + v + post!r} does not lex as one string token ({tokens[""].pattern!r})', construct)
        if bad_tok:
            continue      # the image does not even reach the decoder as one token
        st = enfa.closure([enfa.start])
        for ch in v:
            st = enfa.step(st, ch)
        one = bool(st) and enfa.accept in st
        ext = sorted(c for c in ealpha if one and enfa.step(st, c))
        try:
            den = codecs.decode(v.encode(), 'unicode_escape')     # folding a constant with the codec decode_match names
        except Exception as ex:
            den = f'<{ex.__class__.__name__}>'
        ctx.require(one and not ext and den == k, f'{key}: the image is exactly one escape sequence denoting {k!r}', pmod, 'AstPrinter', key + ' (decoding)',
                    f'a string value containing {k!r} is printed as {v!r}, which '
                    + ('is not one escape sequence of ESCAPE_SEQUENCE_SINGLE_RE (it is read back literally)' if not one
                       else f'can be extended by a following {ext[0]!r} into a longer escape sequence' if ext
                       else f'denotes {den!r}'), construct)
    ctx.floor('escape table entries', len(images), 0)


# ---------------------------------------------------------------------------
# R5
def _string_sites(mod: Module) -> T.List[T.Tuple[str, ast.Call]]:
    out = []
    for c in ast.walk(mod.tree):
        if isinstance(c, ast.Call) and (attr_chain(c.func) or '').split('.')[-1] == 'StringNode':
            out.append((mod.enclosing_func(c) or '<module>', c))
    return out


def _codec(e: ast.AST, mod: T.Optional[Module]) -> T.Optional[str]:
    if isinstance(e, ast.Constant):
        return e.value if isinstance(e.value, str) else None
    return SP.const_str(mod, e) if mod is not None else None


def _is_encode(e: ast.AST, mod: T.Optional[Module] = None) -> bool:
    """codecs.encode(x, 'unicode_escape')[.decode()] / x.encode('unicode_escape')[.decode()]"""
    if isinstance(e, ast.Call) and isinstance(e.func, ast.Attribute) and e.func.attr == 'decode' and not e.args:
        e = e.func.value
    if not isinstance(e, ast.Call):
        return False
    if (attr_chain(e.func) or '').endswith('codecs.encode') and len(e.args) == 2:
        return _codec(e.args[1], mod) == 'unicode_escape'
    if isinstance(e.func, ast.Attribute) and e.func.attr == 'encode' and len(e.args) == 1:
        return _codec(e.args[0], mod) == 'unicode_escape'
    return False


def _value_class(mod: Module, fn: T.Optional[ast.AST], value: ast.AST, use: ast.AST, depth: int = 0) -> T.Tuple[str, str]:
    """('safe'|'raw', why) for the value a token is built from, as seen at the AST object `use`."""
    if isinstance(value, ast.Constant) and isinstance(value.value, str):
        return ('safe' if '\\' not in value.value else 'raw', f'constant {value.value!r}')
    if _is_encode(value, mod):
        return 'safe', 'value pre-encoded with unicode_escape'
    if isinstance(value, ast.Call) and norm(value.func) == 'str' and len(value.args) == 1 and depth < 3:
        c, why = _value_class(mod, fn, value.args[0], use, depth + 1)
        return c, (why if c == 'safe' else f'raw value {short(value, 50)}')
    if isinstance(value, ast.Name) and fn is not None and isinstance(fn, (ast.FunctionDef, ast.AsyncFunctionDef)):
        binders = [n for n in walk_no_nested(fn) if isinstance(n, ast.Name) and n.id == value.id and isinstance(n.ctx, ast.Store)]
        assigns = [st for st in walk_no_nested(fn) if isinstance(st, ast.Assign) and len(st.targets) == 1 and isinstance(st.targets[0], ast.Name) and st.targets[0].id == value.id]
        is_param = value.id in [a.arg for a in fn.args.args + fn.args.kwonlyargs]
        if binders and len(binders) == len(assigns) and not is_param:
            cfg = CFG(fn)
            uses = cfg.node_containing(use)
            if uses:
                reach = []
                for st in assigns:
                    others = [n for o in assigns if o is not st for n in cfg.stmt_nodes(o)]
                    if any(cfg.can_reach(dn, un, avoid=others) for dn in cfg.stmt_nodes(st) for un in uses):
                        reach.append(st)
                if reach and all(_is_encode(st.value, mod) for st in reach):
                    return 'safe', f'every definition of {value.id} reaching the token is pre-encoded with unicode_escape'
        return 'raw', f'raw value {value.id}'
    if isinstance(value, (ast.Name, ast.Subscript, ast.Attribute, ast.JoinedStr, ast.BinOp)):
        return 'raw', f'raw value {short(value, 50)}'
    raise Undecided(f'{mod.rel}: token value {short(value)} is produced by a call the rule does not know')


def _through_token_helper(mod: Module, qn: str, call: ast.Call) -> T.Optional[ast.AST]:
    """`self._token('string', value)` / `token(val=value)`: the call-site expression that becomes Token.value."""
    name = (attr_chain(call.func) or '').split('.')[-1]
    cands = [f for q, f in mod.funcs().items() if q.split('.')[-1] == name and (q.rsplit('.', 1)[0] in qn or '.' not in q)]
    if len(cands) != 1:
        return None
    h = cands[0]
    rets = [n for n in walk_no_nested(h) if isinstance(n, ast.Return) and n.value is not None]
    if len(rets) != 1 or not (isinstance(rets[0].value, ast.Call) and (attr_chain(rets[0].value.func) or '').split('.')[-1] == 'Token'):
        return None
    t = rets[0].value
    inner = t.args[6] if len(t.args) == 7 else kwarg(t, 'value')
    if not isinstance(inner, ast.Name):
        return inner
    params = [a.arg for a in h.args.args]
    if params and params[0] in ('self', 'cls') and isinstance(call.func, ast.Attribute):
        params = params[1:]
    if inner.id not in params:
        return None
    i = params.index(inner.id)
    if i < len(call.args):
        return call.args[i]
    kv = kwarg(call, inner.id)
    if kv is not None:
        return kv
    allp = [a.arg for a in h.args.args]
    d = h.args.defaults
    j = allp.index(inner.id) - (len(allp) - len(d))
    return d[j] if 0 <= j < len(d) else None


def _pre_encoded(mod: Module, qn: str, call: ast.Call) -> bool:
    """The token value of this construction is (on every reaching definition) the unicode_escape encoding of the value.
    Anything the rule cannot read counts as "not encoded" here: a double neutralisation is reported on positive evidence only."""
    try:
        bare = ast.Call(func=call.func, args=[a for a in call.args[:1]] or [k.value for k in call.keywords if k.arg == 'token'], keywords=[])
        ast.copy_location(bare, call)
        if not bare.args:
            return False
        fn = mod.func(qn) if qn != '<module>' and mod.has_func(qn) else None
        tok = bare.args[0]
        use: ast.AST = call
        if isinstance(tok, ast.Name) and fn is not None:
            defs = [n for n in ast.walk(fn) if isinstance(n, ast.Assign) and any(isinstance(t, ast.Name) and t.id == tok.id for t in n.targets)]
            if len(defs) == 1:
                tok = defs[0].value
                use = tok
        if not (isinstance(tok, ast.Call) and (attr_chain(tok.func) or '').split('.')[-1] == 'Token'):
            return False
        value = tok.args[6] if len(tok.args) == 7 else kwarg(tok, 'value')
        if value is None:
            return False
        c, why = _value_class(mod, fn, value, use)
        return c == 'safe' and 'pre-encoded' in why
    except Undecided:
        return False


def _neutralised(mod: Module, qn: str, call: ast.Call) -> T.Tuple[bool, str]:
    esc = kwarg(call, 'escape')
    if esc is None and len(call.args) >= 2:
        esc = call.args[1]
    if esc is not None:
        if isinstance(esc, ast.Constant):
            if esc.value is False and _pre_encoded(mod, qn, call):
                # neutralised twice: the text that was encoded for the decoder is stored as it is
                return (False, 'DOUBLE: escape=False on a value that is also pre-encoded with unicode_escape')
            return (esc.value is False, f'escape={esc.value}')
        raise Undecided(f'{mod.rel}: {qn}: escape={short(esc)} is not a constant')
    if not call.args:
        raise Undecided(f'{mod.rel}: {qn}: StringNode() without a token')
    tok = call.args[0]
    fn = mod.func(qn) if qn != '<module>' and mod.has_func(qn) else None
    use: ast.AST = call
    if isinstance(tok, ast.Name) and fn is not None:
        defs = [n for n in ast.walk(fn) if isinstance(n, ast.Assign) and any(isinstance(t, ast.Name) and t.id == tok.id for t in n.targets)]
        if len(defs) == 1:
            tok = defs[0].value
            use = tok
    value: T.Optional[ast.AST] = None
    if isinstance(tok, ast.Call) and (attr_chain(tok.func) or '').split('.')[-1] == 'Token':
        value = tok.args[6] if len(tok.args) == 7 else kwarg(tok, 'value')
    elif isinstance(tok, ast.Call):
        value = _through_token_helper(mod, qn, tok)
    if value is None:
        raise Undecided(f'{mod.rel}: {qn}: cannot see the value of the token in {short(call)}')
    c, why = _value_class(mod, fn, value, use)
    return c == 'safe', why


def r5(ctx: RuleCtx) -> None:
    # built-in positive example: the detector must classify a raw construction as raw
    demo = Module(ctx.repo, '<demo>', "def f(v):\n    return StringNode(Token('string', '', 0, 0, 0, None, str(v)))\n"
                                      "def g(v):\n    return StringNode(Token('string', '', 0, 0, 0, None, v), escape=False)\n")
    d = {qn: _neutralised(demo, qn, c)[0] for qn, c in _string_sites(demo)}
    if d != {'f': False, 'g': True}:
        raise Undecided(f'self-check of the StringNode site classifier failed: {d}')
    init = ctx.repo.module(MPARSER).func('StringNode.__init__')
    params = [a.arg for a in init.args.args]
    defaults = init.args.defaults
    if 'escape' not in params or not defaults or not (isinstance(defaults[-1], ast.Constant) and defaults[-1].value is True):
        raise Undecided('StringNode.__init__ has no escape=True parameter: the premise of the rule is gone')
    if 'self.escape()' not in norm(init):
        raise Undecided('StringNode.__init__ no longer decodes escapes')
    n = 0
    rels = []
    for rel in ctx.repo.py_files('mesonbuild'):
        if rel == MPARSER:
            continue
        try:
            src = ctx.repo.read(rel)
        except Exception:
            continue
        if 'StringNode(' in src:     # pre-filter only: the decision is made on the parsed calls below
            rels.append(rel)
    for rel in rels:
        mod = ctx.repo.module(rel)
        for qn, call in _string_sites(mod):
            n += 1
            ok, why = _neutralised(mod, qn, call)
            if why.startswith('DOUBLE'):
                ctx.violation(mod, qn, call, 'the value is encoded with unicode_escape for the decoding constructor AND the constructor is told not to decode '
                              "(escape=False): the encoded text is stored as it is - a source named naïve.c is written as 'na\\xefve.c', info reports that name and a "
                              'later removal of the real name does not find it (the value must be neutralised exactly once)', call)
                continue
            ctx.require(ok, f'{rel}: {qn}: {short(call, 70)} [{why}]', mod, qn, call,
                        f'StringNode is built from a Python value ({why}) with escape decoding on: a requested value such as a\\tb or C:\\new is '
                        'stored with a TAB / newline instead of the backslash sequence (the sibling sites pass escape=False or pre-encode)', call)
    ctx.floor('StringNode constructions outside the parser', n, 3)


# ---------------------------------------------------------------------------
RULES = [
    Rule('C17.R1', 'printer keeps operator grouping (ladder vs precedence_level vs parenthesising guards)', r1),
    Rule('C17.R2', 'string escaping of the printer round-trips through the lexer and the escape decoder', r2),
    Rule('C17.R3', 'splice discipline: descending order, offsets, line table vs lexer line terminators', SP.r3),
    Rule('C17.R4', 'bookkeeping: modified/to-sort nodes, sorting, affects_no_other_targets guards', SP.r4),
    Rule('C17.R5', 'StringNode from a raw value switches escape decoding off', r5),
    Rule('C17.R6', 'default-options removal pattern is key-delimited and applied start-anchored', SP.r6),
    Rule('C17.R7', 'work lists consumed by apply_changes are emptied before it runs again', SP.r7),
    Rule('C17.R8', 'synthesised values are linked to every operand in the dataflow graph', SP.r8),
    Rule('C17.R9', 'a requested value given as text is not made a boolean by truthiness', SP.r9),
    Rule('C17.R10', 'a list is not changed while a loop walks over it', SP.r10),
    Rule('C17.R11', 'rewriter keyword types agree with the interpreter keyword declarations on list-ness', SP.r11),
    Rule('C17.R12', 'default-options set writes <key>=<value> with the requested key and the validated value verbatim', VL.r12),
    Rule('C17.R13', 'sources a target already has are resolved against a directory that depends on the target', VL.r13),
]
