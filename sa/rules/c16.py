"""C16 — `meson format` preserves meaning and comments (DESIGN §2 C16)."""
from __future__ import annotations

import ast
import copy
import re
import typing as T

from ..core import Module, Undecided, norm, short, attr_chain, walk_no_nested, call_name
from ..report import Rule, RuleCtx
from ..cfg import CFG
from ..paths import enumerate_paths
from ..consteval import fold_expr, Regex
from .. import rx, tables
from ..tables import Atom
from .c16_model import NodeModel, Typer, Write, collect_writes, root_name, MP
from .c16_sym import Hyp, PRESENT, reach, Reach, subst

MF = 'mesonbuild/mformat.py'
VIS = 'mesonbuild/ast/visitor.py'
IB = 'mesonbuild/interpreterbase/interpreterbase.py'
DOC = 'docs/markdown/Commands.md'

EXPLANATION = (
    'Decides structural clauses of C16 on every path of every formatter pass (the visitor classes run by Formatter.format and the '
    'detectors they start): R1 every store/mutation a pass performs on the tree is either layout state (whitespace nodes, '
    'is_multiline of ArgumentNode/ParenthesizedNode, condition_level) or one of the documented semantic rewrites, each reachable only '
    'under its guard (string simplification under simplify_string_literals; files([..]) flattening only for `files` with exactly one '
    'positional array argument and no keyword; argument sorting only for `files` under sort_files; a trailing comma is appended only '
    'when absent and popped only when present, last position); R2 the triple-quoted->plain rewrite is unreachable for every value '
    'whose meaning differs in a plain literal - hazards derived from the lexer `string` token regex, the lexer newline diagnostic and '
    'ESCAPE_SEQUENCE_SINGLE_RE - and the f-string->plain rewrite is unreachable for a value matching the interpreter substitution '
    'regex; R3 every statement that discards whitespace content (fresh value, `= None`, popped comma, replaced argument list) is '
    'unreachable when the discarded owner holds a comment, or the content was moved/re-appended first, or a checked justification '
    'applies (the dedent helper must be a suffix removal also for an empty indentation unit); where the whitespace text is cut into '
    'pieces that are trimmed (strip family) before they are re-appended, every cut character of the splitter (str.splitlines: its '
    'documented boundary table; str.split(C): C) must be one that no match of the lexer `comment` token regex can contain, otherwise the '
    'character and the blanks next to it vanish from the comment text; R4 in run() the check-mode status is '
    'set iff the text read differs from the text that would be written, every sink receives the formatter output unchanged, and the '
    'loop over the sources stops early only after a difference was recorded; R5 no path sorts an argument list and then replaces it '
    '(the installed files() arguments would stay unsorted until the next run); R6 the printer emits the undecoded token text of a plain '
    'literal; R7 every option of the configuration tables is read with the getter of its declared type and has a default of that type. '
    'R2 also requires that a visit performing one of the two literal simplifications has consulted the flag of the other one '
    '(otherwise a literal qualifying for both needs two runs). '
    'R8 every whitespace mover call that moves the trivia of a child onto the visited node takes it from a child the printer (RawPrinter, '
    'traversal resolved through its MRO and delegations) can emit last for that node class, so trivia is never re-emitted behind later '
    'children (opening instead of closing bracket, first instead of last element, inherited traversal reordered at its end); R9 inside a '
    'mover every store into a field of the destination whitespace that visit_WhitespaceNode reads (text, continuation flag) precedes the '
    're-normalising visit of that whitespace in the CFG. R2 reads the lexer regex table by role (the table Lexer.lex iterates and matches '
    'with), through module/class constants, splices, +, append/extend/+=, conditional arms and expression-bodied helpers. '
    'Guards are decided as branch atoms in the world a counter-hypothesis describes (a representative of the input class is used only '
    'to give the atoms of a guard a truth value; no statement sequence or method body is interpreted, values computed by the code are '
    'never propagated). The atom `X.escape() == X.value` of a triple-quoted literal X is read from the shape of StringNode.escape (a regex '
    'substitution over the undecoded text: true iff the escape regex has no match inside the value - which says nothing about a backslash '
    'that ends the text). `P.sub(repl, s)` on a compiled pattern (local, memoised module helper) is read as `re.sub(pattern, repl, s)`; a '
    'traversal method bound at class level to another def or to the closure of a module-level factory called with constants is read as that def. '
    'Does NOT decide: idempotence beyond the R9 ordering clause, the order of the inherited FullAstVisitor traversal except for its last child '
    '(the full textual order of every field is C02.R3), moves onto a child instead of the visited node (empty array), the five-round fixpoint, line-splitting layout, newline translation of '
    '--check-only (CRLF input with end_of_line=lf compares equal yet --inplace rewrites: depends on file contents), the f-string test '
    'for a triple-quoted f-string that is simplified in the same visit (its value is re-derived by escape() before the test), whether a '
    'backslash continuation keeps its newline inside brackets (needs the value correlation between the per-line comment table and the '
    'line text), the interplay no_single_comma_function / trailing-comma-means-multiline across two runs, and the order in which '
    'comments travel with sorted files() arguments (documented behaviour), and text *inserted* at a piece boundary of a splitlines() cut '
    'whose pieces are re-appended untrimmed (ArgumentFormatter.visit_WhitespaceNode puts the indentation before a piece that contains `#`: '
    'after a form feed inside a comment whose rest holds a `#` - reachable only once TrimWhitespaces keeps that character).')
ASSUMPTIONS = [
    'the parser attaches trivia (comments, blanks) only to token-level nodes; composite nodes (ArrayNode, ArgumentNode) receive '
    'whitespace only through the formatter own move_whitespaces, so replacing a composite drops only what its symbol tokens own',
    'indent_by / indent_before_comments are whitespace-only strings, possibly empty (documented as indentation)',
    'a comment token runs to the end of its line, so whitespace that holds a comment holds a newline after it',
    'len(ArgumentNode.colons) == len(ArgumentNode.kwargs) (asserted by FullAstVisitor.visit_ArgumentNode)',
    'str methods, len, any/all and the re module behave as documented (str.splitlines cuts exactly at its documented boundary table; '
    'strip() without argument removes str.isspace characters)',
    'the replacement callback of StringNode.escape never maps an escape sequence to its own spelling (escape() == value iff no match)',
]
TECHNIQUE = ('who-may-write classification by node types resolved from annotations; path enumeration with guard atoms decided three-valued in '
             'counter-hypothesis worlds (truth atoms, canonical trailing-comma atom, declared node classes); CFG must-pass; decision table '
             '(sa.tables) for check mode; regex-language facts (sa.rx) for the literal hazards; last-emitted-child sets folded over the printer traversal '
             'statements (role designators, no execution); CFG reachability visit -> store in the movers')

COMMENT_SAMPLES = ['  # c\n', '# c\n    ', '\n# c\n']
LAYOUT_ATTRS = {'whitespaces', 'pre_whitespaces', 'condition_level'}


# ---------------------------------------------------------------------------
# discovery of the formatter passes

class Pass(T.NamedTuple):
    mod: Module
    name: str
    cls: ast.ClassDef


def _visitor_classes(ctx: RuleCtx, mod: Module) -> T.List[Pass]:
    out = []
    for q, c in mod.classes().items():
        if '.' in q or '#' in q:
            continue
        if any(x[1].name == 'AstVisitor' for x in ctx.repo.mro(mod, c)):
            out.append(Pass(mod, q, c))
    return out


def _format_scope(ctx: RuleCtx) -> T.List[T.Tuple[str, ast.FunctionDef]]:
    """Formatter.format and the Formatter methods it delegates to (`self._helper(...)`, two levels)."""
    mod = ctx.repo.module(MF)
    out: T.List[T.Tuple[str, ast.FunctionDef]] = [('Formatter.format', mod.func('Formatter.format'))]
    meths = mod.methods('Formatter')
    frontier = [out[0][1]]
    for _ in range(2):
        nxt = []
        for f in frontier:
            for c in ast.walk(f):
                if isinstance(c, ast.Call) and isinstance(c.func, ast.Attribute) and attr_chain(c.func.value) == 'self' and c.func.attr in meths:
                    g = meths[c.func.attr]
                    if all(g is not x[1] for x in out):
                        out.append((f'Formatter.{c.func.attr}', g))
                        nxt.append(g)
        frontier = nxt
    return out


def _accept_classes(fn: ast.AST, c: ast.Call) -> T.Optional[T.List[str]]:
    """Dotted class names of `<tree>.accept(X(...))`, in running order: X a class, a single-definition local bound to the
    instance, or the variable of a `for X in (A, B, ...)` loop over a display of classes (also through a local)."""
    if not (isinstance(c.func, ast.Attribute) and c.func.attr == 'accept' and len(c.args) == 1):
        return None

    def single_def(name: str) -> T.Optional[ast.AST]:
        defs = [n.value for n in ast.walk(fn) if isinstance(n, (ast.Assign, ast.AnnAssign)) and n.value is not None
                and any(isinstance(t, ast.Name) and t.id == name for t in (n.targets if isinstance(n, ast.Assign) else [n.target]))]
        return defs[0] if len(defs) == 1 else None
    a = c.args[0]
    if isinstance(a, ast.Name):
        d = single_def(a.id)
        if d is None:
            return None
        a = d
    if not isinstance(a, ast.Call):
        return None
    f = a.func
    if isinstance(f, ast.Name):
        loops = [n for n in ast.walk(fn) if isinstance(n, ast.For) and isinstance(n.target, ast.Name) and n.target.id == f.id
                 and any(x is c for x in ast.walk(n))]
        if loops:
            it = loops[0].iter
            if isinstance(it, ast.Name):
                it = single_def(it.id) or it
            if isinstance(it, (ast.Tuple, ast.List)) and all(attr_chain(e) is not None for e in it.elts):
                return [attr_chain(e) or '' for e in it.elts]
            return None
    nm = attr_chain(f)
    return [nm] if nm is not None else None


def _accept_class(fn: ast.AST, c: ast.Call) -> T.Optional[str]:
    r = _accept_classes(fn, c)
    return r[0] if r and len(r) == 1 else None


def _passes(ctx: RuleCtx) -> T.List[Pass]:
    """Visitor classes of mformat.py plus every class instantiated as argument of `.accept(...)` in Formatter.format
    (or in the private methods it delegates to)."""
    mod = ctx.repo.module(MF)
    found = {p.name: p for p in _visitor_classes(ctx, mod)}
    for qn, fn in _format_scope(ctx):
        for c in ast.walk(fn):
            if isinstance(c, ast.Call) and isinstance(c.func, ast.Attribute) and c.func.attr == 'accept' and len(c.args) == 1:
                nms = _accept_classes(fn, c)
                if not nms:
                    raise Undecided(f'{qn}: visitor handed to accept() is not a constructor call: {short(c)}')
                for nm in nms:
                    r = ctx.repo.resolve_class(mod, nm)
                    if r is None:
                        raise Undecided(f'{qn}: visitor class {nm} not found in the repository')
                    found.setdefault(r[1].name, Pass(r[0], r[1].name, r[1]))
    return list(found.values())


class _Inline:
    """Context: while methods of pass p are analysed, calls of expression-bodied helpers of p (or of its module) are inlined."""
    def __init__(self, ctx: RuleCtx, p: Pass):
        self.ctx, self.p = ctx, p
        self.cache: T.Dict[str, T.Any] = {}

    def resolve(self, c: ast.Call) -> T.Optional[ast.AST]:
        from . import c16_sym
        f = c.func
        fn: T.Optional[ast.AST] = None
        skip = False
        if isinstance(f, ast.Attribute) and attr_chain(f.value) in ('self', 'cls', self.p.name):
            r = self.ctx.repo.find_method(self.p.mod, self.p.cls, f.attr)
            if r is not None:
                fn = r[2]
                decos = [attr_chain(d) for d in fn.decorator_list]
                skip = 'staticmethod' not in decos
                if 'property' in decos:
                    return None
        elif isinstance(f, ast.Name) and self.p.mod.has_func(f.id):
            fn = self.p.mod.func(f.id)
        elif isinstance(f, ast.Attribute) and isinstance(f.value, ast.Name) and self.p.mod.has_cls(f.value.id) and self.p.mod.has_func(f'{f.value.id}.{f.attr}'):
            fn = self.p.mod.func(f'{f.value.id}.{f.attr}')          # Other.helper(..): a classmethod / staticmethod of another class
            decos = [attr_chain(d) for d in fn.decorator_list]
            if 'classmethod' in decos:
                e = c16_sym.inline_call(fn, c, True)
                return subst(e, {fn.args.args[0].arg: ast.Name(id=f.value.id, ctx=ast.Load())}) if e is not None and fn.args.args else None
            if 'staticmethod' not in decos:
                return None
        if fn is None:
            return None
        return c16_sym.inline_call(fn, c, skip)

    def const(self, e: ast.AST) -> T.Any:
        """Folded value of a module constant / class constant of the pass (policy form a), UNKNOWN otherwise."""
        from . import c16_sym
        k = norm(e)
        if k in self.cache:
            return self.cache[k]
        val: T.Any = c16_sym.UNKNOWN
        try:
            if isinstance(e, ast.Name) and self.p.mod.has_assign(e.id):
                val = fold_expr(self.ctx.repo, self.p.mod, self.p.mod.assign_value(e.id))
            elif isinstance(e, ast.Attribute) and attr_chain(e.value) in ('self', 'cls', self.p.name):
                for m, c in self.ctx.repo.mro(self.p.mod, self.p.cls):
                    if m.has_assign(e.attr, c):
                        val = fold_expr(self.ctx.repo, m, m.assign_value(e.attr, c), cls=None)
                        break
        except Exception:
            val = c16_sym.UNKNOWN
        if not isinstance(val, (str, int, bool, tuple, list, set, frozenset, dict)):
            val = c16_sym.UNKNOWN
        self.cache[k] = val
        return val

    def use(self) -> None:
        from . import c16_sym
        c16_sym.INLINER = self.resolve
        c16_sym.CONSTS = self.const

    def __enter__(self) -> '_Inline':
        from . import c16_sym
        self.prev = c16_sym.INLINER
        c16_sym.INLINER = self.resolve
        return self

    def __exit__(self, *a: T.Any) -> None:
        from . import c16_sym
        c16_sym.INLINER = self.prev


def _methods(p: Pass) -> T.Dict[str, ast.FunctionDef]:
    return {st.name: st for st in p.cls.body if isinstance(st, ast.FunctionDef)}


def _node_mutators(model: NodeModel) -> T.Set[str]:
    """Names of methods of the node classes that write to the node (prepend, set_kwarg, append_whitespaces...)."""
    out: T.Set[str] = set()
    for c in model.classes.values():
        for st in c.body:
            if isinstance(st, ast.FunctionDef) and not st.name.startswith('__'):
                if any(root_name(w.obj) == 'self' for w in collect_writes(st) if w.obj is not None):
                    out.add(st.name)
    return out


# ---------------------------------------------------------------------------
# R1: who may write what

def _components(e: T.Optional[ast.AST]) -> T.List[str]:
    out = []
    while isinstance(e, (ast.Attribute, ast.Subscript)):
        if isinstance(e, ast.Attribute):
            out.append(e.attr)
        e = e.value
    return out


def _extra_calls(fn: ast.AST, names: T.Set[str]) -> T.List[Write]:
    out = []
    for n in ast.walk(fn):
        if isinstance(n, ast.Call) and isinstance(n.func, ast.Attribute) and n.func.attr in names and attr_chain(n.func.value) not in ('self', None) \
                and root_name(n.func.value) not in ('self', 'super'):
            from .c16_sym import stmt_of
            out.append(Write(stmt_of(fn, n), n, 'method:' + n.func.attr, n.func.value, '()', None))
    return out


def _normalise_write(w: Write) -> Write:
    """`x += [a]`, `x.extend([a])`, `x = x + [a]`, `x = [*x, a]`  ->  `x.append(a)` (one normal form for growing a list by one)."""
    def as_append(target: ast.AST, elt: ast.AST) -> Write:
        call = ast.Call(func=ast.Attribute(value=target, attr='append', ctx=ast.Load()), args=[elt], keywords=[])
        ast.copy_location(call, w.node)
        return Write(w.stmt, call, 'mutate:append', w.obj, w.attr, None)
    if w.obj is None:
        return w
    if w.kind == 'aug' and isinstance(w.value, (ast.List, ast.Tuple)) and len(w.value.elts) == 1 and not isinstance(w.value.elts[0], ast.Starred) \
            and isinstance(w.stmt, ast.AugAssign) and isinstance(w.stmt.op, ast.Add):
        return as_append(w.node, w.value.elts[0])
    if w.kind == 'mutate:extend' and isinstance(w.node, ast.Call) and len(w.node.args) == 1 and isinstance(w.node.args[0], (ast.List, ast.Tuple)) \
            and len(w.node.args[0].elts) == 1 and not isinstance(w.node.args[0].elts[0], ast.Starred):
        return as_append(w.node.func.value, w.node.args[0].elts[0])  # type: ignore[attr-defined]
    if w.kind == 'assign' and w.value is not None:
        v = w.value
        if isinstance(v, ast.BinOp) and isinstance(v.op, ast.Add) and norm(v.left) == norm(w.node) and isinstance(v.right, (ast.List, ast.Tuple)) and len(v.right.elts) == 1:
            return as_append(w.node, v.right.elts[0])
        if isinstance(v, ast.List) and len(v.elts) == 2 and isinstance(v.elts[0], ast.Starred) and norm(v.elts[0].value) == norm(w.node) and not isinstance(v.elts[1], ast.Starred):
            return as_append(w.node, v.elts[1])
    return w


def classify(w: Write, ty: Typer, model: NodeModel, fn: ast.AST) -> T.Tuple[str, str]:
    """-> (class, detail); class in own | layout | sem:string | sem:flatten | sem:sort | sem:comma | bad."""
    if w.kind == 'setattr':
        raise Undecided(f'setattr/delattr in a formatter pass: {short(w.stmt)}')
    if w.obj is None:
        # mutation of a plain local: must be an object created in this function, not an alias of a node field
        def fresh(v: ast.AST) -> bool:
            if isinstance(v, ast.IfExp):
                return fresh(v.body) and fresh(v.orelse)
            return isinstance(v, (ast.Call, ast.List, ast.ListComp, ast.Dict, ast.Set, ast.Constant, ast.BinOp, ast.JoinedStr, ast.Tuple, ast.DictComp, ast.SetComp))
        for kind, v in ty.defs.get(w.attr, []):
            if kind == 'ann' or (kind == 'val' and fresh(v)):
                continue
            raise Undecided(f'mutation through local `{w.attr}` that may alias a node field: {short(w.stmt)}')
        if w.attr in ty.params:
            raise Undecided(f'mutation of parameter `{w.attr}`: {short(w.stmt)}')
        return 'own', 'local object'
    root = root_name(w.obj)
    if attr_chain(w.obj) == 'self':
        return 'own', 'visitor state'
    comps = _components(w.obj)
    if w.kind.startswith('method:'):
        if w.kind == 'method:append_whitespaces':
            return 'layout', 'append_whitespaces'
        types = ty.of(w.obj)
        if types and all(t in model.classes for t in types):
            if all(model.is_sub(t, 'WhitespaceNode') for t in types):
                return 'layout', 'whitespace node method'
            return 'bad', f'calls mutating node method {w.kind[7:]}() on {"/".join(sorted(types))}'
        return 'own', 'not a node'
    if w.attr in LAYOUT_ATTRS and w.kind in ('assign', 'aug'):
        return 'layout', w.attr
    if 'whitespaces' in comps or 'pre_whitespaces' in comps:
        return 'layout', 'field of a whitespace node'
    types = ty.of(w.obj)
    if root == 'self':
        if all(t in model.classes for t in types):
            pass
        elif w.kind.startswith('mutate') and len(comps) == 1:
            return 'own', 'visitor state'
        else:
            raise Undecided(f'write through visitor state of unknown type: {short(w.stmt)}')
    if not types or any(t not in model.classes for t in types):
        raise Undecided(f'cannot resolve the type of `{short(w.obj)}` written by {short(w.stmt)}')
    if all(model.is_sub(t, 'WhitespaceNode') for t in types):
        return 'layout', 'field of a whitespace node'
    verdicts = set()
    for t in types:
        if w.attr == 'is_multiline' and w.kind == 'assign' and (model.is_sub(t, 'ArgumentNode') or model.is_sub(t, 'ParenthesizedNode')):
            verdicts.add('layout')
        elif model.is_sub(t, 'StringNode') and w.attr in ('is_multiline', 'value', 'is_fstring') and w.kind == 'assign':
            verdicts.add('sem:string')
        elif model.is_sub(t, 'FunctionNode') and w.attr == 'args' and w.kind == 'assign':
            verdicts.add('sem:flatten')
        elif model.is_sub(t, 'ArgumentNode') and w.attr == 'arguments' and w.kind == 'mutate:sort':
            verdicts.add('sem:sort')
        elif model.is_sub(t, 'ArgumentNode') and w.attr == 'commas' and w.kind in ('mutate:append', 'mutate:pop'):
            verdicts.add('sem:comma')
        else:
            verdicts.add('bad')
    if len(verdicts) != 1:
        raise Undecided(f'write {short(w.stmt)} is layout for some receiver types and semantic for others: {sorted(types)}')
    v = verdicts.pop()
    return v, f'{"/".join(sorted(types))}.{w.attr}'


def _is_access_path(text: str) -> bool:
    try:
        e = ast.parse(text, mode='eval').body
    except SyntaxError:
        return False
    while isinstance(e, (ast.Attribute, ast.Subscript)):
        e = e.value
    return isinstance(e, ast.Name)


def _fresh_comma(ctx: RuleCtx, p: Pass, vals: T.Set[str]) -> str:
    """'fresh' (a new SymbolNode whose token text is `,`), a description of what is wrong, or 'unknown'."""
    from .c16_sym import bind_args
    if len(vals) != 1:
        return 'unknown'
    e: ast.AST = ast.parse(next(iter(vals)), mode='eval').body
    if isinstance(e, ast.Call) and (attr_chain(e.func) or '').split('.')[-1] != 'SymbolNode':
        e = _Inline(ctx, p).resolve(e) or e         # a factory helper: x = SymbolNode(...); x.f = ...; return x
    if isinstance(e, ast.IfExp):
        vs = [_fresh_comma(ctx, p, {norm(b)}) for b in (e.body, e.orelse)]
        bad = [v for v in vs if v not in ('fresh', 'unknown')]
        return bad[0] if bad else ('unknown' if 'unknown' in vs else 'fresh')
    if _is_access_path(norm(e)):
        return 'an existing node of the tree is inserted a second time' if isinstance(e, (ast.Attribute, ast.Subscript)) else 'unknown'
    if not (isinstance(e, ast.Call) and (attr_chain(e.func) or '').split('.')[-1] == 'SymbolNode'):
        return 'unknown'
    mp = ctx.repo.module(MP)
    tokarg = e.args[0] if e.args else next((k.value for k in e.keywords if k.arg == 'token'), None)
    if isinstance(tokarg, ast.Call) and (attr_chain(tokarg.func) or '').split('.')[-1] != 'Token':
        tokarg = _Inline(ctx, p).resolve(tokarg) or tokarg       # the token is built by a module helper
    if not (isinstance(tokarg, ast.Call) and (attr_chain(tokarg.func) or '').split('.')[-1] == 'Token'):
        return 'unknown'
    fields = [st.target.id for st in mp.cls('Token').body if isinstance(st, ast.AnnAssign) and isinstance(st.target, ast.Name)]
    fake = ast.FunctionDef(name='Token', args=ast.arguments(posonlyargs=[], args=[ast.arg(arg=f) for f in fields], kwonlyargs=[], kw_defaults=[], defaults=[]),
                           body=[], decorator_list=[])
    m = bind_args(fake, tokarg, False)
    if m is None or 'value' not in m or 'tid' not in m:
        return 'unknown'
    v = m['value']
    if not isinstance(v, ast.Constant):
        return 'unknown'
    return 'fresh' if v.value == ',' else f'its token text is {v.value!r}, not a comma'


def _first_param(fn: ast.FunctionDef) -> str:
    ps = [a.arg for a in fn.args.args if a.arg not in ('self', 'cls')]
    if not ps:
        raise Undecided(f'{fn.name}: no node parameter')
    return ps[0]


def _callers(p: Pass, fn: ast.FunctionDef) -> T.List[T.Tuple[ast.FunctionDef, ast.Call, bool]]:
    out = []
    for g in _methods(p).values():
        if g is fn:
            continue
        for c in ast.walk(g):
            if isinstance(c, ast.Call) and isinstance(c.func, ast.Attribute) and c.func.attr == fn.name and attr_chain(c.func.value) in ('self', 'cls', p.name):
                out.append((g, c, attr_chain(c.func.value) != p.name and 'staticmethod' not in [attr_chain(d) for d in fn.decorator_list]))
    return out


def creach(ctx: RuleCtx, p: Pass, fn: ast.FunctionDef, site: T.Optional[ast.stmt], hyp: Hyp, depth: int = 0, **kw: T.Any) -> T.List[Reach]:
    """reach() in the context of the callers: a statement of a private helper (a block extracted from a visitor method, a guard left
    in the caller) is reachable under a hypothesis only if some call site of the helper is reachable under the translated hypothesis."""
    from .c16_sym import bind_args, stmt_of
    rs = reach(fn, site, hyp, **kw)
    if rs and site is not None:
        wrappers = [attr_chain(d.func if isinstance(d, ast.Call) else d) or short(d) for d in fn.decorator_list]
        opaque_w = [w for w in wrappers if w.split('.')[-1] not in ('staticmethod', 'classmethod', 'property', 'wraps', 'override', 'final', 'lru_cache', 'cache')]
        if opaque_w:
            # a decorator may factor out the guard (`@_only_when(...)`): the body alone does not show when it runs
            raise Undecided(f'{p.name}.{fn.name} is wrapped by `@{opaque_w[0]}`, which may hold the guard of `{short(site, 60)}`')
    if not rs or depth >= 2:
        return rs
    if fn.name.startswith('visit_') or fn.name in ('enter_node', 'exit_node', '__init__', 'visit_default_func'):
        return rs                                   # entry points of the visitor protocol
    callers = _callers(p, fn)
    if not callers:
        return rs

    class _Rename(ast.NodeTransformer):
        """caller access path -> callee parameter name (so that caller expressions speak the callee's language)"""
        def __init__(self, back: T.Dict[str, str]):
            self.back = back

        def generic_visit(self, n: ast.AST) -> ast.AST:
            if isinstance(n, (ast.Name, ast.Attribute, ast.Subscript)) and norm(n) in self.back:
                return ast.Name(id=self.back[norm(n)], ctx=ast.Load())
            return super().generic_visit(n)
    out: T.List[Reach] = []
    kw2 = {k: v for k, v in kw.items() if k not in ('observer', 'init_binds')}
    for g, call, skip in callers:
        m = bind_args(fn, call, skip)
        if m is None:
            return rs

        def tr(d: T.Dict[str, T.Any]) -> T.Optional[T.Dict[str, T.Any]]:
            res = {}
            for k, v in d.items():
                try:
                    e = ast.parse(k, mode='eval').body
                except SyntaxError:
                    return None
                names = {n.id for n in ast.walk(e) if isinstance(n, ast.Name)} - {'self', 'ANY', 'mparser', 'len', 'isinstance'}
                if not names <= set(m):
                    return None                     # the hypothesis speaks about something that is not a parameter
                res[norm(subst(e, m))] = v
            return res
        st2, vo2 = (tr(hyp.stable), tr(hyp.volatile)) if hyp.atoms is None else ({}, {})
        if st2 is None or vo2 is None:
            return rs
        # paths of the caller up to the call, under the translated hypothesis (none if it cannot be translated)
        for rc in creach(ctx, p, g, stmt_of(g, call), Hyp(st2, vo2, hyp.label), depth + 1, **kw2):
            back = {norm(subst(v, rc.binds)): k for k, v in m.items() if _is_access_path(norm(subst(v, rc.binds)))}
            init = {k: _Rename(back).visit(copy.deepcopy(subst(v, rc.binds))) for k, v in m.items()
                    if not _is_access_path(norm(subst(v, rc.binds)))}
            init = {k: v for k, v in init.items() if not any(isinstance(x, ast.Name) and x.id == k for x in ast.walk(v))}
            # only plain values (flags, counts) are replaced; a parameter the callee dereferences stays a name of its own
            deref = {x.value.id for x in ast.walk(fn) if isinstance(x, (ast.Attribute, ast.Subscript)) and isinstance(x.value, ast.Name)}
            init = {k: v for k, v in init.items() if k not in deref}
            out.extend(reach(fn, site, hyp, init_binds=init, **kw))
    return out


def _type_hook(model: NodeModel, types: T.Dict[str, str]) -> T.Callable[[ast.Call, T.Any], T.Any]:
    """isinstance()/hasattr() on an expression whose node class is part of the hypothesis, decided on the node model."""
    from .c16_sym import UNKNOWN

    def calls(c: ast.Call, ev: T.Any) -> T.Any:
        if isinstance(c.func, ast.Name) and c.func.id in ('isinstance', 'hasattr') and len(c.args) == 2 and norm(c.args[0]) in types:
            t = types[norm(c.args[0])]
            if c.func.id == 'isinstance':
                cands = c.args[1].elts if isinstance(c.args[1], ast.Tuple) else [c.args[1]]
                names = [(attr_chain(x) or '?').split('.')[-1] for x in cands]
                if all(n in model.classes for n in names):
                    return any(model.is_sub(t, n) for n in names)
            elif isinstance(c.args[1], ast.Constant) and isinstance(c.args[1].value, str):
                f = c.args[1].value
                meths = {st.name for cn in model.mro(t) for st in model.classes[cn].body if isinstance(st, ast.FunctionDef)}
                return f in model.fields(t) or f in meths or model.field_type(t, f) != '?'
        return UNKNOWN
    return calls


def _must_be_unreachable(ctx: RuleCtx, p: Pass, qn: str, fn: ast.FunctionDef, site: ast.stmt, hyp: Hyp, what: str, construct: str, msg: str,
                         calls: T.Optional[T.Callable[[ast.Call, T.Any], T.Any]] = None) -> bool:
    _Inline(ctx, p).use()
    rs = creach(ctx, p, fn, site, hyp, calls=calls)
    if not rs:
        ctx.ok(f'{qn}: {short(site, 60)} unreachable when {what}')
        return True
    unk = [u for r in rs for u in r.notes.get('unknown', [])]
    if unk:
        raise Undecided(f'{qn}: guard of `{short(site, 60)}` uses a test the evaluator does not understand: {unk[0]}')
    ctx.violation(p.mod, qn, construct, f'{msg} (reachable when {what}, on path: {rs[0].describe()})', site)
    return False


def _canon_at(fn: ast.FunctionDef, site: ast.stmt, e: ast.AST) -> T.Set[str]:
    """Canonical texts of expression e at the site (local names replaced by what they are bound to on each path)."""
    return {norm(subst(e, r.binds)) for r in reach(fn, site, Hyp())}


def _trailing_atoms(x: str, present: bool) -> T.Callable[[ast.AST], T.Any]:
    """Truth of the canonical atoms about the trailing comma of argument list x in the world `present`:
    T := len(x.commas) == len(x.arguments) + len(x.kwargs) (either spelling/order, != negated); in the world where a
    trailing comma is present the list of commas is non-empty as well.  No numbers are involved."""
    from .c16_sym import UNKNOWN
    lc = f'len({x}.commas)'
    sums = {f'len({x}.arguments) + len({x}.kwargs)', f'len({x}.kwargs) + len({x}.arguments)'}
    if _LEN_IS_SUM:
        sums.add(f'len({x})')            # ArgumentNode.__len__ is the number of positional plus keyword arguments (read from mparser.py)

    def atoms(e: ast.AST) -> T.Any:
        if isinstance(e, ast.Compare) and len(e.ops) == 1:
            a, b = norm(e.left), norm(e.comparators[0])
            op = e.ops[0]
            if (a == lc and b in sums) or (b == lc and a in sums):
                if isinstance(op, ast.Eq):
                    return present
                if isinstance(op, ast.NotEq):
                    return not present
            if present and ((a == lc and b == '0' and isinstance(op, (ast.Gt, ast.NotEq))) or (b == lc and a == '0' and isinstance(op, (ast.Lt, ast.NotEq)))):
                return True
        if present and norm(e) in (f'{x}.commas', f'bool({x}.commas)', lc):
            return True
        if present and _LEN_IS_SUM and norm(e) in (x, f'bool({x})', f'len({x})'):
            return True                  # every world with a trailing comma has at least one argument
        return UNKNOWN
    return atoms


_LEN_IS_SUM = False


def _read_argnode_len(ctx: RuleCtx) -> None:
    """Does len(<ArgumentNode>) denote len(arguments) + len(kwargs)?  Read from ArgumentNode.__len__ and the helpers it calls."""
    global _LEN_IS_SUM
    from .c16_sym import helper_expression
    mp = ctx.repo.module(MP)
    _LEN_IS_SUM = False
    if not mp.has_func('ArgumentNode.__len__'):
        return

    def expand(e: ast.AST, depth: int = 0) -> ast.AST:
        class _T(ast.NodeTransformer):
            def visit_Call(self, c: ast.Call) -> ast.AST:
                c = T.cast(ast.Call, self.generic_visit(c))
                if isinstance(c.func, ast.Attribute) and attr_chain(c.func.value) == 'self' and not c.args and depth < 3 and mp.has_func(f'ArgumentNode.{c.func.attr}'):
                    he = helper_expression(mp.func(f'ArgumentNode.{c.func.attr}'))
                    if he is not None:
                        return expand(he, depth + 1)
                return c
        return _T().visit(copy.deepcopy(e))
    he = helper_expression(mp.func('ArgumentNode.__len__'))
    if he is not None:
        _LEN_IS_SUM = norm(expand(he)) in ('len(self.arguments) + len(self.kwargs)', 'len(self.kwargs) + len(self.arguments)')


def trailing_hyps(x: str, present: bool) -> T.List[Hyp]:
    """Worlds over the truth atoms x.arguments / x.kwargs / x.commas and the trailing-comma atom."""
    if present:
        return [Hyp({f'{x}.arguments': True, f'{x}.kwargs': False}, label='a trailing comma is present (positional arguments only)', atoms=_trailing_atoms(x, True)),
                Hyp({f'{x}.arguments': True, f'{x}.kwargs': True}, label='a trailing comma is present (positional and keyword arguments)', atoms=_trailing_atoms(x, True)),
                Hyp({f'{x}.arguments': False, f'{x}.kwargs': True}, label='a trailing comma is present (keyword arguments only)', atoms=_trailing_atoms(x, True))]
    return [Hyp({f'{x}.commas': True}, label='commas only between arguments (no trailing comma)', atoms=_trailing_atoms(x, False)),
            Hyp({f'{x}.commas': False}, label='no comma at all', atoms=_trailing_atoms(x, False))]


def r1(ctx: RuleCtx) -> None:
    _read_argnode_len(ctx)
    model = NodeModel(ctx.repo)
    passes = _passes(ctx)
    ctx.floor('formatter pass classes', len(passes), 3)
    doc = ctx.repo.read(DOC)
    for opt in ('simplify_string_literals', 'sort_files'):
        if opt not in doc:
            raise Undecided(f'{DOC} no longer documents the option {opt}')
    node_mut = _node_mutators(model)
    n_own = n_layout = 0
    sem: T.List[T.Tuple[Pass, str, ast.FunctionDef, Write, str]] = []
    for p in passes:
        _Inline(ctx, p).use()
        for mname, fn in _methods(p).items():
            qn = f'{p.name}.{mname}'
            ty = Typer(model, p.mod, p.cls, fn, ctx.repo)
            for w in collect_writes(fn) + _extra_calls(fn, node_mut - {'append', 'accept'}):
                w = _normalise_write(w)
                kind, detail = classify(w, ty, model, fn)
                if kind == 'own':
                    n_own += 1
                elif kind == 'layout':
                    n_layout += 1
                    ctx.ok(f'{qn}: `{short(w.stmt, 70)}` writes layout state ({detail})', nontrivial=False)
                elif kind == 'bad':
                    ctx.violation(p.mod, qn, w.stmt, f'a formatter pass writes the semantic field {detail} ({w.kind}); only whitespace/layout state and the '
                                  'documented rewrites (string simplification, files() flattening/sorting, trailing comma) may be written', w.stmt)
                else:
                    sem.append((p, qn, fn, w, kind))
    ctx.note(f'{n_own} writes to visitor/local state, {n_layout} layout writes, {len(sem)} semantic write sites')
    ctx.floor('layout writes on tree nodes', n_layout, 10)
    ctx.floor('semantic write sites', len(sem), 3)
    sorters: T.Dict[T.Tuple[str, str], T.Tuple[Pass, ast.FunctionDef, str]] = {}
    for p, qn, fn, w, kind in sem:
        site = w.stmt
        if kind == 'sem:string':
            cfg_keys = {x for x in _config_reads(fn) if x.endswith('.simplify_string_literals')} or {'self.config.simplify_string_literals'}
            for ck in sorted(cfg_keys):
                _must_be_unreachable(ctx, p, qn, fn, site, Hyp({ck: False}), f'{ck} is off', norm(site),
                                     'string literal rewritten although simplify_string_literals is off')
        elif kind == 'sem:flatten':
            x = norm(w.obj)
            first = f'{x}.args.arguments[0]'
            arr = _type_hook(model, {first: 'ArrayNode'})
            hyps = [(Hyp({f'{x}.func_name.value': 'executable'}), 'the function is not files()', arr),
                    (Hyp({f'len({x}.args.arguments)': 2}), 'there are two positional arguments', arr),
                    (Hyp({f'len({x}.args.arguments)': 1, f'{x}.args.kwargs': True}), 'a keyword argument is present', arr)]
            for other in ('DictNode', 'StringNode', 'IdNode', 'FunctionNode', 'MethodNode', 'ArithmeticNode'):
                if other in model.classes:
                    hyps.append((Hyp({f'{x}.func_name.value': 'files', f'len({x}.args.arguments)': 1, f'{x}.args.kwargs': False}),
                                 f'the single argument is a {other}, not an array literal', _type_hook(model, {first: other})))
            for h, what, hook in hyps:
                _must_be_unreachable(ctx, p, qn, fn, site, h, what, norm(site), 'argument list replaced outside the documented files([...]) flattening', hook)
            vals = _canon_at(fn, site, w.value) if w.value is not None else set()
            if vals != {f'{x}.args.arguments[0].args'} and not all(_is_access_path(v) for v in vals):
                raise Undecided(f'{qn}: the new argument list {sorted(vals)} is computed by code the rule does not follow')
            ctx.require(vals == {f'{x}.args.arguments[0].args'}, f'{qn}: flattening installs the elements of the single array argument', p.mod, qn, norm(site),
                        f'the new argument list is {sorted(vals)}, expected the elements of the only argument ({x}.args.arguments[0].args)', site)
        elif kind == 'sem:sort':
            x = norm(w.obj)
            if x in [a.arg for a in fn.args.args]:
                sorters[(p.name, fn.name)] = (p, fn, x)
                ctx.ok(f'{qn}: sorts the positional arguments of its parameter `{x}`; guards are checked at every call site')
            else:
                _sort_guards(ctx, p, qn, fn, site, w.obj)
        elif kind == 'sem:comma':
            x = norm(w.obj)
            call = w.node
            assert isinstance(call, ast.Call)
            if w.kind == 'mutate:append':
                for h in trailing_hyps(x, True):
                    _must_be_unreachable(ctx, p, qn, fn, site, h, h.label, norm(site), 'a comma is appended although the list already ends with one (`a,,` does not parse)')
                vals = _canon_at(fn, site, call.args[0]) if len(call.args) == 1 else set()
                verdict = _fresh_comma(ctx, p, vals)
                if verdict == 'unknown':
                    raise Undecided(f'{qn}: cannot tell what `{short(site)}` appends ({sorted(vals)}): neither a constructor call nor an existing node')
                ctx.require(verdict == 'fresh', f'{qn}: the appended node is a fresh `,` symbol', p.mod, qn, norm(site),
                            f'the appended comma is {sorted(vals)}: {verdict}', site)
            else:
                idx = call.args[0] if call.args else ast.Constant(value=-1)
                ok_idx = (isinstance(idx, ast.UnaryOp) and isinstance(idx.op, ast.USub) and isinstance(idx.operand, ast.Constant) and idx.operand.value == 1) \
                    or (isinstance(idx, ast.Constant) and idx.value == -1)
                if not ok_idx and not isinstance(idx, ast.Constant):
                    raise Undecided(f'{qn}: `{short(site)}` pops a comma at a computed position')
                ctx.require(ok_idx, f'{qn}: pops the last comma', p.mod, qn, norm(site), f'pops comma {norm(idx)}; only the trailing comma (last) may be removed', site)
                for h in trailing_hyps(x, False):
                    _must_be_unreachable(ctx, p, qn, fn, site, h, h.label, norm(site), 'a comma is popped although it separates two arguments')
    # call sites of the sorting helpers
    n_calls = 0
    for (cname, mname), (p0, f0, param) in sorters.items():
        for p in passes:
            for mn, fn in _methods(p).items():
                for c in ast.walk(fn):
                    if isinstance(c, ast.Call) and isinstance(c.func, ast.Attribute) and c.func.attr == mname and attr_chain(c.func.value) == 'self' \
                            and any(x[1].name == cname for x in ctx.repo.mro(p.mod, p.cls)):
                        from .c16_sym import stmt_of
                        n_calls += 1
                        from .c16_sym import bind_args
                        bound = bind_args(f0, c, True)
                        if bound is None or param not in bound:
                            raise Undecided(f'{p.name}.{mn}: cannot bind the arguments of `{short(c)}` to {cname}.{mname}')
                        _sort_guards(ctx, p, f'{p.name}.{mn}', fn, stmt_of(fn, c), bound[param])
    if sorters:
        ctx.floor('call sites of the argument-sorting helper', n_calls, 1)


def _config_reads(fn: ast.AST) -> T.Set[str]:
    out = set()
    for n in ast.walk(fn):
        c = attr_chain(n) if isinstance(n, ast.Attribute) else None
        if c and '.config.' in c:
            out.add(c)
    return out


def _sort_guards(ctx: RuleCtx, p: Pass, qn: str, fn: ast.FunctionDef, site: ast.stmt, arglist: ast.AST) -> None:
    vals = _canon_at(fn, site, arglist)
    if len(vals) != 1 or not next(iter(vals)).endswith('.args'):
        raise Undecided(f'{qn}: sorted argument list {sorted(vals)} is not `<function node>.args`')
    x = next(iter(vals))[:-len('.args')]
    _must_be_unreachable(ctx, p, qn, fn, site, Hyp({f'{x}.func_name.value': 'executable'}), 'the function is not files()', norm(site),
                         'positional arguments are sorted for a function other than files()')
    _must_be_unreachable(ctx, p, qn, fn, site, Hyp({'self.config.sort_files': False}), 'sort_files is off', norm(site),
                         'arguments of files() are sorted although sort_files is off')


# ---------------------------------------------------------------------------
# R2: literal simplification guards

def _token_table_sources(ctx: RuleCtx, mod: Module) -> T.Tuple[str, T.List[T.Tuple[ast.AST, T.Optional[ast.AST]]]]:
    """The ordered regex table of the lexer, by role: the iterable of the `for (tid, rx) in <table>:` loop of Lexer.lex whose
    body matches with the second loop variable.  Returns its spelling and the expressions that build it, each with the function
    it is written in: `self.X = e` / `self.X += e` / `self.X.append|extend|insert(e)` in the methods of Lexer, a class-level or
    module-level constant."""
    lex = mod.func('Lexer.lex')
    tables: T.List[ast.AST] = []

    def matches_with(scope: T.Iterable[ast.AST], rxvar: str) -> bool:
        return any(isinstance(c, ast.Call) and isinstance(c.func, ast.Attribute) and c.func.attr in ('match', 'fullmatch') and attr_chain(c.func.value) == rxvar
                   for sc in scope for c in ast.walk(sc))
    for fn0 in mod.methods('Lexer').values():            # the loop may live in a helper of the lexer, or be a generator expression
        for n in ast.walk(fn0):
            if isinstance(n, ast.For):
                tg, itx, scope = n.target, n.iter, list(n.body)
            elif isinstance(n, (ast.GeneratorExp, ast.ListComp)) and len(n.generators) == 1:
                g = n.generators[0]
                tg, itx, scope = g.target, g.iter, [n.elt] + list(g.ifs)
            else:
                continue
            if isinstance(tg, ast.Tuple) and len(tg.elts) == 2 and all(isinstance(e, ast.Name) for e in tg.elts) and matches_with(scope, tg.elts[1].id):  # type: ignore[attr-defined]
                if all(norm(itx) != norm(t) for t in tables):
                    tables.append(itx)
    if len(tables) != 1:
        raise Undecided(f'mparser.Lexer: {len(tables)} tables iterated as `for (tid, regex) in <table>` and matched with the loop variable; expected one')
    it = tables[0]
    while isinstance(it, ast.Call) and attr_chain(it.func) in ('list', 'tuple', 'iter') and len(it.args) == 1:
        it = it.args[0]
    key = attr_chain(it)
    if key is None:
        return norm(it), [(it, lex)]
    out: T.List[T.Tuple[ast.AST, T.Optional[ast.AST]]] = []
    cls = mod.cls('Lexer')
    if key.startswith(('self.', 'cls.', 'Lexer.')) and key.count('.') == 1:
        attr = key.split('.')[1]
        if mod.has_assign(attr, cls):
            out.append((mod.assign_value(attr, cls), None))
        for mn, fn in mod.methods('Lexer').items():
            for st in ast.walk(fn):
                tg: T.List[ast.AST] = []
                val: T.Optional[ast.AST] = None
                if isinstance(st, ast.Assign):
                    tg, val = list(st.targets), st.value
                elif isinstance(st, (ast.AnnAssign, ast.AugAssign)) and st.value is not None:
                    tg, val = [st.target], st.value
                elif isinstance(st, ast.Call) and isinstance(st.func, ast.Attribute) and st.func.attr in ('append', 'extend', 'insert') and st.args:
                    tg, val = [st.func.value], st.args[-1]
                    if st.func.attr != 'extend':
                        val = ast.List(elts=[val], ctx=ast.Load())
                if val is not None and any(attr_chain(t) == f'self.{attr}' for t in tg):
                    out.append((val, fn))
    elif '.' not in key and mod.has_assign(key):
        out.append((mod.assign_value(key), None))
    if not out:
        raise Undecided(f'mparser.Lexer: no definition of the token table `{key}` found')
    return key, out


def _token_table(ctx: RuleCtx) -> T.Dict[str, T.List[T.Any]]:
    """token id -> folded patterns of its entries in the lexer's regex table (policy form a: constant folding).  The table
    expression is read through displays, `*` splices, `+`, list()/tuple()/T.cast wrappers, module constants, single-definition
    locals, both arms of a conditional and expression-bodied helper functions (arguments substituted); a part that is none of
    these must fold as a whole to a sequence of (id, pattern) pairs, otherwise the rule is undecided."""
    from . import c16_sym
    mod = ctx.repo.module(MP)
    key, sources = _token_table_sources(ctx, mod)
    entries: T.Dict[str, T.List[T.Any]] = {}

    def fold_alts(e: ast.AST) -> T.List[T.Any]:
        if isinstance(e, ast.IfExp):
            try:
                return [fold_expr(ctx.repo, mod, e)]
            except Undecided:
                return fold_alts(e.body) + fold_alts(e.orelse)
        return [fold_expr(ctx.repo, mod, e)]

    def local_def(fn: T.Optional[ast.AST], name: str) -> T.Optional[ast.AST]:
        if fn is None:
            return None
        if name in [a.arg for a in fn.args.posonlyargs + fn.args.args + fn.args.kwonlyargs]:      # type: ignore[attr-defined]
            raise Undecided(f'mparser.Lexer: the token table `{key}` depends on the parameter `{name}`')
        defs = [n for n in ast.walk(fn) if isinstance(n, (ast.Assign, ast.AnnAssign, ast.AugAssign, ast.NamedExpr, ast.For, ast.comprehension))
                and any(isinstance(x, ast.Name) and x.id == name and isinstance(x.ctx, ast.Store) for t in
                        (n.targets if isinstance(n, ast.Assign) else [n.target]) for x in ast.walk(t))]
        if not defs:
            return None
        if len(defs) == 1 and isinstance(defs[0], (ast.Assign, ast.AnnAssign)) and defs[0].value is not None \
                and isinstance((defs[0].targets[0] if isinstance(defs[0], ast.Assign) else defs[0].target), ast.Name):
            return defs[0].value
        raise Undecided(f'mparser.Lexer: the local `{name}` that feeds the token table `{key}` is not a single plain definition')

    def whole(e: ast.AST) -> None:
        try:
            v = fold_expr(ctx.repo, mod, e)
        except Undecided as ex:
            raise Undecided(f'mparser.Lexer: part `{short(e)}` of the token table `{key}` is not read: {ex}')
        if isinstance(v, dict):
            v = list(v.items())
        if not isinstance(v, (list, tuple)) or not all(isinstance(p, (list, tuple)) and len(p) == 2 and isinstance(p[0], str) for p in v):
            raise Undecided(f'mparser.Lexer: part `{short(e)}` of the token table `{key}` does not fold to (id, pattern) pairs')
        for tid, pat in v:
            entries.setdefault(tid, []).append(pat)

    def expand(e: ast.AST, fn: T.Optional[ast.AST], depth: int) -> None:
        if depth > 8:
            raise Undecided(f'mparser.Lexer: the token table `{key}` is nested too deeply to read')
        if isinstance(e, ast.Tuple) and len(e.elts) == 2 and isinstance(e.elts[0], ast.Constant) and isinstance(e.elts[0].value, str) \
                and not isinstance(e.elts[1], ast.Starred):
            v = e.elts[1]
            try:                                  # an entry whose pattern is not constant is kept as None: only a requested class must fold
                if isinstance(v, ast.Name):
                    v = local_def(fn, v.id) or v
                alts = fold_alts(v)
            except Undecided:
                alts = [None]
            entries.setdefault(e.elts[0].value, []).extend(alts)
        elif isinstance(e, (ast.List, ast.Tuple)):
            for x in e.elts:
                expand(x.value if isinstance(x, ast.Starred) else x, fn, depth + 1)
        elif isinstance(e, ast.BinOp) and isinstance(e.op, ast.Add):
            expand(e.left, fn, depth + 1)
            expand(e.right, fn, depth + 1)
        elif isinstance(e, ast.IfExp):
            expand(e.body, fn, depth + 1)
            expand(e.orelse, fn, depth + 1)
        elif isinstance(e, ast.Name):
            d = local_def(fn, e.id)
            if d is not None:
                expand(d, fn, depth + 1)
            elif mod.has_assign(e.id):
                expand(mod.assign_value(e.id), None, depth + 1)
            else:
                whole(e)
        elif isinstance(e, ast.Attribute) and attr_chain(e.value) in ('self', 'cls', 'Lexer') and mod.has_assign(e.attr, mod.cls('Lexer')) \
                and not any(isinstance(n, ast.Attribute) and isinstance(n.ctx, ast.Store) and n.attr == e.attr for n in ast.walk(mod.cls('Lexer'))):
            expand(mod.assign_value(e.attr, mod.cls('Lexer')), None, depth + 1)       # a class-level constant that no method rebinds
        elif isinstance(e, ast.Call):
            cn = attr_chain(e.func) or ''
            if cn in ('list', 'tuple') and len(e.args) == 1 and not e.keywords:
                expand(e.args[0], fn, depth + 1)
            elif cn in ('T.cast', 'typing.cast') and len(e.args) == 2:
                expand(e.args[1], fn, depth + 1)
            else:
                callee: T.Optional[ast.AST] = None
                skip = False
                if isinstance(e.func, ast.Name) and mod.has_func(e.func.id):
                    callee = mod.func(e.func.id)
                elif isinstance(e.func, ast.Attribute) and attr_chain(e.func.value) in ('self', 'cls', 'Lexer') and mod.has_func(f'Lexer.{e.func.attr}'):
                    callee = mod.func(f'Lexer.{e.func.attr}')
                    skip = 'staticmethod' not in [attr_chain(d) for d in callee.decorator_list]        # type: ignore[attr-defined]
                    if attr_chain(e.func.value) == 'Lexer' and skip and 'classmethod' not in [attr_chain(d) for d in callee.decorator_list]:  # type: ignore[attr-defined]
                        callee = None
                if callee is None:
                    whole(e)
                    return
                # arguments are substituted into the helper's expression; an argument that is a local of the caller is resolved first
                args_fn = fn
                call = copy.deepcopy(e)
                for holder in [call.args, call.keywords]:
                    for i, a in enumerate(holder):
                        v = a.value if isinstance(a, ast.keyword) else a
                        if isinstance(v, ast.Name):
                            d = local_def(args_fn, v.id)
                            if d is not None:
                                if isinstance(a, ast.keyword):
                                    a.value = d
                                else:
                                    holder[i] = d
                body = c16_sym.inline_call(callee, call, skip)
                if body is None:
                    raise Undecided(f'mparser.Lexer: the helper `{short(e.func)}` that builds the token table `{key}` is not a single expression')
                expand(body, None, depth + 1)
        else:
            whole(e)

    for e, fn in sources:
        expand(e, fn, 0)
    return entries


def _token_regex(ctx: RuleCtx, tid: str) -> Regex:
    alts = _token_table(ctx).get(tid, [])
    if not alts:
        raise Undecided(f'mparser.Lexer: token class {tid!r} not found in the regex table the lexer iterates over')
    if len(alts) != 1 or not isinstance(alts[0], Regex):
        raise Undecided(f'mparser.Lexer: token class {tid!r} has {len(alts)} table entries / a pattern that does not fold to a regex')
    return alts[0]


def _lexer_flagged_chars(ctx: RuleCtx) -> T.List[str]:
    """Characters the lexer diagnoses inside a plain string token (`if value.find(C) != -1: warning/raise`)."""
    mod = ctx.repo.module(MP)
    fn = mod.func('Lexer.lex')
    out: T.List[str] = []

    def mentions_string_tid(test: ast.AST) -> bool:
        if not any(isinstance(x, ast.Name) and x.id == 'tid' for x in ast.walk(test)):
            return False
        if any(isinstance(c, ast.Constant) and c.value == 'string' for c in ast.walk(test)):
            return True
        for x in ast.walk(test):             # `tid in SINGLE_LINE_STRINGS`: fold the constant the token id is compared with
            if isinstance(x, (ast.Name, ast.Attribute)) and norm(x) != 'tid':
                try:
                    v = fold_expr(ctx.repo, mod, x)
                except Exception:
                    continue
                if v == 'string' or (isinstance(v, (set, frozenset, tuple, list)) and 'string' in v):
                    return True
        return False
    for n in ast.walk(fn):
        if isinstance(n, ast.If) and mentions_string_tid(n.test):
            lb: T.Dict[str, ast.AST] = {}          # locals of the branch, by their (last) definition before the test
            for m in n.body:
                if isinstance(m, ast.Assign) and len(m.targets) == 1 and isinstance(m.targets[0], ast.Name):
                    lb[m.targets[0].id] = subst(m.value, lb)
                for i in ast.walk(m):
                    if not isinstance(i, ast.If):
                        continue
                    i = ast.If(test=subst(i.test, lb), body=i.body, orelse=i.orelse)
                    diag = any(isinstance(c, ast.Raise) or (isinstance(c, ast.Call) and (call_name(c) or '').split('.')[-1] in ('warning', 'deprecation', 'error'))
                               for s in i.body for c in ast.walk(s))
                    if not diag:
                        continue
                    for c in ast.walk(i.test):
                        if isinstance(c, ast.Call) and isinstance(c.func, ast.Attribute) and c.func.attr in ('find', 'count', 'index') and c.args \
                                and isinstance(c.args[0], ast.Constant) and isinstance(c.args[0].value, str):
                            out.append(c.args[0].value)
                        if isinstance(c, ast.Compare) and len(c.ops) == 1 and isinstance(c.ops[0], ast.In) and isinstance(c.left, ast.Constant) and isinstance(c.left.value, str):
                            out.append(c.left.value)
    return out


def _first_literals(items: T.Any) -> T.Set[str]:
    """First characters of the members of a regex whose every alternative starts with a literal (re._parser may have
    factored the common prefix out of the alternation)."""
    for op, av in items:
        name = str(op)
        if name == 'LITERAL':
            return {chr(av)}
        if name == 'SUBPATTERN':
            return _first_literals(av[3])
        if name == 'BRANCH':
            out: T.Set[str] = set()
            for b in av[1]:
                out |= _first_literals(b)
            return out
        raise Undecided(f'an alternative of ESCAPE_SEQUENCE_SINGLE_RE does not start with a literal ({name})')
    raise Undecided('ESCAPE_SEQUENCE_SINGLE_RE can match the empty string')


class Hazard(T.NamedTuple):
    char: str
    witness: str
    why: str


def _plain_hazards(ctx: RuleCtx) -> T.List[Hazard]:
    sre = _token_regex(ctx, 'string')
    mod = ctx.repo.module(MP)
    esc = fold_expr(ctx.repo, mod, mod.assign_value('ESCAPE_SEQUENCE_SINGLE_RE'))
    if not isinstance(esc, Regex):
        raise Undecided('ESCAPE_SEQUENCE_SINGLE_RE does not fold to a regex')
    hz: T.List[Hazard] = []
    # 1. characters that cannot stand alone in the body of a plain literal
    lone = [c for c in rx.alphabet(sre.pattern) if not rx.full_matches(sre.pattern, "'" + c + "'", sre.flags)]
    # 2. characters the lexer diagnoses
    flagged = _lexer_flagged_chars(ctx)
    # 3. first characters of the escape alternatives
    firsts = sorted(_first_literals(rx.parse(esc.pattern, esc.flags)))
    allc = sorted(set(lone) | set(flagged) | set(firsts))
    for c in lone:
        w = 'a' + c + 'b'
        if rx.full_matches(sre.pattern, "'" + w + "'", sre.flags):
            w = 'a' + c     # e.g. a backslash swallows the next character: put it last
        if rx.full_matches(sre.pattern, "'" + w + "'", sre.flags):
            raise Undecided(f'cannot build a witness for {c!r} against the string token regex')
        hz.append(Hazard(c, w, f"'{w}' is not a `string` token"))
    for c in flagged:
        hz.append(Hazard(c, 'a' + c + 'b', 'the lexer diagnoses this character inside a plain literal'))
    for c in sorted(set(firsts)):
        others = ''.join(re.escape(o) for o in allc if o != c)
        probe = re.escape(c) + (f'[^{others}]*' if others else '(.|\\n)*')
        w = rx.intersects(esc.pattern, probe, esc.flags, 0)
        if w is None:
            raise Undecided(f'no escape sequence starting with {c!r} that avoids the other hazard characters')
        hz.append(Hazard(c, 'a' + w + 'b', f'{w!r} is an escape sequence in a plain literal, literal text in a triple-quoted one'))
    return hz


def _fstring_regex(ctx: RuleCtx) -> str:
    """The substitution regex of f-strings, by role: the regex whose .sub() is applied in evaluate_fstring
    (inline `re.sub(pattern, ..)` or a compiled module/class constant)."""
    mod = ctx.repo.module(IB)
    fn = mod.func('InterpreterBase.evaluate_fstring')
    for c in ast.walk(fn):
        if isinstance(c, ast.Call) and isinstance(c.func, ast.Attribute) and c.func.attr in ('sub', 'subn') and c.args:
            try:
                if attr_chain(c.func.value) == 're':
                    v = fold_expr(ctx.repo, mod, c.args[0], cls='InterpreterBase')
                else:
                    v = fold_expr(ctx.repo, mod, c.func.value, cls='InterpreterBase') if attr_chain(c.func.value) not in (None,) and not (attr_chain(c.func.value) or '').startswith('self.') \
                        else fold_expr(ctx.repo, mod, ast.Name(id=(attr_chain(c.func.value) or '').split('.')[-1], ctx=ast.Load()), cls='InterpreterBase')
            except Undecided:
                continue
            if isinstance(v, str):
                return v
            if isinstance(v, Regex):
                return v.pattern
    raise Undecided('InterpreterBase.evaluate_fstring: substitution regex not found')


class _Differs:
    """The text `X.escape()` denotes when X.value holds an escape sequence: some string different from X.value (see ASSUMPTIONS)."""
    def __eq__(self, other: object) -> bool:
        return False

    def __ne__(self, other: object) -> bool:
        return True

    def __hash__(self) -> int:
        return 0


def _escape_hook(ctx: RuleCtx) -> T.Optional[T.Callable[[ast.Call, T.Any], T.Any]]:
    """Decides the atom `X.escape()` compared with X.value for the hypothesised triple-quoted literal X, from the shape of
    StringNode.escape: `REGEX.sub(callback, self.<text>)` with <text> the undecoded text, which for a triple-quoted literal is
    .value itself (the constructor stores token.value in both and re-derives .value only `if .. not self.is_multiline`).
    A substitution without a match is the identity (exact); with a match the result differs from the subject (ASSUMPTIONS: an
    escape sequence never denotes its own spelling).  Whether the regex matches inside the representative is a regex-language fact
    about a folded constant.  None when StringNode.escape is written in a shape this does not read."""
    from .c16_sym import helper_expression, UNKNOWN
    mod = ctx.repo.module(MP)
    if not (mod.has_func('StringNode.escape') and mod.has_func('StringNode.__init__') and mod.has_func('ElementaryNode.__init__')):
        return None
    e = helper_expression(mod.func('StringNode.escape'))
    if not (isinstance(e, ast.Call) and isinstance(e.func, ast.Attribute) and e.func.attr == 'sub' and len(e.args) == 2 and not e.keywords
            and norm(e.args[1]) in ('self.raw_value', 'self.value')):
        return None
    try:
        rgx = fold_expr(ctx.repo, mod, e.func.value)
    except Undecided:
        return None
    if not isinstance(rgx, Regex):
        return None
    init, base = mod.func('StringNode.__init__'), mod.func('ElementaryNode.__init__')

    def stores(fn: ast.AST, field: str) -> T.List[T.Tuple[ast.Assign, T.List[ast.AST]]]:
        out = []

        def rec(stmts: T.List[ast.stmt], tests: T.List[ast.AST]) -> None:
            for st in stmts:
                if isinstance(st, ast.Assign) and any(norm(t) == f'self.{field}' for t in st.targets):
                    out.append((st, list(tests)))
                elif isinstance(st, ast.If):
                    rec(st.body, tests + [st.test])
                    rec(st.orelse, tests + [ast.UnaryOp(op=ast.Not(), operand=st.test)])
                elif not isinstance(st, (ast.Expr, ast.Assign, ast.AnnAssign, ast.Pass)):
                    out.append((ast.Assign(targets=[], value=ast.Constant(value=None)), []))       # a compound statement that is not read
        rec(list(getattr(fn, 'body', [])), [])
        return out

    def conjuncts(t: ast.AST) -> T.List[str]:
        return [c for v in t.values for c in conjuncts(v)] if isinstance(t, ast.BoolOp) and isinstance(t.op, ast.And) else [norm(t)]
    tok = next((a.arg for a in init.args.args[1:2]), '')
    if norm(e.args[1]) == 'self.raw_value':
        raw = stores(init, 'raw_value')
        if len(raw) != 1 or raw[0][1] or norm(raw[0][0].value) != f'{tok}.value':
            return None
        btok = next((a.arg for a in base.args.args[1:2]), '')
        bval = stores(base, 'value')
        if len(bval) != 1 or bval[0][1] or norm(bval[0][0].value) != f'{btok}.value':
            return None
    for st, tests in stores(init, 'value'):
        if not any('not self.is_multiline' in conjuncts(t) for t in tests):
            return None
    flags = rgx.flags

    def hook(c: ast.Call, ev: T.Any) -> T.Any:
        f = c.func
        if not (isinstance(f, ast.Attribute) and f.attr == 'escape' and not c.args and not c.keywords):
            return UNKNOWN
        x = f.value
        val = ev.ev(ast.Attribute(value=x, attr='value', ctx=ast.Load()))
        ml = ev.ev(ast.Attribute(value=x, attr='is_multiline', ctx=ast.Load()))
        if not isinstance(val, str) or ml is not True:
            return UNKNOWN
        return _Differs() if re.search(rgx.pattern, val, flags) else val
    return hook


def r2(ctx: RuleCtx) -> None:
    model = NodeModel(ctx.repo)
    hz = _plain_hazards(ctx)
    esc_hook = _escape_hook(ctx)
    chars = sorted({h.char for h in hz})
    ctx.note(f'hazards of the plain literal form derived from lexer/parser: {[(h.char, h.witness) for h in hz]}')
    if len(chars) < 3:
        raise Undecided(f'only {len(chars)} hazard character(s) could be derived from the lexer and the escape regex ({chars}); the lexer is written '
                        'in a form the derivation does not read')
    ctx.note(f'hazard characters derived: {len(chars)}')
    # built-in positive example: a guard-less rewrite must be found reachable
    demo = ast.parse("def f(self, node):\n    if node.is_multiline and not any(x in node.value for x in ['q']):\n        node.is_multiline = False\n").body[0]
    assert isinstance(demo, ast.FunctionDef)
    dsite = demo.body[0].body[0]  # type: ignore[attr-defined]
    if not reach(demo, dsite, Hyp({'node.value': "a'b", 'node.is_multiline': True})) or reach(demo, dsite, Hyp({'node.value': 'aqb', 'node.is_multiline': True})):
        raise Undecided('self-check of the guard evaluator failed')
    fre = _fstring_regex(ctx)
    fw = rx.intersects(fre, fre)
    if fw is None:
        raise Undecided(f'no witness for the f-string substitution regex {fre!r}')
    n_ml = n_fs = 0
    both: T.Dict[T.Tuple[int, str], T.List[T.Any]] = {}
    for p in _passes(ctx):
        _Inline(ctx, p).use()
        for mname, fn in _methods(p).items():
            qn = f'{p.name}.{mname}'
            ty = Typer(model, p.mod, p.cls, fn, ctx.repo)
            for w in collect_writes(fn):
                if w.obj is None or w.kind != 'assign' or w.attr not in ('is_multiline', 'is_fstring') or attr_chain(w.obj) == 'self':
                    continue
                types = ty.of(w.obj)
                if not types or not all(t in model.classes and model.is_sub(t, 'StringNode') for t in types):
                    if any(t in model.classes and model.is_sub(t, 'StringNode') for t in types) or '?' in types:
                        raise Undecided(f'{qn}: cannot tell whether {short(w.stmt)} writes a StringNode')
                    continue
                x = norm(w.obj)
                if not (isinstance(w.value, ast.Constant) and w.value.value is False):
                    raise Undecided(f'{qn}: {short(w.stmt)} turns a literal into the multiline/f-string form; only simplification is understood')
                if w.attr == 'is_multiline':
                    n_ml += 1
                    both.setdefault((id(fn), x), [p, qn, fn, None, None])[3] = w.stmt
                    for c in chars:
                        bad: T.List[T.Tuple[Hazard, Reach]] = []
                        for h in [h for h in hz if h.char == c]:
                            rs = creach(ctx, p, fn, w.stmt, Hyp({f'{x}.value': h.witness, f'{x}.is_multiline': True}), calls=esc_hook)
                            unk = [u for r in rs for u in r.notes.get('unknown', [])]
                            if unk:
                                raise Undecided(f'{qn}: the guard of the literal rewrite uses a test the evaluator does not understand: {unk[0]}')
                            if rs:
                                bad.append((h, rs[0]))
                        if bad:
                            h, r = bad[0]
                            ctx.violation(p.mod, qn, f'{norm(w.stmt)}  [value containing {c!r}]',
                                          f"triple-quoted literal '''{h.witness}''' is rewritten to the plain literal '{h.witness}' although {h.why}; the guard "
                                          f'({r.describe()}) does not exclude {c!r}' + (f'; also {[b[0].witness for b in bad[1:]]}' if len(bad) > 1 else ''), w.stmt,
                                          witness=f"x = '''{h.witness}'''")
                        else:
                            ctx.ok(f'{qn}: multiline->plain rewrite unreachable for a value containing {c!r} ({len([h for h in hz if h.char == c])} witness(es))')
                    # a harmless value must still be simplified (the rule is not satisfied by deleting the feature)
                    if not reach(fn, w.stmt, Hyp({f'{x}.value': 'abc', f'{x}.is_multiline': True, 'self.config.simplify_string_literals': True})):
                        ctx.note(f'{qn}: the rewrite is not reachable for the harmless value abc')
                else:
                    n_fs += 1
                    both.setdefault((id(fn), x), [p, qn, fn, None, None])[4] = w.stmt
                    # input classes: a plain f-string, and a triple-quoted one that stays triple-quoted (it also holds a
                    # hazard character).  A triple-quoted f-string simplified in the same visit has its value re-derived
                    # by escape() before the test: that class is not decided.
                    vkey = f'{x}.value'

                    def same_value(ev: T.Any, sub: T.Callable[[ast.AST], ast.AST], notes: T.Dict[str, T.Any], vkey: str = vkey) -> T.Optional[str]:
                        st = ev.node
                        if ev.kind == 'stmt' and isinstance(st, ast.Assign) and any(norm(sub(t)) == vkey for t in st.targets):
                            return 'skip'      # the value tested afterwards is no longer the hypothesised one: not decided
                        return None
                    rs = creach(ctx, p, fn, w.stmt, Hyp({vkey: 'a' + fw + 'b', f'{x}.is_fstring': True, f'{x}.is_multiline': False}), observer=same_value)
                    for c in [''] + chars:
                        rs += creach(ctx, p, fn, w.stmt, Hyp({vkey: 'a' + fw + c + 'b', f'{x}.is_fstring': True, f'{x}.is_multiline': True}), observer=same_value)
                    unk = [u for r in rs for u in r.notes.get('unknown', [])]
                    if unk:
                        raise Undecided(f'{qn}: the guard of the f-string rewrite uses a test the evaluator does not understand: {unk[0]}')
                    ctx.require(not rs, f'{qn}: f-string->plain rewrite unreachable for a value with a substitution ({fw!r}, from {fre!r})', p.mod, qn,
                                f'{norm(w.stmt)}  [value containing a substitution]',
                                f"f'a{fw}b' loses its f prefix although {fw!r} is a substitution for the interpreter ({fre!r})" + (f'; path: {rs[0].describe()}' if rs else ''), w.stmt)
    # the two simplifications of one literal are independent: a visit that performs one of them must also have looked at the
    # flag of the other one (otherwise a literal that qualifies for both needs two runs: formatting twice differs)
    from .c16_sym import fn_paths
    for (_, x), (p, qn, fn, s_ml, s_fs) in both.items():
        if s_ml is None or s_fs is None:
            continue
        for done, flag, what in ((s_ml, f'{x}.is_fstring', 'the triple-quoted -> plain rewrite'), (s_fs, f'{x}.is_multiline', 'the f-prefix removal')):
            bad_path = None
            for path in fn_paths(fn, 1):
                if not any(e.node is done for e in path.events) or path.outcome not in ('fall', 'return'):
                    continue
                reads = any(e.node is not None and e.node is not done and any(isinstance(n, ast.Attribute) and norm(n) == flag and isinstance(n.ctx, ast.Load)
                                                                              for n in ast.walk(e.node)) for e in path.events)
                if not reads:
                    bad_path = path
                    break
            ctx.require(bad_path is None, f'{qn}: every path that performs {what} also consults {flag}', p.mod, qn, f'{norm(done)}  [without consulting {flag}]',
                        f'a path performs {what} and never reads {flag}: a literal that qualifies for both simplifications gets only one of them per run, '
                        f'so formatting the result again changes it ({bad_path.describe() if bad_path else ""})', done,
                        witness="x = f'''text'''  ->  f'text'  ->  'text'")
    ctx.floor('multiline->plain rewrite sites', n_ml, 1)
    ctx.floor('f-string->plain rewrite sites', n_fs, 1)


# ---------------------------------------------------------------------------
# R3: comments are never discarded

def _add_leaves(e: ast.AST) -> T.List[ast.AST]:
    if isinstance(e, ast.BinOp) and isinstance(e.op, ast.Add):
        return _add_leaves(e.left) + _add_leaves(e.right)
    return [e]


def _is_ws_value(w: Write, ty: Typer, model: NodeModel) -> bool:
    if w.obj is None or w.attr != 'value':
        return False
    comps = _components(w.obj)
    if comps and comps[0] in ('whitespaces', 'pre_whitespaces'):
        return True
    types = ty.of(w.obj)
    return bool(types) and all(t in model.classes and model.is_sub(t, 'WhitespaceNode') for t in types)


def _movers(p: Pass) -> T.Dict[str, T.Tuple[int, int]]:
    """Methods m(self, a, b) that concatenate a.whitespaces.value into b.whitespaces.value -> (index of a, index of b)."""
    out = {}
    for name, fn in _methods(p).items():
        ps = [a.arg for a in fn.args.args if a.arg != 'self']
        single: T.Dict[str, T.List[ast.AST]] = {}
        for st in ast.walk(fn):
            if isinstance(st, ast.Assign) and len(st.targets) == 1 and isinstance(st.targets[0], ast.Name):
                single.setdefault(st.targets[0].id, []).append(st.value)
        binds = {k: v[0] for k, v in single.items() if len(v) == 1 and k not in ps}
        for st in ast.walk(fn):
            if isinstance(st, ast.Assign) and len(st.targets) == 1:
                t = norm(subst(st.targets[0], binds))
                leaves = [norm(l) for l in _add_leaves(subst(st.value, binds))]
                for i, a in enumerate(ps):
                    for j, b in enumerate(ps):
                        if i != j and t == f'{b}.whitespaces.value' and f'{a}.whitespaces.value' in leaves:
                            out[name] = (i, j)
    return out


def _mover_args(p: Pass, c: ast.Call, movers: T.Dict[str, T.Tuple[int, int]]) -> T.Optional[T.Tuple[ast.AST, ast.AST]]:
    """(source, destination) of a call of a whitespace mover, arguments bound by the callee's signature."""
    from .c16_sym import bind_args
    f = c.func
    if not (isinstance(f, ast.Attribute) and f.attr in movers):
        return None
    fn = _methods(p).get(f.attr)
    if fn is None:
        return None
    recv = attr_chain(f.value)
    static = 'staticmethod' in [attr_chain(d) for d in fn.decorator_list]
    if recv == 'self':
        m = bind_args(fn, c, not static)
    elif recv == p.name:
        m = bind_args(fn, c, False)
    else:
        return None
    if m is None:
        return None
    ps = [a.arg for a in fn.args.args if a.arg != 'self']
    i, j = movers[f.attr]
    if ps[i] in m and ps[j] in m:
        return m[ps[i]], m[ps[j]]
    return None


class Site(T.NamedTuple):
    stmt: ast.stmt
    owner: ast.AST          # expression of the node/whitespace whose content is discarded
    loc: str                # 'value' (owner is the .value location's parent expr) | 'node'
    what: str


def _value_parent(target: ast.AST) -> ast.AST:
    assert isinstance(target, ast.Attribute)
    return target.value


def _sites_of(w: Write, ty: Typer, model: NodeModel, qn: str) -> T.List[Site]:
    """Discard sites of a write: the whitespace node expressions P such that `P.value` may be lost."""
    if w.obj is None:
        return []
    if w.kind == 'assign' and _is_ws_value(w, ty, model):
        return [Site(w.stmt, w.obj, 'value', f'assigns {short(w.value, 40)} to {norm(w.node)}')]
    if w.kind == 'assign' and w.attr in ('whitespaces', 'pre_whitespaces'):
        v = w.value
        from . import c16_sym as _cs
        if isinstance(v, ast.Call) and (attr_chain(v.func) or '').split('.')[-1] != 'WhitespaceNode' and _cs.INLINER is not None:
            v = _cs.INLINER(v) or v                      # a helper that returns a fresh WhitespaceNode
        if not (isinstance(v, ast.Constant) and v.value is None) and not (isinstance(v, ast.Call) and (attr_chain(v.func) or '').split('.')[-1] == 'WhitespaceNode'):
            raise Undecided(f'{qn}: whitespace node replaced by {short(v)} (neither None nor a fresh WhitespaceNode)')
        return [Site(w.stmt, w.node, 'node', f'replaces {norm(w.node)} by {short(v, 30)}')]
    types = ty.of(w.obj)
    if w.kind.startswith('mutate:') and all(t in model.classes for t in types) and types:
        ft = {model.field_type(t, w.attr) for t in types}
        holds_nodes = any(x.startswith('list[') and x[5:-1] in model.classes or x.startswith('dict[') for x in ft)
        if not holds_nodes:
            return []
        m = w.kind[7:]
        if m in ('append', 'insert', 'extend', 'sort', 'reverse'):
            return []
        call = w.node
        if m == 'pop' and isinstance(call, ast.Call) and all(x.startswith('list[') for x in ft):
            idx = call.args[0] if call.args else ast.UnaryOp(op=ast.USub(), operand=ast.Constant(value=1))
            owner = ast.Subscript(value=call.func.value, slice=idx, ctx=ast.Load())  # type: ignore[attr-defined]
            return [Site(w.stmt, ast.Attribute(value=owner, attr='whitespaces', ctx=ast.Load()), 'node', f'pops {norm(owner)}')]
        raise Undecided(f'{qn}: {short(w.stmt)} removes nodes from a node list in a way the rule does not model ({m})')
    return []


def _replacement_sites(ctx: RuleCtx, w: Write, ty: Typer, model: NodeModel, fn: ast.FunctionDef, qn: str) -> T.List[Site]:
    """`X.f = <descendant of X.f>`: the symbol tokens on the way from the old value down to the retained sub-tree are dropped."""
    types = ty.of(w.obj) if w.obj is not None else set()
    if w.kind != 'assign' or not types or not all(t in model.classes for t in types):
        return []
    fts = {model.field_type(t, w.attr) for t in types}
    if not all(ft in model.classes and not model.is_sub(ft, 'WhitespaceNode') for ft in fts):
        return []
    old = norm(w.node)
    vals = _canon_at(fn, w.stmt, w.value) if w.value is not None else set()
    if len(vals) != 1:
        raise Undecided(f'{qn}: replacement value of {old} differs between paths: {sorted(vals)}')
    new = next(iter(vals))
    if not new.startswith(old) or new == old:
        raise Undecided(f'{qn}: {old} is replaced by {new}, which is not one of its own sub-trees')
    # walk down from old to new
    rest = ast.parse(new, mode='eval').body
    chain: T.List[ast.AST] = []
    while norm(rest) != old:
        chain.append(rest)
        if not isinstance(rest, (ast.Attribute, ast.Subscript)):
            raise Undecided(f'{qn}: cannot follow {new} down from {old}')
        rest = rest.value
    chain.reverse()
    sites: T.List[Site] = []
    cur_expr: ast.AST = ast.parse(old, mode='eval').body
    cur_types = set(fts)
    for step in chain:
        kept = step.attr if isinstance(step, ast.Attribute) else None
        if isinstance(step, ast.Attribute):
            for t in cur_types:
                if t not in model.classes:
                    raise Undecided(f'{qn}: cannot type {norm(cur_expr)} while following the replacement')
                for fname, ftype in model.fields(t).items():
                    if fname == kept or fname in ('whitespaces', 'pre_whitespaces'):
                        continue
                    if ftype == 'SymbolNode':
                        o = ast.Attribute(value=cur_expr, attr=fname, ctx=ast.Load())
                        sites.append(Site(w.stmt, ast.Attribute(value=o, attr='whitespaces', ctx=ast.Load()), 'node', f'drops the symbol {norm(o)}'))
                    elif ftype == 'list[SymbolNode]':
                        from .c16_sym import any_elem
                        o = any_elem(ast.Attribute(value=cur_expr, attr=fname, ctx=ast.Load()))
                        sites.append(Site(w.stmt, ast.Attribute(value=o, attr='whitespaces', ctx=ast.Load()), 'node', f'drops the symbols {norm(o)}'))
            cur_types = {model.field_type(t, step.attr) for t in cur_types}
        else:
            cur_types = Typer._elem(cur_types)
            if cur_types == {'BaseNode'}:
                # refine by the isinstance guard at the site: the types for which the site is reachable
                refined = set()
                rs0 = reach(fn, w.stmt, Hyp())
                for cand in model.classes:
                    keys = (f'isinstance({norm(step)}, mparser.{cand})', f'isinstance({norm(step)}, {cand})')
                    if rs0 and all(any(e.kind == 'cond' and e.val and norm(subst(e.node, r.binds)) in keys for e in r.prefix) for r in rs0):
                        refined.add(cand)
                if len(refined) != 1:
                    raise Undecided(f'{qn}: the class of {norm(step)} at the replacement is not fixed by an isinstance guard')
                cur_types = refined
        cur_expr = step
    return sites


def _minlen(e: ast.AST, var: str, sdefs: T.Dict[str, ast.AST], depth: int = 0) -> T.Optional[int]:
    """A lower bound k such that len(e) >= len(var) + k, from the shape of e (comprehension over var, slices, displays), else None."""
    if depth > 6:
        return None
    if isinstance(e, ast.Name):
        if e.id == var:
            return 0
        return _minlen(sdefs[e.id], var, sdefs, depth + 1) if e.id in sdefs else None
    if isinstance(e, (ast.ListComp, ast.GeneratorExp)) and len(e.generators) == 1 and not e.generators[0].ifs:
        return _minlen(e.generators[0].iter, var, sdefs, depth + 1)
    if isinstance(e, ast.Call) and isinstance(e.func, ast.Name) and e.func.id in ('list', 'tuple', 'enumerate', 'iter') and e.args:
        return _minlen(e.args[0], var, sdefs, depth + 1)
    if isinstance(e, ast.Subscript) and isinstance(e.slice, ast.Slice) and e.slice.upper is None and e.slice.step is None:
        lo = e.slice.lower
        k = 0 if lo is None else (lo.value if isinstance(lo, ast.Constant) and isinstance(lo.value, int) and lo.value >= 0 else None)
        base = _minlen(e.value, var, sdefs, depth + 1)
        return None if k is None or base is None else base - k
    if isinstance(e, ast.BinOp) and isinstance(e.op, ast.Add):
        for a, b in ((e.left, e.right), (e.right, e.left)):
            if isinstance(b, (ast.List, ast.Tuple)) and not any(isinstance(x, ast.Starred) for x in b.elts):
                base = _minlen(a, var, sdefs, depth + 1)
                return None if base is None else base + len(b.elts)
    if isinstance(e, ast.Call) and (attr_chain(e.func) or '').split('.')[-1] in ('repeat', 'count', 'cycle'):
        return 0
    return None


# str.splitlines: the documented line-boundary table (Library Reference, str.splitlines); '\r\n' is the pair of two members
SPLITLINES_BOUNDARIES = ['\n', '\r', '\x0b', '\x0c', '\x1c', '\x1d', '\x1e', '\x85', '\u2028', '\u2029']
SPLITTERS = ('splitlines', 'split')
_CUT_SEEN: T.Set[T.Tuple[int, str]] = set()
_CUT_PROBLEMS: T.Dict[T.Tuple[int, str], str] = {}


def _splitter_cuts(call: ast.Call) -> T.Optional[T.List[str]]:
    """The characters at which `X.splitlines(..)` / `X.split(C)` (C a constant one-character string, no maxsplit) cuts X into
    pieces; None for any other splitter."""
    if not isinstance(call.func, ast.Attribute):
        return None
    if call.func.attr == 'splitlines':
        return list(SPLITLINES_BOUNDARIES)
    if call.func.attr == 'split':
        seps = list(call.args[:1]) + [k.value for k in call.keywords if k.arg == 'sep']
        if len(call.args) <= 1 and all(k.arg == 'sep' for k in call.keywords) and len(seps) == 1 \
                and isinstance(seps[0], ast.Constant) and isinstance(seps[0].value, str) and len(seps[0].value) == 1:
            return [seps[0].value]
    return None


def _cut_inside_comment(ctx: RuleCtx, qn: str, splitter: T.Optional[ast.Call], trim: ast.Call) -> T.Optional[str]:
    """The pieces of the whitespace text are trimmed (`piece = piece.strip()`) before they are re-appended: a piece boundary inside a
    comment token loses the boundary character (every str.splitlines boundary is str.isspace) and the blanks next to it.  The
    comment token is a full match of the lexer `comment` regex, so a cut is harmless iff no match of that regex contains the cut
    character (regex-language fact).  Returns the problem text ('!' prefix) or None."""
    if not (rx.matches_char(r'#.*', '\x0c') and not rx.matches_char(r'#.*', '\n')):
        raise Undecided('self-check: `#.*` must be able to contain a form feed and unable to contain a newline')
    cuts = _splitter_cuts(splitter) if splitter is not None else None
    if cuts is None:
        raise Undecided(f'{qn}: the pieces trimmed by `{short(trim)}` come from a splitter whose cut characters the rule does not know: '
                        f'{short(splitter) if splitter is not None else "?"}')
    cre = _token_regex(ctx, 'comment')
    inside = [c for c in cuts if c.isspace() and rx.matches_char(cre.pattern, c, cre.flags)]
    if inside:
        return (f'!{splitter.func.attr}(..) pieces -> {trim.func.attr}() -> re-appended  [cut inside a comment token]|'  # type: ignore[union-attr]
                f'`{norm(splitter.func.value)}.{splitter.func.attr}(..)` also cuts the whitespace text at {", ".join(repr(c) for c in inside)}, characters a comment token '  # type: ignore[union-attr]
                f'(lexer regex {cre.pattern!r}) can contain, and every piece is trimmed by `{short(trim)}` before it is re-appended: the character and the '
                'blanks around it vanish from the comment text (only a cut at a character the comment regex cannot match, the newline, is outside every comment)')
    key = (id(ctx), qn)
    if key not in _CUT_SEEN:
        _CUT_SEEN.add(key)
        ctx.ok(f'{qn}: the trimmed pieces are cut only at {cuts!r}, which no comment token ({cre.pattern!r}) can contain')
    return None


def _rebuild_ok(ctx: RuleCtx, p: Pass, qn: str, fn: ast.FunctionDef, site: ast.stmt, loc: str, var: str) -> T.Optional[str]:
    """`var = LOC.splitlines(..)`; LOC reset; every element of var re-appended to LOC - directly, or accumulated in a local
    that is stored into LOC at the site, or mapped by a comprehension in the stored value.  Returns a problem text (a concrete
    construct or path that loses a line) or None."""
    uses = [n for n in ast.walk(fn) if isinstance(n, ast.Name) and n.id == var]
    # the stored value maps every element itself: LOC = ''.join(f(x) for x in var) / LOC = prefix + ''.join([...])
    rhs = site.value if isinstance(site, ast.Assign) else None
    if rhs is not None:
        for comp in [n for n in ast.walk(rhs) if isinstance(n, (ast.GeneratorExp, ast.ListComp))]:
            g = comp.generators[0]
            it = g.iter.args[0] if isinstance(g.iter, ast.Call) and isinstance(g.iter.func, ast.Name) and g.iter.func.id == 'enumerate' and g.iter.args else g.iter
            if len(comp.generators) == 1 and isinstance(it, ast.Name) and it.id == var:
                tv = g.target.elts[-1] if isinstance(g.target, ast.Tuple) else g.target
                if isinstance(tv, ast.Name) and any(isinstance(x, ast.Name) and x.id == tv.id for x in ast.walk(comp.elt)):
                    if all(isinstance(c, ast.Name) and c.id == tv.id for c in g.ifs):
                        return None
                    raise Undecided(f'{qn}: the comprehension that rebuilds {loc} filters the lines: {short(comp)}')
    # accumulator: LOC = ACC [+ ...] where ACC is a local that the loop over var appends to - a string (`ACC += x`) or a list of
    # parts (`ACC.append(x)`) joined later; intermediate locals (`text = ''.join(parts)`, `text += tail`) are followed
    def grows(n: ast.AST, name: str) -> bool:
        if isinstance(n, ast.AugAssign) and isinstance(n.target, ast.Name) and n.target.id == name:
            return True
        return isinstance(n, ast.Call) and isinstance(n.func, ast.Attribute) and n.func.attr in ('append', 'extend', 'insert') \
            and isinstance(n.func.value, ast.Name) and n.func.value.id == name
    for_var = [n for n in ast.walk(fn) if isinstance(n, ast.For) and any(isinstance(x, ast.Name) and x.id == var for x in ast.walk(n.iter))]
    tgt = loc
    chain: T.List[str] = []
    cur: T.Optional[ast.AST] = rhs
    for _ in range(4):
        if cur is None:
            break
        nxt: T.Optional[ast.AST] = None
        cands: T.List[ast.AST] = []
        for l in _add_leaves(cur):
            if isinstance(l, ast.Call) and isinstance(l.func, ast.Attribute) and l.func.attr == 'join' and isinstance(l.func.value, ast.Constant) and len(l.args) == 1:
                cands.append(l.args[0])
            else:
                cands.append(l)
        for l in cands:
            if not isinstance(l, ast.Name) or l.id in chain:
                continue
            if any(grows(n, l.id) for lp in for_var for n in ast.walk(lp)):
                tgt = l.id
                chain.append(l.id)
                break
            defs = [n for n in ast.walk(fn) if isinstance(n, (ast.Assign, ast.AnnAssign)) and n.value is not None
                    and any(isinstance(t, ast.Name) and t.id == l.id for t in (n.targets if isinstance(n, ast.Assign) else [n.target]))]
            if len(defs) == 1:
                chain.append(l.id)
                nxt = defs[0].value
                break
        if tgt != loc or nxt is None:
            break
        cur = nxt
    if tgt == loc:
        chain = []
    acc = tgt != loc
    parents = {}
    for n in ast.walk(fn):
        for ch in ast.iter_child_nodes(n):
            parents[id(ch)] = n
    loops: T.List[ast.For] = []
    zip_pos: T.Dict[int, int] = {}
    splitter: T.Optional[ast.Call] = None
    for u in uses:
        par = parents.get(id(u))
        if isinstance(u.ctx, ast.Store):
            if not (isinstance(par, ast.Assign) and isinstance(par.value, ast.Call) and isinstance(par.value.func, ast.Attribute)
                    and par.value.func.attr in SPLITTERS and norm(par.value.func.value) == loc):
                raise Undecided(f'{qn}: `{var}` is rebound in a way the rebuild idiom does not cover')
            splitter = par.value
            continue
        if isinstance(par, (ast.If, ast.While, ast.UnaryOp, ast.BoolOp)):
            continue                                   # truth test
        if isinstance(par, ast.Call) and isinstance(par.func, ast.Name) and par.func.id in ('len', 'enumerate', 'bool'):
            gp = parents.get(id(par))
            if par.func.id == 'enumerate' and isinstance(gp, ast.For) and gp.iter is par:
                loops.append(gp)
            continue
        if isinstance(par, ast.Call) and (attr_chain(par.func) or '').split('.')[-1] in ('zip', 'zip_longest') and u in par.args:
            gp = parents.get(id(par))
            if isinstance(gp, ast.For) and gp.iter is par:
                if (attr_chain(par.func) or '').split('.')[-1] == 'zip' and not any(k.arg == 'strict' for k in par.keywords):
                    # zip stops at the shortest operand: every other operand must be at least as long as `var`
                    sd = _single_defs(fn)
                    for other in par.args:
                        ml = _minlen(other, var, sd) if other is not u else 0
                        if ml is None or ml < 0:
                            raise Undecided(f'{qn}: cannot show that `{short(other)}` is at least as long as `{var}` in `{short(par)}`')
                zip_pos[id(gp)] = par.args.index(u)
                loops.append(gp)
                continue
        if isinstance(par, ast.For) and par.iter is u:
            loops.append(par)
            continue
        if isinstance(par, ast.comprehension) and par.iter is u:
            continue
        if isinstance(par, ast.Subscript) and par.value is u:
            gp = parents.get(id(par))
            if isinstance(gp, ast.Call) and isinstance(gp.func, ast.Name) and gp.func.id == 'enumerate':
                gp = parents.get(id(gp))
            if isinstance(gp, ast.For):
                return f'the loop that re-appends the lines iterates over `{norm(par)}`, not over every element of `{var}`'
        if isinstance(par, ast.Attribute) and par.attr == 'pop':
            call = parents.get(id(par))
            st = call
            while st is not None and not isinstance(st, ast.stmt):
                st = parents.get(id(st))
            tg = st.targets[0] if isinstance(st, ast.Assign) and len(st.targets) == 1 else (st.target if isinstance(st, ast.AnnAssign) else None)
            first = isinstance(call, ast.Call) and len(call.args) == 1 and isinstance(call.args[0], ast.Constant) and call.args[0].value == 0
            if tg is not None and first and norm(tg) in [loc, tgt] + chain:
                continue                               # LOC = var.pop(0) / parts = [var.pop(0)]: the first line stays in what is stored
            if tg is not None and isinstance(tg, ast.Name) and norm(tg) not in [loc, tgt] + chain:
                raise Undecided(f'{qn}: `{short(st)}` moves an element of `{var}` into `{norm(tg)}`, which the rule does not follow')
            return f'`{short(st)}` removes an element of `{var}` without keeping it in {loc}'
        # plain reads (element, slice, comparison, membership, a pure builtin) cannot lose a line
        if isinstance(par, ast.Subscript) and par.value is u and isinstance(par.ctx, ast.Load):
            continue
        if isinstance(par, (ast.Compare, ast.IfExp, ast.Starred, ast.List, ast.Tuple, ast.BinOp, ast.Return, ast.JoinedStr, ast.FormattedValue)):
            continue
        if isinstance(par, ast.Call) and (attr_chain(par.func) or '').split('.')[-1] in ('list', 'tuple', 'sorted', 'reversed', 'any', 'all', 'sum', 'iter', 'join',
                                                                                         'isinstance', 'max', 'min', 'set', 'frozenset', 'str', 'repr', 'islice', 'pairwise'):
            continue
        raise Undecided(f'{qn}: use of `{var}` in `{short(par)}` is outside the rebuild idiom')
    if len(loops) > 1:
        # loops that only read the lines (build a side table) are not the re-appending loop
        def appends(lp: ast.For) -> bool:
            return any(isinstance(n, ast.AugAssign) and norm(n.target) == tgt for n in ast.walk(lp)) or \
                any(isinstance(n, ast.Assign) and any(norm(t) == tgt for t in n.targets) for n in ast.walk(lp)) or \
                any(grows(n, tgt) for n in ast.walk(lp))
        loops = [lp for lp in loops if appends(lp)]
    if len(loops) != 1:
        return f'{len(loops)} loops over `{var}` append to {tgt} (expected exactly one that re-appends every line)'
    loop = loops[0]
    cfg = CFG(fn)
    s_nodes = cfg.stmt_nodes(site)
    l_nodes = [n for n in cfg.nodes if n.ast is loop and n.kind == 'iter']
    if not s_nodes or not l_nodes:
        raise Undecided(f'{qn}: reset or loop not found in the CFG')
    if acc:
        if not all(cfg.must_pass(cfg.entry, s, l_nodes, no_exc=True) for s in s_nodes):
            return f'`{tgt}` is stored into {loc} on a path that did not run the loop over `{var}`'
        for n in cfg.nodes:
            a = n.ast
            if n.kind == 'stmt' and isinstance(a, ast.Assign) and any(isinstance(t, ast.Name) and t.id in chain for t in a.targets) \
                    and not any(isinstance(x, ast.Name) and x.id in chain for x in ast.walk(a.value)):
                if any(cfg.can_reach(ln, n) for ln in l_nodes) and any(cfg.can_reach(n, sn) or n is sn for sn in s_nodes) \
                        and not any(a is x for x in ast.walk(loop)):
                    return f'`{short(a)}` overwrites the accumulated text after the loop over `{var}`'
    elif not all(cfg.must_pass(s, cfg.exit_return, l_nodes, no_exc=True) for s in s_nodes):
        return f'after the reset of {loc} a path reaches the end of the function without running the loop over `{var}`'
    t = loop.target
    if id(loop) in zip_pos:
        lv = t.elts[zip_pos[id(loop)]] if isinstance(t, ast.Tuple) and len(t.elts) > zip_pos[id(loop)] else t
    else:
        lv = t.elts[-1] if isinstance(t, ast.Tuple) and isinstance(loop.iter, ast.Call) else t
    if not isinstance(lv, ast.Name):
        raise Undecided(f'{qn}: loop target {norm(t)}')
    for path in enumerate_paths(loop.body, unroll=1):
        appended = False
        for ev in path.events:
            st = ev.node
            if ev.kind != 'stmt' or st is None:
                continue
            if isinstance(st, ast.Assign) and any(isinstance(x, ast.Name) and x.id == lv.id for x in st.targets):
                v = st.value
                if not (isinstance(v, ast.Call) and isinstance(v.func, ast.Attribute) and v.func.attr in ('strip', 'rstrip', 'lstrip', 'expandtabs')
                        and norm(v.func.value) == lv.id and not v.args):
                    raise Undecided(f'{qn}: the line variable is rebound by `{short(st)}`')
                if v.func.attr != 'expandtabs':
                    cut = _cut_inside_comment(ctx, qn, splitter, v)
                    if cut:                 # reported by the caller next to (not instead of) a line the loop may lose
                        _CUT_PROBLEMS[(id(ctx), qn)] = cut
            if isinstance(st, ast.AugAssign) and isinstance(st.op, ast.Add) and norm(st.target) == tgt and any(isinstance(x, ast.Name) and x.id == lv.id for x in ast.walk(st.value)):
                appended = True
            if isinstance(st, ast.Expr) and grows(st.value, tgt) and any(isinstance(x, ast.Name) and x.id == lv.id for a in st.value.args for x in ast.walk(a)):  # type: ignore[attr-defined]
                appended = True
            if isinstance(st, ast.Assign) and len(st.targets) == 1 and norm(st.targets[0]) == tgt:
                lv_in = any(isinstance(x, ast.Name) and x.id == lv.id for l in _add_leaves(st.value) for x in ast.walk(l))
                if any(norm(l) == tgt for l in _add_leaves(st.value)) and lv_in:
                    appended = True
                elif not any(norm(l) == tgt for l in _add_leaves(st.value)):
                    return f'inside the loop `{short(st)}` overwrites {tgt}'
        empty_line = any(ev.kind == 'cond' and isinstance(ev.node, ast.Name) and ev.node.id == lv.id and ev.val is False for ev in path.events)
        if not appended and not empty_line and path.outcome in ('fall', 'continue', 'break', 'return'):
            return f'a path through the loop body does not append the line to {tgt}: {path.describe()}'
        if path.outcome in ('break', 'return'):
            return f'the loop over `{var}` can stop early ({path.outcome}): {path.describe()}'
    return None


def _suffix_removal(e: ast.AST, v: str) -> str:
    """Is e `v` without one trailing copy of K (config indentation): `v[:-len(K)] if TEST else v` or v.removesuffix(K)?
    -> 'ok' | 'empty-unit' (for K == '' the test holds and v[:-len(K)] is v[:0]: everything is cut) | '' (not this shape).
    TEST is judged as an atom in three worlds."""
    from .c16_sym import Evaluator, truth
    if isinstance(e, ast.Call) and isinstance(e.func, ast.Attribute) and e.func.attr == 'removesuffix' and norm(e.func.value) == v and len(e.args) == 1:
        return 'ok' if '.config.indent' in norm(e.args[0]) else ''
    if not isinstance(e, ast.IfExp):
        return ''
    test, yes, no = e.test, e.body, e.orelse
    if isinstance(test, ast.UnaryOp) and isinstance(test.op, ast.Not):
        test, yes, no = test.operand, no, yes
    if not (isinstance(yes, ast.Subscript) and norm(yes.value) == v and isinstance(yes.slice, ast.Slice) and yes.slice.lower is None and yes.slice.step is None
            and isinstance(yes.slice.upper, ast.UnaryOp) and isinstance(yes.slice.upper.op, ast.USub) and isinstance(yes.slice.upper.operand, ast.Call)
            and norm(yes.slice.upper.operand.func) == 'len' and len(yes.slice.upper.operand.args) == 1 and norm(no) == v):
        return ''
    k = norm(yes.slice.upper.operand.args[0])
    if '.config.indent' not in k:
        return ''

    def holds(kval: str, vval: str) -> T.Optional[bool]:
        return truth(Evaluator({k: kval, v: vval}).ev(test))
    if holds('  ', 'x') is not False or holds('  ', '# c\n') is not False:
        return ''                      # cuts although v does not end with K
    if holds('', '# c\n') is not False:
        return 'empty-unit'
    return 'ok'


def _template(e: ast.AST) -> T.Optional[T.List[T.Tuple[str, str]]]:
    """A string-building expression as a list of ('lit', text) / ('expr', normalised expression) parts: f-string, `a + 'x'`,
    `'%s' % x`, `'{}'.format(x)`, `''.join([...])` are the same template."""
    parts: T.List[T.Tuple[str, str]] = []

    def add(kind: str, v: str) -> None:
        if kind == 'lit' and parts and parts[-1][0] == 'lit':
            parts[-1] = ('lit', parts[-1][1] + v)
        elif not (kind == 'lit' and v == ''):
            parts.append((kind, v))

    def rec(x: ast.AST) -> bool:
        if isinstance(x, ast.Constant) and isinstance(x.value, str):
            add('lit', x.value)
            return True
        if isinstance(x, ast.JoinedStr):
            for v in x.values:
                if isinstance(v, ast.Constant):
                    add('lit', str(v.value))
                elif isinstance(v, ast.FormattedValue) and v.format_spec is None and v.conversion == -1:
                    if isinstance(v.value, ast.Constant) and isinstance(v.value.value, str):
                        add('lit', v.value.value)
                    else:
                        add('expr', norm(v.value))
                else:
                    return False
            return True
        if isinstance(x, ast.BinOp) and isinstance(x.op, ast.Add):
            return rec(x.left) and rec(x.right)
        if isinstance(x, ast.BinOp) and isinstance(x.op, ast.Mod) and isinstance(x.left, ast.Constant) and isinstance(x.left.value, str):
            args = list(x.right.elts) if isinstance(x.right, ast.Tuple) else [x.right]
            chunks = x.left.value.split('%s')
            if len(chunks) != len(args) + 1 or any('%' in c.replace('%%', '') for c in chunks):
                return False
            for i, c in enumerate(chunks):
                add('lit', c.replace('%%', '%'))
                if i < len(args):
                    add('expr', norm(args[i]))
            return True
        if isinstance(x, ast.Call) and isinstance(x.func, ast.Attribute) and x.func.attr == 'format' and isinstance(x.func.value, ast.Constant) \
                and isinstance(x.func.value.value, str) and not x.keywords:
            chunks = x.func.value.value.split('{}')
            if len(chunks) != len(x.args) + 1 or any('{' in c.replace('{{', '') or '}' in c.replace('}}', '') for c in chunks):
                return False
            for i, c in enumerate(chunks):
                add('lit', c.replace('{{', '{').replace('}}', '}'))
                if i < len(x.args):
                    add('expr', norm(x.args[i]))
            return True
        if isinstance(x, ast.Call) and isinstance(x.func, ast.Attribute) and x.func.attr == 'join' and isinstance(x.func.value, ast.Constant) \
                and x.func.value.value == '' and len(x.args) == 1 and isinstance(x.args[0], (ast.List, ast.Tuple)):
            return all(rec(el) for el in x.args[0].elts)
        if isinstance(x, (ast.Name, ast.Attribute, ast.Call, ast.Subscript, ast.BinOp)):
            add('expr', norm(x))
            return True
        return False
    return parts if rec(e) else None


_MEMO_DECORATORS = ('lru_cache', 'cache')


def _compiled_sub_normal_form(ctx: RuleCtx, p: Pass, call: ast.Call) -> ast.Call:
    """`X.sub(repl, s, ..)` / `X.subn(..)` where X denotes `re.compile(P)` is `re.sub(P, repl, s, ..)` (the definition of re.sub).
    X is read through: a direct `re.compile(P)`, a call of an expression-bodied helper of the pass / its module (arguments bound by
    signature; a module helper may only carry a memoising decorator - transparent for a pure function), locals having been substituted
    by the caller.  A compile with flags, or anything else, is left as it is (the caller then gives up: Undecided)."""
    f = call.func
    if not (isinstance(f, ast.Attribute) and f.attr in ('sub', 'subn') and attr_chain(f.value) != 're'):
        return call
    x: ast.AST = f.value
    for _ in range(4):
        if not isinstance(x, ast.Call):
            return call
        if (call_name(x) or '') == 're.compile':
            if len(x.args) != 1 or x.keywords or any(isinstance(a, ast.Starred) for a in x.args):
                return call
            new = ast.Call(func=ast.Attribute(value=ast.Name(id='re', ctx=ast.Load()), attr=f.attr, ctx=ast.Load()),
                           args=[x.args[0]] + list(call.args), keywords=list(call.keywords))
            return ast.fix_missing_locations(new)
        if isinstance(x.func, ast.Name) and p.mod.has_func(x.func.id):
            decos = p.mod.func(x.func.id).decorator_list
            if any((attr_chain(d.func if isinstance(d, ast.Call) else d) or '').split('.')[-1] not in _MEMO_DECORATORS for d in decos):
                return call
        nxt = _Inline(ctx, p).resolve(x)
        if nxt is None:
            return call
        x = nxt
    return call


def _transform_ok(ctx: RuleCtx, p: Pass, qn: str, call: ast.Call, loc: str, binds: T.Optional[T.Dict[str, ast.AST]] = None) -> T.Optional[str]:
    """A justified transformer of whitespace content; returns the reason or None (unknown transformer).
    Locals are resolved by their reaching definition at the site first."""
    if binds:
        call = T.cast(ast.Call, subst(call, binds))
        loc = norm(subst(ast.parse(loc, mode='eval').body, binds))
    call = _compiled_sub_normal_form(ctx, p, call)
    cn = call_name(call) or ''
    inl = _Inline(ctx, p).resolve(call)          # a helper of the class or of the module, arguments bound by signature
    if inl is not None:
        d = _suffix_removal(inl, loc)
        if d == 'ok':
            return f'{cn} only removes one trailing indentation unit (config indent_by)'
        if d == 'empty-unit':
            return ('!for an empty indentation unit (indent_by = \'\') the test `v.endswith(K)` holds and `v[:-len(K)]` is `v[:0]`: '
                    f'{cn} returns the empty string and the whole whitespace, comments included, is discarded')
    if cn in ('re.sub', 're.subn'):
        fake = ast.FunctionDef(name='sub', args=ast.arguments(posonlyargs=[], args=[ast.arg(arg=a) for a in ('pattern', 'repl', 'string', 'count', 'flags')],
                                                              kwonlyargs=[], kw_defaults=[], defaults=[]), body=[], decorator_list=[])
        from .c16_sym import bind_args
        m = bind_args(fake, call, False) or {}
        if {'pattern', 'repl', 'string'} <= set(m) and 'flags' not in m and norm(m['string']) == loc:
            pat, rep = _template(m['pattern']), _template(m['repl'])
            if pat is not None and rep is not None and len(pat) == 3 and pat[0] == ('lit', '\\n(') and pat[2] == ('lit', ')*') and pat[1][0] == 'expr' \
                    and '.config.indent' in pat[1][1] and rep and rep[0][0] == 'lit' and rep[0][1].startswith('\n'):
                return 're.sub replaces a newline followed by indentation units by a newline plus indentation; comment text holds no newline'
    return None


def _pass_order(ctx: RuleCtx, first: str, second: str) -> bool:
    """In the function that runs the passes (Formatter.format or a private method it delegates to) every run of
    `second` is preceded, in the same round, by a run of `first`."""
    seen_any = False
    ok = True
    for qn, fn in _format_scope(ctx):
        cfg = CFG(fn)

        def acc(cls: str) -> T.List[T.Any]:
            return cfg.nodes_with_call(lambda c: cls in [x.split('.')[-1] for x in (_accept_classes(fn, c) or [])])
        a, b = acc(first), acc(second)
        if not b:
            continue
        seen_any = True
        # both run by one `for X in (A, B, ...): tree.accept(X(..))`: the display gives the order within every round
        both = [c for c in ast.walk(fn) if isinstance(c, ast.Call) and {first, second} <= {x.split('.')[-1] for x in (_accept_classes(fn, c) or [])}]
        if both:
            for c in both:
                order = [x.split('.')[-1] for x in (_accept_classes(fn, c) or [])]
                ok = ok and order.index(first) < order.index(second) and order.count(second) == 1
            if all(any(c2 is c for c in both for c2 in ast.walk(n.ast)) for n in b if n.ast is not None):
                continue
        if not a:
            raise Undecided(f'{qn}: runs {second} but {first} is run elsewhere; the order of the two passes is not decided across functions')
        ok = ok and all(cfg.must_pass(cfg.entry, n, a) and cfg.must_pass(n, n, a) for n in b)
    if not seen_any:
        raise Undecided(f'Formatter.format: accept({first}(..)) / accept({second}(..)) not found')
    return ok


def r3(ctx: RuleCtx) -> None:
    _read_argnode_len(ctx)
    model = NodeModel(ctx.repo)
    passes = _passes(ctx)
    vis = ctx.repo.module(VIS)
    colons_inv = any(isinstance(n, ast.Assert) and 'colons' in norm(n.test) and 'kwargs' in norm(n.test) and 'len(' in norm(n.test)
                     for n in ast.walk(vis.func('FullAstVisitor.visit_ArgumentNode')))
    # built-in positive example
    demo = ast.parse("def f(self, node):\n    if node.flag:\n        node.whitespaces.value = ''\n").body[0]
    assert isinstance(demo, ast.FunctionDef)
    if not reach(demo, demo.body[0].body[0], Hyp(volatile={'node.whitespaces': PRESENT, 'node.whitespaces.value': COMMENT_SAMPLES[0]})):  # type: ignore[attr-defined]
        raise Undecided('self-check: an unguarded discard was not found reachable')
    n_sites = n_keep = 0
    kinds: T.Dict[str, int] = {}
    for p in passes:
        movers = _movers(p)
        for mname, fn in _methods(p).items():
            _Inline(ctx, p).use()
            qn = f'{p.name}.{mname}'
            ty = Typer(model, p.mod, p.cls, fn, ctx.repo)
            for w in collect_writes(fn):
                if w.obj is None or attr_chain(w.obj) == 'self':
                    continue
                if w.kind == 'aug' and _is_ws_value(w, ty, model):
                    n_keep += 1
                    continue
                sites = _sites_of(w, ty, model, qn) + _replacement_sites(ctx, w, ty, model, fn, qn)
                for s in sites:
                    n_sites += 1
                    verdict = _judge_site(ctx, p, qn, fn, s, w, movers, passes, colons_inv)
                    kinds[verdict] = kinds.get(verdict, 0) + 1
    ctx.note(f'{n_sites} discard sites {kinds}; {n_keep} appending writes (+=) keep the old content')
    ctx.floor('whitespace discard sites', n_sites, 5)
    ctx.floor('appending whitespace writes', n_keep, 1)


def _alias_restored(fn: ast.FunctionDef, site: ast.stmt, alias: str) -> bool:
    """The whitespace node was bound to the single-definition local `alias` before `site` unlinked it: is `alias.value` concatenated
    into the content of some whitespace (`<x>.value = .. + alias.value + ..` / `<x>.value += alias.value`) on every path from the
    site to a normal return?  (CFG must-pass; nothing is evaluated.)"""
    defs = [n for n in ast.walk(fn) if isinstance(n, ast.Name) and n.id == alias and isinstance(n.ctx, ast.Store)]
    if len(defs) != 1:
        return False
    cfg = CFG(fn)
    via = []
    for n in cfg.nodes:
        st = n.ast
        if n.kind != 'stmt' or not isinstance(st, (ast.Assign, ast.AugAssign)):
            continue
        tgts = st.targets if isinstance(st, ast.Assign) else [st.target]
        if all(isinstance(t, ast.Attribute) and t.attr == 'value' for t in tgts) and any(norm(l) == f'{alias}.value' for l in _add_leaves(st.value)):
            via.append(n)
    srcs = cfg.stmt_nodes(site)
    return bool(via) and bool(srcs) and all(cfg.must_pass(a, cfg.exit_return, via, no_exc=True) for a in srcs)


def _judge_site(ctx: RuleCtx, p: Pass, qn: str, fn: ast.FunctionDef, s: Site, w: Write, movers: T.Dict[str, T.Tuple[int, int]],
                passes: T.List[Pass], colons_inv: bool) -> str:
    # canonical owner texts at the site
    owners = _canon_at(fn, s.stmt, s.owner)
    if len(owners) != 1:
        raise Undecided(f'{qn}: owner of the discarded whitespace differs between paths: {sorted(owners)}')
    parent = next(iter(owners))             # the whitespace node expression
    loc = parent + '.value'
    construct = f'{norm(s.stmt)}  [{s.what}]' if s.what.startswith('drops') else norm(s.stmt)
    # a node created in this function owns nothing yet
    root = ast.parse(parent, mode='eval').body
    while isinstance(root, (ast.Attribute, ast.Subscript)):
        root = root.value
    if isinstance(root, ast.Call) and (attr_chain(root.func) or '').split('.')[-1] in ('SymbolNode', 'WhitespaceNode', 'Token'):
        ctx.ok(f'{qn}: `{short(s.stmt, 60)}` initialises a node created here', nontrivial=False)
        return 'fresh-node'
    # value assignment: keeps / transforms / fresh
    if s.loc == 'value' and w.value is not None:
        branches = [w.value.body, w.value.orelse] if isinstance(w.value, ast.IfExp) else [w.value]
        verdicts = []
        rs0 = reach(fn, s.stmt, Hyp())
        site_binds = rs0[0].binds if rs0 and all({k: norm(v) for k, v in r.binds.items()} == {k: norm(v) for k, v in rs0[0].binds.items()} for r in rs0) else {}

        def cn(e: ast.AST) -> str:
            return norm(subst(e, site_binds))
        for b in branches:
            if any(cn(l) == cn(w.node) for l in _add_leaves(subst(b, site_binds))):
                verdicts.append('keep')
            elif isinstance(b, ast.Call) and any(cn(a) == cn(w.node) for a in list(b.args) + [k.value for k in b.keywords]):
                why = _transform_ok(ctx, p, qn, b, norm(w.node), site_binds)
                if why is None:
                    raise Undecided(f'{qn}: `{short(s.stmt)}` transforms whitespace content with an unknown function')
                if why.startswith('!'):
                    ctx.violation(p.mod, qn, norm(s.stmt), why[1:], s.stmt, witness="indent_by = '' ; x = (a # c\n)")
                    return 'violation'
                verdicts.append('transform:' + why)
            else:
                verdicts.append('fresh')
        if all(v == 'keep' for v in verdicts):
            ctx.ok(f'{qn}: `{short(s.stmt, 60)}` concatenates onto the old content', nontrivial=False)
            return 'keeps'
        if all(v.startswith('transform:') or v == 'keep' for v in verdicts):
            ctx.ok(f'{qn}: `{short(s.stmt, 60)}`: justified - {[v[10:] for v in verdicts if v.startswith("transform:")][0]}')
            return 'justified-transform'

    def observer(ev: T.Any, sub: T.Callable[[ast.AST], ast.AST], notes: T.Dict[str, T.Any]) -> T.Optional[str]:
        st = ev.node
        if ev.kind == 'iter' and st is not None:
            # lines re-appended by a loop restore the content that an earlier reset removed
            if any(isinstance(n, ast.AugAssign) and norm(sub(n.target)) == loc for b in getattr(st, 'body', []) for n in ast.walk(b)):
                notes['reset'] = False
            return None
        if ev.kind != 'stmt' or st is None:
            return None
        if isinstance(st, (ast.Assign, ast.AugAssign)):
            tgts = st.targets if isinstance(st, ast.Assign) else [st.target]
            for t in tgts:
                tk = norm(sub(t))
                leaves = [norm(sub(l)) for l in _add_leaves(st.value)]
                if tk == loc and isinstance(st, ast.Assign) and loc not in leaves:
                    notes['reset'] = True    # the content was replaced earlier on this path (judged at that site) ...
                elif tk == loc:
                    notes['reset'] = False   # ... unless it has been appended to again since
                if tk == parent and isinstance(st, ast.Assign):
                    return 'skip'
                if tk != loc and tk.endswith('.value') and loc in leaves:
                    notes['moved'] = short(st, 70)
            if isinstance(st, ast.Assign) and len(st.targets) == 1 and isinstance(st.targets[0], ast.Name) and isinstance(st.value, ast.Call) \
                    and isinstance(st.value.func, ast.Attribute) and st.value.func.attr in SPLITTERS and norm(sub(st.value.func.value)) == loc:
                notes['captured'] = st.targets[0].id
            if isinstance(st, ast.Assign) and len(st.targets) == 1 and isinstance(st.targets[0], ast.Name) and norm(sub(st.value)) == parent:
                notes['alias'] = st.targets[0].id      # the whitespace node itself is kept in a local before it is unlinked
        for c in walk_no_nested(st):
            ma = _mover_args(p, c, movers) if isinstance(c, ast.Call) else None
            if ma is not None and norm(sub(ma[0])) + '.whitespaces' == parent:
                notes['moved'] = short(c, 70)
        return None

    failures: T.List[T.Tuple[str, Reach]] = []
    how: T.Set[str] = set()
    stable: T.Dict[str, T.Any] = {}
    m = re.match(r'^(.*)\.colons\[ANY\]\.whitespaces$', parent)
    if m and colons_inv:
        stable[m.group(1) + '.kwargs'] = True
    for sample in COMMENT_SAMPLES:
        hyp = Hyp(stable, {parent: PRESENT, loc: sample})
        rs = creach(ctx, p, fn, s.stmt, hyp, observer=observer)
        if not rs:
            how.add('guarded')
        for r in rs:
            if r.notes.get('reset'):
                how.add('guarded')
                continue
            if r.notes.get('moved'):
                how.add('moved')
                continue
            if r.notes.get('alias') and s.loc == 'node' and _alias_restored(fn, s.stmt, r.notes['alias']):
                how.add('moved')          # unlinked first, its content concatenated into another whitespace afterwards on every way out
                continue
            if r.notes.get('captured'):
                prob = _rebuild_ok(ctx, p, qn, fn, s.stmt, norm(w.node), r.notes['captured'])
                cut = _CUT_PROBLEMS.pop((id(ctx), qn), None)
                if cut is not None:
                    ctx.violation(p.mod, qn, cut[1:].split('|', 1)[0], cut.split('|', 1)[1], s.stmt,
                                  witness='x = 1  # see page\\x0c2  ->  x = 1  # see page2')
                    if prob is None:
                        return 'violation'
                if prob is None:
                    how.add('rebuilt')
                    continue
                ctx.violation(p.mod, qn, construct, f'whitespace content is split into lines and reset, but not every line is re-appended: {prob}', s.stmt)
                return 'violation'
            if r.notes.get('unknown'):
                raise Undecided(f'{qn}: the guard of `{short(s.stmt, 60)}` uses a test the evaluator does not understand: {r.notes["unknown"][0]}')
            failures.append((sample, r))
    if not failures:
        ctx.ok(f'{qn}: `{short(s.stmt, 60)}` ({s.what}): content {"/".join(sorted(how))} on every path when {parent} holds a comment')
        return '/'.join(sorted(how))
    # justified table (each entry re-checked structurally)
    why = _justified(ctx, p, qn, fn, s, parent, passes, failures)
    if why:
        ctx.ok(f'{qn}: `{short(s.stmt, 60)}` ({s.what}): justified - {why}')
        return 'justified'
    sample, r = failures[0]
    ctx.violation(p.mod, qn, construct,
                  f'{s.what}: when {parent} holds a comment ({sample!r}) the statement is still reached ({r.describe()}) and the comment is lost; '
                  'no guard (empty / no `#` / blank), no move_whitespaces and no re-append covers it', s.stmt)
    return 'violation'


def _justified(ctx: RuleCtx, p: Pass, qn: str, fn: ast.FunctionDef, s: Site, parent: str, passes: T.List[Pass],
               failures: T.List[T.Tuple[str, Reach]]) -> T.Optional[str]:
    model = NodeModel(ctx.repo)
    ty = Typer(model, p.mod, p.cls, fn, ctx.repo)
    # J1: the trailing comma popped by a later pass had its whitespace moved to the argument list by an earlier pass
    m = re.match(r'^(.*)\.commas\[-1\]\.whitespaces$', parent)
    if m and s.what.startswith('pops'):
        x = m.group(1)
        # the pop happens only when a trailing comma is present
        if any(creach(ctx, p, fn, s.stmt, h) for h in trailing_hyps(x, False)):
            return None
        entry = fn
        for _ in range(2):
            if entry.name.startswith('visit_'):
                break
            cs = _callers(p, entry)
            if len({id(c[0]) for c in cs}) != 1:
                break
            entry = cs[0][0]
        for q in passes:
            if q.name == p.name or entry.name not in _methods(q):
                continue
            g = _methods(q)[entry.name]
            mv = _movers(q)
            if not mv:
                continue
            y = _first_param(g)
            good = True
            n = 0
            unresolved: T.List[str] = []
            for h in trailing_hyps(y, True):
                _Inline(ctx, q).use()
                rs_q = reach(g, None, h, whole=True)
                _Inline(ctx, p).use()
                from .c16_sym import Evaluator, simplify
                inl_q = _Inline(ctx, q)
                for r in rs_q:
                    n += 1
                    moved = False
                    binds: T.Dict[str, ast.AST] = {}
                    for ev in r.prefix:
                        st = ev.node
                        if ev.kind != 'stmt' or st is None:
                            continue
                        for c in walk_no_nested(st):
                            ma = _mover_args(q, c, mv) if isinstance(c, ast.Call) else None
                            if ma is None:
                                continue
                            src, dst = subst(ma[0], binds), subst(ma[1], binds)
                            if isinstance(src, ast.Call):
                                src = inl_q.resolve(src) or src          # the element is selected by a helper
                            src = simplify(src, Evaluator(dict(h.stable), None, None, h.atoms))
                            if norm(dst) != y:
                                continue
                            if norm(src) == f'{y}.commas[-1]':
                                moved = True
                            elif attr_chain(src.value if isinstance(src, ast.Subscript) else src) is None or isinstance(src, ast.Name):
                                # the source of the move is computed by code the rule cannot resolve to an access path
                                unresolved.append(f'{q.name}.{fn.name}: cannot tell which element `{short(c, 70)}` moves the whitespace of '
                                                  f'when a trailing comma is present (resolved to `{short(src, 60)}`)')
                                moved = True     # not evidence against the justification
                        if isinstance(st, ast.Assign) and len(st.targets) == 1 and isinstance(st.targets[0], ast.Name):
                            binds[st.targets[0].id] = subst(st.value, binds)
                    good = good and moved
            if good and unresolved:
                raise Undecided(unresolved[0])
            if good and n and _pass_order(ctx, q.name, p.name):
                return (f'{q.name}.{entry.name} moves the whitespace of the trailing comma to the argument list on all {n} path(s) with a trailing comma, '
                        f'and Formatter.format runs {q.name} before {p.name} in every round')
        return None
    # J2: inner.whitespaces of a parenthesised expression that is not multiline
    m = re.match(r'^(.*)\.inner\.whitespaces$', parent)
    if m and s.loc == 'node':
        x = m.group(1)
        e = ast.parse(x, mode='eval').body
        if not all(t in model.classes and model.is_sub(t, 'ParenthesizedNode') for t in ty.of(e)):
            return None
        _Inline(ctx, p).use()
        if reach(fn, s.stmt, Hyp({f'{x}.is_multiline': True})):
            return None
        dets = set()
        for sample, r in failures:
            d = None
            for ev in r.prefix:
                st = ev.node
                if ev.kind == 'stmt' and isinstance(st, ast.Expr) and isinstance(st.value, ast.Call) and isinstance(st.value.func, ast.Attribute) \
                        and st.value.func.attr == 'accept' and norm(st.value.func.value) == f'{x}.inner' and len(st.value.args) == 1:
                    a = subst(st.value.args[0], r.binds)
                    if isinstance(a, ast.Call) and attr_chain(a.func) is not None:
                        d = norm(a)
                elif ev.kind == 'stmt' and isinstance(st, ast.Assign) and isinstance(st.value, ast.Call) and any(norm(a0) == f'{x}.inner' for a0 in st.value.args):
                    # x = Detector.run(node.inner): a helper that builds the detector, runs it over the argument and returns what it recorded
                    inl = _Inline(ctx, p).resolve(st.value)
                    ctor = [n for n in ast.walk(inl) if isinstance(n, ast.Call) and (attr_chain(n.func) or '') in [q.name for q in passes]] if inl is not None else []
                    if len(ctor) == 1 and norm(inl).startswith(norm(ctor[0]) + '.'):
                        d = norm(ctor[0])
            if d is None:
                return None
            dets.add(d)
        for d in dets:
            cname = d.split('(')[0].split('.')[-1]
            det = [q for q in passes if q.name == cname]
            if not det or 'exit_node' not in _methods(det[0]):
                return None
            rec = [n for n in ast.walk(_methods(det[0])['exit_node']) if isinstance(n, ast.Assign) and norm(n.targets[0]) == 'self.last_whitespaces'
                   and norm(n.value).endswith('.whitespaces')]
            if not rec:
                return None
            for sample in COMMENT_SAMPLES[:1]:
                if reach(fn, s.stmt, Hyp({f'{d}.last_whitespaces': PRESENT, f'{d}.last_whitespaces.value': sample})):
                    return None
        return ('reached only when the node is not multiline, i.e. the detector run on the inner expression saw no newline in the last whitespace '
                '(a comment is always followed by a newline); unreachable when that whitespace holds a comment line')
    return None


# ---------------------------------------------------------------------------
# R4: check mode

def _single_defs(fn: ast.AST) -> T.Dict[str, ast.AST]:
    defs: T.Dict[str, T.List[ast.AST]] = {}
    for n in ast.walk(fn):
        if isinstance(n, ast.Assign):
            for t in n.targets:
                for x in ast.walk(t):
                    if isinstance(x, ast.Name):
                        defs.setdefault(x.id, []).append(n.value if t is x else None)  # type: ignore[arg-type]
        elif isinstance(n, (ast.AugAssign, ast.AnnAssign)) and isinstance(n.target, ast.Name):
            defs.setdefault(n.target.id, []).append(n.value if isinstance(n, ast.AnnAssign) else None)  # type: ignore[arg-type]
        elif isinstance(n, (ast.For, ast.comprehension)):
            for x in ast.walk(n.target):
                if isinstance(x, ast.Name):
                    defs.setdefault(x.id, []).append(None)  # type: ignore[arg-type]
        elif isinstance(n, ast.withitem) and n.optional_vars is not None:
            for x in ast.walk(n.optional_vars):
                if isinstance(x, ast.Name):
                    defs.setdefault(x.id, []).append(None)  # type: ignore[arg-type]
    return {k: v[0] for k, v in defs.items() if len(v) == 1 and v[0] is not None}


def _write_sinks(mod: Module, scope: ast.AST) -> T.List[T.Tuple[ast.Call, ast.AST]]:
    """(call, text expression) for every text written inside scope: `.write(X)`, `print(X, end=..)`, and calls of module
    functions that hand a parameter to `.write()` (arguments bound by signature)."""
    from .c16_sym import bind_args
    out: T.List[T.Tuple[ast.Call, ast.AST]] = []
    for c in ast.walk(scope):
        if not isinstance(c, ast.Call):
            continue
        if isinstance(c.func, ast.Attribute) and c.func.attr == 'write' and len(c.args) == 1:
            out.append((c, c.args[0]))
        elif isinstance(c.func, ast.Attribute) and c.func.attr == 'writelines' and len(c.args) == 1 and isinstance(c.args[0], (ast.List, ast.Tuple)):
            out.extend((c, x) for x in c.args[0].elts)
        elif isinstance(c.func, ast.Name) and c.func.id == 'print' and any(k.arg == 'end' for k in c.keywords) and len(c.args) == 1:
            out.append((c, c.args[0]))
        elif isinstance(c.func, ast.Name) and mod.has_func(c.func.id):
            g = mod.func(c.func.id)
            params = {a.arg for a in g.args.posonlyargs + g.args.args + g.args.kwonlyargs}
            written = [x for _, x in _write_sinks(mod, g) if isinstance(x, ast.Name) and x.id in params] if g is not scope else []
            if written:
                m = bind_args(g, c, False)
                if m is None:
                    raise Undecided(f'run(): cannot bind the arguments of `{short(c)}`')
                for x in written:
                    if x.id in m:
                        out.append((c, m[x.id]))
    return out


def r4(ctx: RuleCtx) -> None:
    from .c16_sym import helper_expression, bind_args
    mod = ctx.repo.module(MF)
    fn = mod.func('run')
    # the formatted text and its input (found by role: result / first argument of <formatter>.format(..) inside a loop)
    fmt = [n for n in ast.walk(fn) if isinstance(n, ast.Assign) and isinstance(n.value, ast.Call) and isinstance(n.value.func, ast.Attribute)
           and n.value.func.attr == 'format' and len(n.targets) == 1 and isinstance(n.targets[0], ast.Name) and len(n.value.args) >= 1
           and not isinstance(n.value.func.value, ast.Constant)]
    if len(fmt) != 1 or not isinstance(fmt[0].value.args[0], ast.Name):  # type: ignore[attr-defined]
        raise Undecided('run(): `formatted = formatter.format(code, ...)` not found')
    loops = [s for s in ast.walk(fn) if isinstance(s, (ast.While, ast.For)) and any(x is fmt[0] for x in ast.walk(s))]
    if not loops:
        raise Undecided('run(): the formatting is not inside a loop over the sources')
    loop = loops[0]
    out_v = fmt[0].targets[0].id  # type: ignore[attr-defined]
    in_v = fmt[0].value.args[0].id  # type: ignore[attr-defined]
    others = [n for n in ast.walk(loop) if isinstance(n, (ast.Assign, ast.AugAssign)) and n is not fmt[0]
              and any(isinstance(t, ast.Name) and t.id == out_v for t in (n.targets if isinstance(n, ast.Assign) else [n.target]))]
    ctx.require(not others, f'run(): `{out_v}` is only the result of format({in_v}, ..)', mod, 'run', others[0] if others else fn,
                f'`{out_v}` is modified after formatting: what is compared/written is no longer the formatter output')
    sdefs = _single_defs(fn)
    aliases = {k for k, v in sdefs.items() if isinstance(v, ast.Name) and v.id == out_v} | {out_v}
    # every sink of the formatted text receives it unchanged
    n_sinks = 0
    for c, x in _write_sinks(mod, loop):
        names = {n.id for n in ast.walk(x) if isinstance(n, ast.Name)}
        if not (names & aliases):
            continue          # some other text (a diff, a message)
        n_sinks += 1
        ctx.require(isinstance(x, ast.Name), f'run(): `{short(c)}` writes the formatter output', mod, 'run', c,
                    f'`{short(c)}` writes `{short(x)}`, a text derived from `{out_v}`, not the text that check mode compares', c)
    ctx.floor('sinks of the formatted text in run()', n_sinks, 1)
    # the status variable, by role: what run() returns
    rets = [n for n in ast.walk(fn) if isinstance(n, ast.Return) and not any(n in ast.walk(g) for g in ast.walk(fn) if isinstance(g, (ast.FunctionDef, ast.Lambda)) and g is not fn)]
    rnames = {norm(r.value) for r in rets if r.value is not None}
    if len(rnames) != 1 or not all(isinstance(r.value, ast.Name) for r in rets):
        raise Undecided(f'run(): the exit status is not one variable returned at the end ({sorted(rnames)})')
    ev = rnames.pop()
    inits = [n for n in fn.body if isinstance(n, (ast.Assign, ast.AnnAssign)) and norm(n.targets[0] if isinstance(n, ast.Assign) else n.target) == ev]
    if len(inits) != 1 or not isinstance(inits[0].value, ast.Constant):
        raise Undecided(f'run(): initial value of `{ev}` not found')
    ctx.require(not inits[0].value.value, f'`{ev}` starts at 0', mod, 'run', inits[0], f'`{ev}` starts at {inits[0].value.value!r}: run() reports a difference before looking at any file', inits[0])

    def effects(st: ast.AST) -> T.Optional[str]:
        if isinstance(st, (ast.Assign, ast.AugAssign, ast.AnnAssign)):
            tg = st.targets if isinstance(st, ast.Assign) else [st.target]
            if any(norm(t) == ev for t in tg):
                return norm(st)
        return None
    tab = tables.extract(fn, body=loop.body, effects=effects, inline=False, name='run:loop')
    opt = next((a.arg for a in fn.args.args), 'options')

    def flag(name: str) -> T.List[Atom]:
        out = [Atom('truth', (f'ARG1.{name}',))]
        out += [Atom('truth', (k,)) for k, v in sdefs.items() if norm(v) == f'{opt}.{name}']
        return out
    eq_atom = Atom('cmp', ('eq', *sorted((in_v, out_v))))
    # a comparison bound to a local first, or made by a module helper `return a != b`
    alias_eq: T.Dict[Atom, bool] = {}
    for k, v in sdefs.items():
        a, pol = tables.canon(v, True)
        if a == eq_atom:
            alias_eq[Atom('truth', (k,))] = pol

    def eq_of(r: tables.Row) -> T.Tuple[T.Optional[bool], T.List[Atom]]:
        """(do the texts compare equal on this row, atoms about both texts that are not understood)."""
        res: T.Optional[bool] = None
        unknown: T.List[Atom] = []
        for a, val in r.conds.items():
            if a == eq_atom:
                res = val
            elif a in alias_eq:
                res = val if alias_eq[a] else not val
            elif in_v in str(a.args) and out_v in str(a.args):
                e = ast.parse(a.args[0], mode='eval').body if a.kind == 'truth' else None
                if isinstance(e, ast.Call) and isinstance(e.func, ast.Name) and mod.has_func(e.func.id):
                    g = mod.func(e.func.id)
                    he, m = helper_expression(g), bind_args(g, e, False)
                    if he is not None and m is not None:
                        a2, pol = tables.canon(subst(he, m), True)
                        if a2 == eq_atom:
                            res = val if pol else not val
                            continue
                unknown.append(a)
        return res, unknown

    def val_of(r: tables.Row, atoms: T.List[Atom]) -> T.Optional[bool]:
        for a in atoms:
            if a in r.conds:
                return r.conds[a]
        return None
    n_rows = n_check = 0
    bad: T.Dict[str, T.Tuple[tables.Row, str]] = {}
    for r in tab.rows:
        if r.outcome[0] == 'raise' or not any(e.node is fmt[0] for e in r.path.events):
            continue
        n_rows += 1
        inpl = val_of(r, flag('inplace'))
        if inpl is None:
            raise Undecided(f'run(): a path after formatting does not test options.inplace: {r!r}')
        # a mode flag the path never tests may have either value: the path also serves the worlds where it is set.
        # Worlds over (check_only, check_diff) consistent with every atom of the row that is a function of the two flags
        # (the flags themselves, or a local such as `check_mode = options.check_only or options.check_diff`).
        from .c16_sym import Evaluator, truth as _truth
        worlds = []
        for co in (True, False):
            for cd in (True, False):
                env = {f'{opt}.check_only': co, f'{opt}.check_diff': cd}
                okw = True
                for a2, val in r.conds.items():
                    if a2.kind != 'truth':
                        continue
                    txt = a2.args[0].replace('ARG1.', f'{opt}.')
                    try:
                        e2 = ast.parse(txt, mode='eval').body
                    except SyntaxError:
                        continue
                    e2 = subst(e2, {k: v for k, v in sdefs.items() if k not in (in_v, out_v)})
                    t2 = _truth(Evaluator(env).ev(e2))
                    if t2 is not None and t2 != val:
                        okw = False
                if okw:
                    worlds.append((co, cd))
        check = (not inpl) and any(co or cd for co, cd in worlds)
        eq, unknown = eq_of(r)
        sets = list(r.effects)
        if unknown:
            e = ast.parse(unknown[0].args[-1] if unknown[0].kind == 'truth' else 'None', mode='eval').body
            derived = unknown[0].kind == 'cmp' or isinstance(e, ast.Compare)
            if not derived:
                raise Undecided(f'run(): the texts are compared by `{unknown[0]!r}`, which the rule cannot see into')
            # a comparison of texts *derived* from the two (stripped, sliced ...): not the texts read / written
            bad.setdefault('cmp', (r, f'check mode compares `{unknown[0]!r}`, not the text read with the text that would be written ({in_v} != {out_v})'))
            continue
        if check:
            n_check += 1
            if eq is None:
                # closed world: nothing on this path is handed both texts
                derived_by = ''
                for e2 in r.path.events:
                    if e2.node is None or e2.node is fmt[0]:
                        continue
                    for c in ast.walk(e2.node):
                        if isinstance(c, ast.Call):
                            cargs = list(c.args) + [k.value for k in c.keywords]
                            names = {n.id for a in cargs for n in ast.walk(a) if isinstance(n, ast.Name)}
                            if in_v in names and names & aliases:
                                bare = any(isinstance(a, ast.Name) and a.id in aliases | {in_v} for a in cargs)
                                in_repo = (isinstance(c.func, ast.Name) and mod.has_func(c.func.id)) or (attr_chain(c.func) or '').startswith('self.')
                                if bare or in_repo:
                                    raise Undecided(f'run(): in check mode the two texts are handed to `{short(c)}`, which the rule does not follow')
                                derived_by = short(c, 90)     # an external function is given texts derived from the two, never the texts
                bad.setdefault('nocmp', (r, f'in check mode a path does not compare {in_v} with {out_v}'
                                         + (f'; it only derives other values from them for `{derived_by}`' if derived_by else '') + f': {r!r}'))
                continue
            differs = not eq
            truthy = [s2 for s2 in sets if re.fullmatch(rf'{re.escape(ev)} = (1|True)', s2)]
            if differs and sets and len(truthy) != len(sets) or (not differs and sets):
                bad.setdefault(f'set{differs}', (r, f'check mode, texts {"differ" if differs else "are equal"}: the path does {sets}, expected '
                                                 f'{f"{ev} = 1" if differs else "no change of the status"} ({r!r})'))
            elif differs and not sets:
                bad.setdefault('notset', (r, f'check mode, texts differ: the path leaves `{ev}` unchanged ({r!r})'))
        elif sets:
            bad.setdefault('noncheck', (r, f'status is modified outside check mode: {r!r}'))
        if r.outcome[0] in ('break', 'return') and not (check and eq is False):
            # the remaining sources are never examined: allowed only once a difference has been found in check mode
            if eq is None and not check:
                raise Undecided(f'run(): the loop over the sources ends early on a path the rule does not understand: {r!r}')
            bad.setdefault('early', (r, f'the loop over the sources stops ({r.outcome[0]}) although no difference was found for this file; '
                                        f'the remaining sources are not examined: {r!r}'))
    for k, (r, msg) in bad.items():
        node = next((e.node for e in reversed(r.path.events) if e.kind == 'cond'), fn)
        ctx.violation(mod, 'run', f'check-mode status [{k}]', msg, node)
    if not bad:
        ctx.ok(f'run(): on {n_rows} paths after formatting ({n_check} in check mode) `{ev}` becomes 1 iff check mode and {in_v} != {out_v}')
    ctx.floor('check-mode paths', n_check, 2)


def r5(ctx: RuleCtx) -> None:
    """Sorting must be applied to the argument list that stays: on no path may a sort of X.args be followed by a store that
    replaces X.args (the sorted list would be the discarded one; the installed elements stay unsorted until the next run)."""
    model = NodeModel(ctx.repo)
    passes = _passes(ctx)
    sorters: T.Dict[T.Tuple[str, str], str] = {}
    per_fn: T.List[T.Tuple[Pass, str, ast.FunctionDef, T.List[T.Tuple[ast.stmt, str]], T.List[T.Tuple[ast.stmt, str]]]] = []
    info: T.Dict[int, T.Tuple[T.List[T.Tuple[ast.stmt, str]], T.List[T.Tuple[ast.stmt, str]]]] = {}
    for p in passes:
        for mname, fn in _methods(p).items():
            ty = Typer(model, p.mod, p.cls, fn, ctx.repo)
            sorts: T.List[T.Tuple[ast.stmt, str]] = []
            stores: T.List[T.Tuple[ast.stmt, str]] = []
            for w in collect_writes(fn):
                if w.obj is None or attr_chain(w.obj) == 'self':
                    continue
                try:
                    kind, _ = classify(w, ty, model, fn)
                except Undecided:
                    continue
                if kind == 'sem:sort':
                    x = norm(w.obj)
                    if x in [a.arg for a in fn.args.args]:
                        sorters[(p.name, fn.name)] = x
                    else:
                        sorts.append((w.stmt, x))
                elif kind == 'sem:flatten':
                    stores.append((w.stmt, norm(w.node)))
            info[id(fn)] = (sorts, stores)
            per_fn.append((p, f'{p.name}.{mname}', fn, sorts, stores))
    from .c16_sym import stmt_of, bind_args, fn_paths
    for p, qn, fn, sorts, stores in per_fn:
        for c in ast.walk(fn):
            if isinstance(c, ast.Call) and isinstance(c.func, ast.Attribute) and attr_chain(c.func.value) == 'self' and (p.name, c.func.attr) in sorters:
                f0 = _methods(p)[c.func.attr]
                m = bind_args(f0, c, True)
                prm = sorters[(p.name, c.func.attr)]
                if m is None or prm not in m:
                    raise Undecided(f'{qn}: cannot bind the arguments of `{short(c)}`')
                sorts.append((stmt_of(fn, c), norm(m[prm])))
    n = 0
    for p, qn, fn, sorts, stores in per_fn:
        if not sorts or not stores:
            continue
        for path in fn_paths(fn, 1):
            order = [(i, e.node) for i, e in enumerate(path.events) if e.kind == 'stmt']
            for sst, sx in sorts:
                for fst, fx in stores:
                    if not (sx == fx or sx.startswith(fx + '.')):
                        continue
                    si = next((i for i, nd in order if nd is sst), None)
                    fi = next((i for i, nd in order if nd is fst), None)
                    if si is not None and fi is not None and si < fi:
                        ctx.violation(p.mod, qn, f'sort of {sx}  [before]  replacement of {fx}',
                                      f'`{short(sst, 60)}` sorts {sx}, then `{short(fst, 60)}` replaces {fx} on the same path: the list that was sorted is '
                                      'discarded and the installed arguments stay unsorted until the next run (formatting twice gives a different result)', sst,
                                      witness="sort_files = true ; x = files(['b', 'a'])  ->  files('b', 'a')  ->  files('a', 'b')")
                        break
                else:
                    continue
                break
            else:
                continue
            break
        else:
            n += 1
            ctx.ok(f'{qn}: on every path the argument list is replaced before it is sorted ({len(sorts)} sort(s), {len(stores)} replacement(s))')
    if not n and not any(c.findings for c in [ctx]):
        ctx.ok('no function both sorts and replaces an argument list', nontrivial=False)


def _const_choice(text: str) -> bool:
    """A conditional expression whose every outcome is a string constant (a prefix / quote selected by a flag)."""
    try:
        e = ast.parse(text, mode='eval').body
    except SyntaxError:
        return False

    def ok(x: ast.AST) -> bool:
        if isinstance(x, ast.IfExp):
            return ok(x.body) and ok(x.orelse)
        return isinstance(x, ast.Constant) and isinstance(x.value, str)
    return ok(e)


def r6(ctx: RuleCtx) -> None:
    """Printer / constructor agreement for string literals: StringNode.__init__ decodes the escapes into `value` exactly when the
    literal is not triple-quoted and keeps the token text in `raw_value`; so, for a plain literal, the printer must emit the field
    that still holds the token text."""
    from .c16_sym import Evaluator, simplify
    mp = ctx.repo.module(MP)
    init = mp.func('StringNode.__init__')
    # which field is decoded, in which world (read from the constructor)
    decoded: T.Set[str] = set()
    for hypv in (False, True):
        for r in reach(init, None, Hyp({"'multiline' in token.tid": hypv, 'escape': True}), whole=True):
            for ev in r.prefix:
                st = ev.node
                if ev.kind == 'stmt' and isinstance(st, ast.Assign) and isinstance(st.value, ast.Call) and (call_name(st.value) or '').endswith('.escape'):
                    for t in st.targets:
                        if attr_chain(t) and attr_chain(t).startswith('self.') and not hypv:       # type: ignore[union-attr]
                            decoded.add(attr_chain(t)[5:])                                          # type: ignore[index]
                        elif hypv:
                            raise Undecided('StringNode.__init__ decodes escapes of a triple-quoted literal: the model of the two forms does not apply')
    if decoded != {'value'}:
        raise Undecided(f'StringNode.__init__: fields decoded for a plain literal are {sorted(decoded)} (expected value only)')
    pr = ctx.repo.resolve_class(ctx.repo.module(MF), 'RawPrinter')
    if pr is None:
        raise Undecided('RawPrinter not found')
    pm, pc = pr
    fn = next((st for st in pc.body if isinstance(st, ast.FunctionDef) and st.name == 'visit_StringNode'), None)
    if fn is None:
        raise Undecided('RawPrinter.visit_StringNode not found')
    x = _first_param(fn)
    n = 0
    for r in reach(fn, None, Hyp({f'{x}.is_multiline': False}), whole=True):
        ev_ = Evaluator({f'{x}.is_multiline': False})
        fields: T.Set[str] = set()
        for e in r.prefix:
            st = e.node
            if e.kind != 'stmt' or not isinstance(st, (ast.AugAssign, ast.Assign)):
                continue
            tg = st.target if isinstance(st, ast.AugAssign) else st.targets[0]
            if attr_chain(tg) is None or not attr_chain(tg).startswith('self.'):        # type: ignore[union-attr]
                continue
            binds: T.Dict[str, ast.AST] = {}
            for e2 in r.prefix:
                if e2 is e:
                    break
                if e2.kind == 'stmt' and isinstance(e2.node, ast.Assign) and len(e2.node.targets) == 1 and isinstance(e2.node.targets[0], ast.Name):
                    binds[e2.node.targets[0].id] = simplify(subst(e2.node.value, binds), ev_)
            tpl = _template(simplify(subst(st.value, binds), ev_))
            if tpl is None:
                raise Undecided(f'RawPrinter.visit_StringNode: cannot read the text emitted by `{short(st)}`')
            for kind, v in tpl:
                if kind == 'expr' and v.startswith(x + '.'):
                    fields.add(v[len(x) + 1:])
                elif kind == 'expr' and v != norm(tg) and not _const_choice(v):
                    raise Undecided(f'RawPrinter.visit_StringNode emits `{v}`, which the rule cannot relate to the literal')
        n += 1
        bad = fields & decoded
        ctx.require(not bad, f'RawPrinter.visit_StringNode: a plain literal is printed from {sorted(fields)} (token text), not from the decoded field', pm,
                    'RawPrinter.visit_StringNode', f'plain literal printed from {sorted(bad)}',
                    f'for a literal that is not triple-quoted the printer emits `{x}.{sorted(bad)[0] if bad else ""}`, which StringNode.__init__ has decoded '
                    "(escape sequences replaced): 'C:\\\\tools' is written back as 'C:\\tools' and re-read with a TAB", fn)
    ctx.floor('paths of RawPrinter.visit_StringNode for a plain literal', n, 1)


def r7(ctx: RuleCtx) -> None:
    """Option table: the config-file getter of every option agrees with its declared type (a bool option read with a string
    getter makes `sort_files = false` a truthy string) and so does its default."""
    mod = ctx.repo.module(MF)
    want = {'bool': {'getboolean'}, 'int': {'getint'}, 'str': {'getstr', 'get'}}
    n = 0
    for cname, cls in mod.classes().items():
        if '.' in cname:
            continue
        for st in cls.body:
            if not (isinstance(st, ast.AnnAssign) and isinstance(st.target, ast.Name) and isinstance(st.value, ast.Call)
                    and (attr_chain(st.value.func) or '').split('.')[-1] == 'field'):
                continue
            md = kwarg_of(st.value, 'metadata')
            if md is None:
                continue
            if isinstance(md, ast.Call) and isinstance(md.func, ast.Name) and md.func.id == 'dict' and not md.args:
                items = {k.arg: k.value for k in md.keywords if k.arg}
            elif isinstance(md, ast.Dict) and all(isinstance(k, ast.Constant) for k in md.keys):
                items = {k.value: v for k, v in zip(md.keys, md.values)}        # type: ignore[union-attr]
            else:
                raise Undecided(f'{cname}.{st.target.id}: metadata is not a literal table')
            if 'getter' not in items:
                continue
            ann = st.annotation
            while isinstance(ann, ast.Subscript) and (attr_chain(ann.value) or '').split('.')[-1] == 'Optional':
                ann = ann.slice
            head = (attr_chain(ann.value) if isinstance(ann, ast.Subscript) else attr_chain(ann)) or ''
            head = head.split('.')[-1]
            kind = {'bool': 'bool', 'int': 'int', 'str': 'str', 'Literal': 'str'}.get(head)
            if kind is None:
                continue                   # a union of spellings: read as text and converted by the code that uses it
            g = attr_chain(items['getter'])
            if g is None:
                raise Undecided(f'{cname}.{st.target.id}: getter {short(items["getter"])} is not a method reference')
            n += 1
            ctx.require(g.split('.')[-1] in want[kind], f'{cname}.{st.target.id}: {kind} option read with {g.split(".")[-1]}', mod, cname, f'{st.target.id}: getter',
                        f'option {st.target.id} is declared {kind} but read from the configuration file with {g}: '
                        + ("any non-empty text, including 'false', is then truthy" if kind == 'bool' else 'the value has the wrong type'), st)
            d = items.get('default')
            if isinstance(d, ast.Constant) and d.value is not None:
                ctx.require(type(d.value).__name__ == kind, f'{cname}.{st.target.id}: default {d.value!r} is a {kind}', mod, cname, f'{st.target.id}: default',
                            f'option {st.target.id} is declared {kind} but its default is {d.value!r}', st)
    if n == 0:
        raise Undecided('no option table with getters found in mformat.py (options are declared in a form the rule does not read)')
    ctx.note(f'{n} options with a getter')


def kwarg_of(call: ast.Call, name: str) -> T.Optional[ast.AST]:
    return next((k.value for k in call.keywords if k.arg == name), None)


# ---------------------------------------------------------------------------
# R8: trivia moved up onto a composite node comes from the child the printer emits last

_EMPTY = ('empty',)
_NODE = ('node',)
Desig = T.Tuple[T.Any, ...]


class _PrintOrder:
    """Which child of a node can be the LAST thing the printer class emits for it, read from the traversal methods the printer
    resolves (`visit_X` through the MRO, `self.visit_Y(node)` / `super().visit_Y(node)` delegation, helper methods taking the
    node).  Children are designated by role: ('attr', a) = node.a, ('last', a) = last element of node.a, ('any', a) = an element
    of node.a pulled from an iterator, ('first', a), ('index', a, k).  Nothing is executed: statement lists are folded left to
    right into the set of children that may be emitted last (a statement that may emit nothing keeps the earlier candidates)."""

    def __init__(self, ctx: RuleCtx, mod: Module, cls: ast.ClassDef):
        self.ctx, self.mod, self.cls = ctx, mod, cls
        self.mro = ctx.repo.mro(mod, cls)

    # -- designators ---------------------------------------------------------------------------------------------
    @staticmethod
    def desig(e: ast.AST, env: T.Dict[str, T.Any]) -> T.Optional[Desig]:
        if isinstance(e, ast.Name):
            v = env.get(e.id)
            return v if isinstance(v, tuple) and v and isinstance(v[0], str) and v[0] not in ('iter', 'tuple', 'const') else None
        if isinstance(e, ast.Attribute) and isinstance(e.value, ast.Name) and env.get(e.value.id) == _NODE:
            return ('attr', e.attr)
        if isinstance(e, ast.Call) and attr_chain(e.func) == 'getattr' and len(e.args) == 2 and isinstance(e.args[0], ast.Name) \
                and env.get(e.args[0].id) == _NODE:
            a = e.args[1]
            if isinstance(a, ast.Constant) and isinstance(a.value, str):
                return ('attr', a.value)
            if isinstance(a, ast.Name) and isinstance(env.get(a.id), tuple) and env[a.id][0] == 'const':
                return ('attr', env[a.id][1])
            return None
        if isinstance(e, ast.Call) and attr_chain(e.func) == 'next' and e.args and isinstance(e.args[0], ast.Name):
            it = env.get(e.args[0].id)
            return ('any', it[1]) if isinstance(it, tuple) and it and it[0] == 'iter' else None
        if isinstance(e, ast.Subscript):
            base = _PrintOrder.desig(e.value, env)
            if base is not None and base[0] == 'attr':
                k = e.slice
                if isinstance(k, ast.UnaryOp) and isinstance(k.op, ast.USub) and isinstance(k.operand, ast.Constant) and isinstance(k.operand.value, int):
                    kv: T.Any = -k.operand.value
                elif isinstance(k, ast.Constant) and isinstance(k.value, int):
                    kv = k.value
                else:
                    return ('any', base[1])              # a computed position
                return ('last', base[1]) if kv == -1 else (('first', base[1]) if kv == 0 else ('index', base[1], kv))
        return None

    @staticmethod
    def elements(it: ast.AST, env: T.Dict[str, T.Any]) -> T.Any:
        """Designator(s) of what the loop variable holds in the last iteration over `it` (a ('tuple', ...) for destructuring)."""
        if isinstance(it, ast.Name) and isinstance(env.get(it.id), tuple) and env[it.id][0] == 'display':
            return env[it.id][1]
        d = _PrintOrder.desig(it, env)
        if d is not None and d[0] == 'attr':
            return ('last', d[1])
        if isinstance(it, (ast.Tuple, ast.List)) and it.elts:
            lastel = it.elts[-1]
            if isinstance(lastel, ast.Starred):
                return _PrintOrder.elements(lastel.value, env)
            if isinstance(lastel, ast.Constant) and isinstance(lastel.value, str):
                return ('const', lastel.value)
            return _PrintOrder.desig(lastel, env)
        if isinstance(it, ast.Call):
            cn = attr_chain(it.func) or ''
            if isinstance(it.func, ast.Attribute) and it.func.attr in ('values', 'keys', 'items') and not it.args:
                d = _PrintOrder.desig(it.func.value, env)
                if d is not None and d[0] == 'attr':
                    if it.func.attr == 'items':
                        return ('tuple', ('last', d[1] + '.keys'), ('last', d[1] + '.values'))
                    return ('last', d[1] + '.' + it.func.attr)
                return None
            if cn in ('list', 'tuple', 'iter') and len(it.args) == 1:
                return _PrintOrder.elements(it.args[0], env)
            if cn == 'zip':
                return ('tuple',) + tuple(_PrintOrder.elements(a, env) for a in it.args)
            if cn.split('.')[-1] == 'zip_longest':
                parts = []
                for a in it.args:
                    x = _PrintOrder.elements(a, env)
                    parts.append(('any', x[1]) if isinstance(x, tuple) and x and x[0] == 'last' else None)
                return ('tuple',) + tuple(parts)
            if cn == 'enumerate' and it.args:
                return ('tuple', None, _PrintOrder.elements(it.args[0], env))
            if cn == 'reversed' and len(it.args) == 1:
                x = _PrintOrder.elements(it.args[0], env)
                return ('first', x[1]) if isinstance(x, tuple) and x and x[0] == 'last' else None
        return None

    @staticmethod
    def bind(tg: ast.AST, el: T.Any, env: T.Dict[str, T.Any]) -> None:
        if isinstance(tg, ast.Name):
            env[tg.id] = el
        elif isinstance(tg, (ast.Tuple, ast.List)):
            parts = el[1:] if isinstance(el, tuple) and el and el[0] == 'tuple' and len(el) - 1 == len(tg.elts) else [None] * len(tg.elts)
            for t, x in zip(tg.elts, parts):
                _PrintOrder.bind(t, x, env)

    # -- statements ----------------------------------------------------------------------------------------------
    @staticmethod
    def _emits(n: ast.AST) -> bool:
        for c in ast.walk(n):
            if isinstance(c, ast.Call) and isinstance(c.func, ast.Attribute):
                if c.func.attr == 'accept' or attr_chain(c.func.value) in ('self', 'super()') or \
                        (isinstance(c.func.value, ast.Call) and attr_chain(c.func.value.func) == 'super'):
                    return True
        return False

    def find(self, name: str, after: T.Optional[ast.ClassDef]) -> T.Optional[T.Tuple[Module, ast.ClassDef, ast.FunctionDef]]:
        seen_after = after is None
        for m, c in self.mro:
            if not seen_after:
                seen_after = c is after
                continue
            for st in c.body:
                if isinstance(st, ast.FunctionDef) and st.name == name:
                    return m, c, st
                if isinstance(st, (ast.Assign, ast.AnnAssign)) and st.value is not None:
                    tgs = st.targets if isinstance(st, ast.Assign) else [st.target]
                    if any(isinstance(t, ast.Name) and t.id == name for t in tgs):
                        return m, c, self.bound_method(m, c, name, st.value, 0)
        return None

    def bound_method(self, m: Module, c: ast.ClassDef, name: str, v: ast.AST, depth: int) -> ast.FunctionDef:
        """The function a class-level binding `name = V` makes a method: another def of the class body (`name = other`), or the
        closure a module-level factory returns (`name = factory(consts..)`, factory = [docstring] def inner(self, node): ..; return
        inner): the inner def with the factory's parameters bound in front of its body (`*rest` as the tuple of the surplus
        arguments).  Anything else is not read."""
        if depth > 3:
            raise Undecided(f'{c.name}.{name}: class-level method bindings are chained too deeply')
        if isinstance(v, ast.Name):
            for st in c.body:
                if isinstance(st, ast.FunctionDef) and st.name == v.id:
                    return st
                if isinstance(st, ast.Assign) and any(isinstance(t, ast.Name) and t.id == v.id for t in st.targets):
                    return self.bound_method(m, c, v.id, st.value, depth + 1)
        if isinstance(v, ast.Call) and isinstance(v.func, ast.Name) and m.has_func(v.func.id):
            fac = m.func(v.func.id)
            body = [s for s in fac.body if not (isinstance(s, ast.Expr) and isinstance(s.value, ast.Constant) and isinstance(s.value.value, str))]
            a = fac.args
            if len(body) == 2 and isinstance(body[0], ast.FunctionDef) and isinstance(body[1], ast.Return) and isinstance(body[1].value, ast.Name) \
                    and body[1].value.id == body[0].name and not fac.decorator_list and not body[0].decorator_list and not a.kwarg \
                    and not any(isinstance(x, ast.Starred) for x in v.args) and all(k.arg is not None for k in v.keywords):
                inner = body[0]
                params = [x.arg for x in a.posonlyargs + a.args]
                vals: T.Dict[str, ast.AST] = dict(zip(params, v.args))
                surplus = list(v.args[len(params):])
                if surplus and not a.vararg:
                    raise Undecided(f'{c.name}.{name}: cannot bind the arguments of `{short(v)}`')
                if a.vararg:
                    vals[a.vararg.arg] = ast.Tuple(elts=surplus, ctx=ast.Load())
                kwonly = [x.arg for x in a.kwonlyargs]
                for k in v.keywords:
                    if k.arg in vals or k.arg not in params + kwonly:
                        raise Undecided(f'{c.name}.{name}: cannot bind the arguments of `{short(v)}`')
                    vals[T.cast(str, k.arg)] = k.value
                defaults = dict(zip(reversed(params), reversed(a.defaults)))
                defaults.update({x.arg: d for x, d in zip(a.kwonlyargs, a.kw_defaults) if d is not None})
                for prm in params + kwonly:
                    if prm not in vals:
                        if prm not in defaults:
                            raise Undecided(f'{c.name}.{name}: cannot bind the arguments of `{short(v)}`')
                        vals[prm] = defaults[prm]
                inner_params = {x.arg for x in inner.args.posonlyargs + inner.args.args + inner.args.kwonlyargs}
                stores = {n.id for n in ast.walk(inner) if isinstance(n, ast.Name) and isinstance(n.ctx, ast.Store)}
                if (inner_params | stores) & set(vals) or any(isinstance(n, (ast.Nonlocal, ast.Global)) for n in ast.walk(inner)):
                    raise Undecided(f'{c.name}.{name}: the closure returned by `{fac.name}` rebinds a parameter of its factory')
                pre = [ast.Assign(targets=[ast.Name(id=k, ctx=ast.Store())], value=copy.deepcopy(val)) for k, val in vals.items()]
                fn = ast.FunctionDef(name=name, args=inner.args, body=pre + list(inner.body), decorator_list=[], returns=None, type_comment=None)
                return T.cast(ast.FunctionDef, ast.fix_missing_locations(fn))
        raise Undecided(f'{c.name}: the class-level binding `{name} = {short(v)}` is not read as a method')

    def arg_value(self, a: ast.AST, env: T.Dict[str, T.Any]) -> T.Any:
        if isinstance(a, ast.Name) and a.id == 'self':
            return ('self',)
        if isinstance(a, ast.Name) and a.id in env:
            return env[a.id]
        return self.desig(a, env)

    def method_lasts(self, name: str, after: T.Optional[ast.ClassDef], depth: int, call: T.Optional[ast.Call] = None,
                     env: T.Optional[T.Dict[str, T.Any]] = None) -> T.Set[Desig]:
        from .c16_sym import bind_args
        if depth > 6:
            raise Undecided(f'{self.cls.name}: traversal delegation through {name} is nested too deeply')
        r = self.find(name, after)
        if r is None:
            raise Undecided(f'{self.cls.name}: method {name} not found in the class hierarchy of the printer')
        _, c, fn = r
        static = 'staticmethod' in [attr_chain(d) for d in fn.decorator_list]
        if call is None:
            ps = [a.arg for a in fn.args.args if a.arg not in ('self', 'cls')]
            if len(ps) != 1:
                raise Undecided(f'{c.name}.{name}: a traversal method with {len(ps)} parameters is not read')
            return self.seq(fn.body, {ps[0]: _NODE}, c, depth + 1)
        m = bind_args(fn, call, not static)
        if m is None:
            raise Undecided(f'{c.name}.{name}: cannot bind the arguments of `{short(call)}`')
        return self.seq(fn.body, {k: self.arg_value(v, env or {}) for k, v in m.items()}, c, depth + 1)

    def scope_parts(self, e: ast.AST, env: T.Dict[str, T.Any], depth: int) -> T.Tuple[T.List[ast.stmt], T.List[ast.stmt]]:
        """(statements run on entry, statements run on normal exit) of the context manager expression `e` of a `with`: a
        @contextmanager generator method (split at its yield) or an object of a class with __enter__/__exit__, built directly or
        by a one-expression factory method; parameters and fields are renamed apart and bound in env."""
        from .c16_sym import bind_args, helper_expression
        if depth > 4 or not isinstance(e, ast.Call):
            raise Undecided(f'{self.cls.name}: the context manager `{short(e)}` of a traversal is not read')
        tag = f'_s{depth}_{len(env)}_'

        def rename(stmts: T.List[ast.stmt], vals: T.Dict[str, T.Any], fields: bool) -> T.List[ast.stmt]:
            class _R(ast.NodeTransformer):
                def visit_Attribute(self, n: ast.Attribute) -> ast.AST:
                    if fields and isinstance(n.value, ast.Name) and n.value.id == 'self' and n.attr in vals:
                        return ast.Name(id='self' if vals[n.attr] == ('self',) else tag + n.attr, ctx=ast.Load())
                    return self.generic_visit(n)

                def visit_Name(self, n: ast.Name) -> ast.AST:
                    if not fields and n.id in vals:
                        return ast.Name(id='self' if vals[n.id] == ('self',) else tag + n.id, ctx=n.ctx)
                    return n
            for k, v in vals.items():
                if v != ('self',):
                    env[tag + k] = v
            return [T.cast(ast.stmt, ast.fix_missing_locations(_R().visit(copy.deepcopy(x)))) for x in stmts]

        f = e.func
        fn: T.Optional[ast.FunctionDef] = None
        if isinstance(f, ast.Attribute) and attr_chain(f.value) == 'self':
            r = self.find(f.attr, None)
            if r is not None:
                fn = r[2]
        if fn is not None:
            m = bind_args(fn, e, 'staticmethod' not in [attr_chain(d) for d in fn.decorator_list])
            if m is None:
                raise Undecided(f'{self.cls.name}: cannot bind the arguments of `{short(e)}`')
            vals = {k: self.arg_value(v, env) for k, v in m.items()}
            if any((attr_chain(d) or '').split('.')[-1] == 'contextmanager' for d in fn.decorator_list):
                body = list(fn.body)
                pre: T.List[ast.stmt] = []
                post: T.List[ast.stmt] = []
                found = False
                for i, st in enumerate(body):
                    if isinstance(st, ast.Expr) and isinstance(st.value, ast.Yield):
                        pre, post, found = body[:i], body[i + 1:], True
                    elif isinstance(st, ast.Try) and any(isinstance(x, ast.Expr) and isinstance(x.value, ast.Yield) for x in st.body):
                        j = next(k for k, x in enumerate(st.body) if isinstance(x, ast.Expr) and isinstance(x.value, ast.Yield))
                        pre, post, found = body[:i] + st.body[:j], st.body[j + 1:] + st.orelse + st.finalbody + body[i + 1:], True
                if not found or sum(isinstance(x, ast.Yield) for x in ast.walk(fn)) != 1:
                    raise Undecided(f'{self.cls.name}: the generator `{fn.name}` used as a traversal scope is not split at a single yield')
                return rename(pre, vals, False), rename(post, vals, False)
            he = helper_expression(fn)
            if he is None:
                raise Undecided(f'{self.cls.name}: the scope factory `{fn.name}` is not a single expression')
            inner = rename([ast.Expr(value=T.cast(ast.expr, he))], vals, False)[0]
            return self.scope_parts(T.cast(ast.Expr, inner).value, env, depth + 1)
        nm = attr_chain(f)
        rc = None
        for mm in ([self.mod] + [x[0] for x in self.mro]) if nm else []:
            rc = self.ctx.repo.resolve_class(mm, nm)
            if rc is not None:
                break
        if rc is None:
            raise Undecided(f'{self.cls.name}: the context manager `{short(e)}` of a traversal is not read')
        cm, cc = rc
        meths = {x.name: x for x in cc.body if isinstance(x, ast.FunctionDef)}
        if not {'__init__', '__enter__', '__exit__'} <= set(meths):
            raise Undecided(f'{self.cls.name}: the scope class {cc.name} does not define __init__/__enter__/__exit__ itself')
        m = bind_args(meths['__init__'], e, True)
        if m is None:
            raise Undecided(f'{self.cls.name}: cannot bind the arguments of `{short(e)}`')
        pvals = {k: self.arg_value(v, env) for k, v in m.items()}
        fvals: T.Dict[str, T.Any] = {}
        for st in meths['__init__'].body:
            if isinstance(st, (ast.Assign, ast.AnnAssign)) and st.value is not None:
                tg = st.targets[0] if isinstance(st, ast.Assign) else st.target
                if isinstance(tg, ast.Attribute) and attr_chain(tg.value) == 'self' and isinstance(st.value, ast.Name) and st.value.id in pvals:
                    fvals[tg.attr] = pvals[st.value.id]
        return rename(list(meths['__enter__'].body), fvals, True), rename(list(meths['__exit__'].body), fvals, True)

    def seq(self, stmts: T.List[ast.stmt], env: T.Dict[str, T.Any], owner: ast.ClassDef, depth: int,
            cur: T.Optional[T.Set[Desig]] = None) -> T.Set[Desig]:
        cur = {_EMPTY} if cur is None else set(cur)
        for st in stmts:
            r = self.stmt(st, env, owner, depth)
            cur = (r - {_EMPTY}) | (cur if _EMPTY in r else set())
        return cur

    def stmt(self, st: ast.stmt, env: T.Dict[str, T.Any], owner: ast.ClassDef, depth: int) -> T.Set[Desig]:
        if isinstance(st, (ast.Assign, ast.AnnAssign)) and st.value is not None and not self._emits(st.value):
            tg = st.targets[0] if isinstance(st, ast.Assign) and len(st.targets) == 1 else (st.target if isinstance(st, ast.AnnAssign) else None)
            if isinstance(tg, ast.Name):
                v = st.value
                d: T.Any = self.desig(v, env)
                if d is None and isinstance(v, ast.Call) and attr_chain(v.func) == 'iter' and len(v.args) == 1:
                    x = self.elements(v.args[0], env)
                    d = ('iter', x[1]) if isinstance(x, tuple) and x and x[0] == 'last' else None
                elif d is None and isinstance(v, ast.Call) and attr_chain(v.func) == 'next' and v.args and isinstance(v.args[0], ast.Name):
                    x = env.get(v.args[0].id)
                    d = ('any', x[1]) if isinstance(x, tuple) and x and x[0] == 'iter' else None
                elif d is None and isinstance(v, (ast.Tuple, ast.List)):
                    d = ('display', self.elements(v, env))
                elif d is None and isinstance(v, ast.Constant) and isinstance(v.value, str):
                    d = ('const', v.value)
                env[tg.id] = d
            elif tg is not None:
                self.bind(tg, None, env)
            return {_EMPTY}
        if not self._emits(st):
            return {_EMPTY}
        if isinstance(st, ast.Expr) and isinstance(st.value, ast.Call) and isinstance(st.value.func, ast.Attribute):
            c = st.value
            f = T.cast(ast.Attribute, c.func)
            if f.attr == 'accept' and len(c.args) == 1 and attr_chain(c.args[0]) == 'self':
                d = self.desig(f.value, env)
                if d is None:
                    raise Undecided(f'{owner.name}: cannot tell which child `{short(st)}` emits')
                return {_EMPTY} if d == ('attr', 'whitespaces') else {d}         # the node's own trailing trivia: the destination of a move
            recv = attr_chain(f.value)
            is_super = isinstance(f.value, ast.Call) and attr_chain(f.value.func) == 'super'
            if recv == 'self' or is_super:
                return self.method_lasts(f.attr, owner if is_super else None, depth, c, env)
        if isinstance(st, ast.For) and not st.orelse:
            env2 = dict(env)
            self.bind(st.target, self.elements(st.iter, env), env2)
            it = st.iter
            if isinstance(it, ast.Name) and isinstance(env.get(it.id), tuple) and env[it.id][0] == 'display':
                runs = True
            else:
                runs = isinstance(it, (ast.Tuple, ast.List)) and any(not isinstance(e, ast.Starred) for e in it.elts)
            return self.seq(st.body, env2, owner, depth) | (set() if runs else {_EMPTY})
        if isinstance(st, ast.If) and not self._emits(st.test):
            return self.seq(st.body, dict(env), owner, depth) | self.seq(st.orelse, dict(env), owner, depth)
        if isinstance(st, ast.Try):
            out = self.seq(st.body + st.orelse, dict(env), owner, depth)
            for h in st.handlers:
                for k in range(len(st.body)):
                    e2 = dict(env)
                    out |= self.seq(h.body, e2, owner, depth, self.seq(st.body[:k], e2, owner, depth))
            if st.finalbody:
                out = self.seq(st.finalbody, dict(env), owner, depth, out)
            return out
        if isinstance(st, ast.With):
            pre: T.List[ast.stmt] = []
            post: T.List[ast.stmt] = []
            for i in st.items:
                if self._emits(i.context_expr):
                    a, b = self.scope_parts(i.context_expr, env, 0)
                    pre, post = pre + a, b + post
            return self.seq(pre + st.body + post, env, owner, depth)
        raise Undecided(f'{owner.name}: the traversal statement `{short(st)}` is not read')


def _desig_text(d: Desig) -> str:
    return {'attr': lambda: f'<node>.{d[1]}', 'last': lambda: f'last of <node>.{d[1]}', 'any': lambda: f'an element of <node>.{d[1]}',
            'first': lambda: f'first of <node>.{d[1]}', 'index': lambda: f'<node>.{d[1]}[{d[2]}]', 'empty': lambda: 'nothing'}[d[0]]()


def _source_designators(e: ast.AST, env: T.Dict[str, T.Any], inl: _Inline, depth: int) -> T.Set[T.Optional[Desig]]:
    """Children a move may take the trivia from: both arms of a conditional, the expression of a selecting helper (inlined),
    `list(<children>)[-1]`; None for anything that is not an access path of the visited node."""
    if depth > 4:
        return {None}
    if isinstance(e, ast.IfExp):
        return _source_designators(e.body, env, inl, depth + 1) | _source_designators(e.orelse, env, inl, depth + 1)
    if isinstance(e, ast.Call) and attr_chain(e.func) not in ('getattr',):
        r = inl.resolve(e)
        return _source_designators(r, env, inl, depth + 1) if r is not None else {None}
    if isinstance(e, ast.Subscript) and isinstance(e.value, ast.Call) and attr_chain(e.value.func) in ('list', 'tuple') and len(e.value.args) == 1:
        el = _PrintOrder.elements(e.value.args[0], env)
        k = norm(e.slice)
        if isinstance(el, tuple) and el and el[0] == 'last':
            return {el if k == '-1' else (('first', el[1]) if k == '0' else None)}
        return {None}
    return {_PrintOrder.desig(e, env)}


def r8(ctx: RuleCtx) -> None:
    """A whitespace mover m(src, node) prepends the trivia of src to the trivia of the visited node, which the printer emits after
    every child of the node.  So src must be a child that the printer can emit last for that node class; otherwise the comments
    (and line breaks) that followed src in the source are re-emitted behind the children that come after it."""
    from .c16_sym import stmt_of
    pr = ctx.repo.resolve_class(ctx.repo.module(MF), 'RawPrinter')
    if pr is None:
        raise Undecided('the printer class RawPrinter is not found')
    order = _PrintOrder(ctx, pr[0], pr[1])
    # built-in positive example: for a visit that emits a, b, c in this order only c can be last
    ex = ast.parse('def visit_X(self, node):\n    self.enter_node(node)\n    for n in (node.a, node.b):\n        n.accept(self)\n    if node.c:\n        node.c.accept(self)\n').body[0]
    got = order.seq(T.cast(ast.FunctionDef, ex).body[1:], {'node': _NODE}, pr[1], 0)
    if got != {('attr', 'b'), ('attr', 'c')}:
        raise Undecided(f'built-in example of the last-child reading gives {sorted(got)}')
    n_sites = 0
    skipped = 0
    for p in _passes(ctx):
        movers = _movers(p)
        if not movers:
            continue
        inl = _Inline(ctx, p)
        for mn, fn in _methods(p).items():
            if mn in movers or not mn.startswith('visit_'):
                continue
            ps = [a.arg for a in fn.args.args if a.arg not in ('self', 'cls')]
            if len(ps) != 1:
                continue
            x = ps[0]
            qn = f'{p.name}.{mn}'
            for c in ast.walk(fn):
                ma = _mover_args(p, c, movers) if isinstance(c, ast.Call) else None
                if ma is None:
                    continue
                site = stmt_of(fn, c)
                if _canon_at(fn, site, ma[1]) != {x}:
                    skipped += 1          # moved onto a child, not onto the visited node: another obligation
                    continue
                n_sites += 1
                srcs: T.Set[T.Optional[Desig]] = set()
                for txt in _canon_at(fn, site, ma[0]):
                    e = ast.parse(txt, mode='eval').body
                    env: T.Dict[str, T.Any] = {x: _NODE}
                    if isinstance(e, ast.Name) and e.id != x:
                        # a loop variable that survives its loop: the element of the last iteration
                        loops = [l for l in ast.walk(fn) if isinstance(l, ast.For) and any(isinstance(t, ast.Name) and t.id == e.id for t in ast.walk(l.target))]
                        if len(loops) == 1:
                            _PrintOrder.bind(loops[0].target, _PrintOrder.elements(loops[0].iter, env), env)
                    srcs |= _source_designators(e, env, inl, 0)
                if None in srcs or not srcs:
                    raise Undecided(f'{qn}: cannot tell which child `{short(site)}` takes the whitespace from')
                lasts = order.method_lasts(mn, None, 0)
                real = sorted(l for l in lasts if l != _EMPTY)
                for s in sorted(srcs):            # type: ignore[type-var]
                    assert s is not None
                    ok = s in lasts or (s[0] == 'last' and ('any', s[1]) in lasts)
                    if not ok and s[0] == 'any':
                        raise Undecided(f'{qn}: `{short(site)}` moves the trivia of an element of <node>.{s[1]} at an unknown position')
                    ctx.require(ok, f'{qn}: trivia moved onto the node comes from {_desig_text(s)}, which the printer emits last', p.mod, qn,
                                f'trivia of {_desig_text(s)} moved behind the node',
                                f'`{short(site)}` moves the trivia that followed {_desig_text(s)} to the end of the node, but {pr[1].name}.{mn} emits '
                                f'{", ".join(_desig_text(l) for l in real) or "no child"} last: comments and line breaks would be re-emitted behind the children '
                                f'that follow {_desig_text(s)}', site)
    ctx.note(f'{n_sites} moves onto the visited node checked; {skipped} moves onto a child are outside this rule')
    ctx.floor('whitespace moves onto the visited node', n_sites, 12)


# ---------------------------------------------------------------------------
# R9: a whitespace mover stores into the destination before, not after, the visit that re-normalises it

def _stores_after_visit(fn: ast.FunctionDef, dst: str, fields: T.Set[str]) -> T.Tuple[int, T.List[T.Tuple[ast.stmt, str, ast.stmt]]]:
    """(number of stores into `<dst>.whitespaces.<field>` for a field the whitespace visit reads, [(store, field, visit)] for the
    stores that a visit `<dst>.whitespaces.accept(self)` can reach in the CFG).  Single-definition locals are resolved."""
    single: T.Dict[str, T.List[ast.AST]] = {}
    for st in ast.walk(fn):
        if isinstance(st, ast.Assign) and len(st.targets) == 1 and isinstance(st.targets[0], ast.Name):
            single.setdefault(st.targets[0].id, []).append(st.value)
    params = [a.arg for a in fn.args.args]
    binds = {k: v[0] for k, v in single.items() if len(v) == 1 and k not in params}
    for _ in range(3):
        binds = {k: subst(v, {a: b for a, b in binds.items() if a != k}) for k, v in binds.items()}
    cfg = CFG(fn)
    ws = f'{dst}.whitespaces'
    visits, stores = [], []
    for n in cfg.nodes:
        st = n.ast
        if n.kind != 'stmt' or st is None:
            continue
        if isinstance(st, ast.Expr) and isinstance(st.value, ast.Call) and isinstance(st.value.func, ast.Attribute):
            c = st.value
            if c.func.attr == 'accept' and norm(subst(c.func.value, binds)) == ws:            # type: ignore[attr-defined]
                visits.append(n)
            elif c.func.attr == 'visit_WhitespaceNode' and len(c.args) == 1 and norm(subst(c.args[0], binds)) == ws:       # type: ignore[attr-defined]
                visits.append(n)
        if isinstance(st, (ast.Assign, ast.AugAssign, ast.AnnAssign)):
            tgts = st.targets if isinstance(st, ast.Assign) else [st.target]
            for t in tgts:
                if isinstance(t, ast.Attribute) and t.attr in fields and norm(subst(t.value, binds)) == ws:
                    stores.append((n, t.attr))
    late = [(T.cast(ast.stmt, sn.ast), f, T.cast(ast.stmt, v.ast)) for sn, f in stores for v in visits if cfg.can_reach(v, sn, no_exc=True)]
    return (len(stores) if visits else 0), late


def r9(ctx: RuleCtx) -> None:
    """The mover ends with a visit of the destination whitespace that normalises its text and derives its state from the fields it
    reads (text, continuation flag).  A store into one of these fields that the visit can reach in the control-flow graph means
    the visit ran on stale input and its result is overwritten: the next run of the formatter sees another state (not idempotent)."""
    ex = T.cast(ast.FunctionDef, ast.parse('def m(self, a, b):\n    b.whitespaces.value = a.whitespaces.value + b.whitespaces.value\n    w = b.whitespaces\n'
                                           '    w.accept(self)\n    w.flag = a.whitespaces.flag\n').body[0])
    n_ex, late_ex = _stores_after_visit(ex, 'b', {'value', 'flag'})
    if n_ex != 2 or [f for _, f, _ in late_ex] != ['flag']:
        raise Undecided(f'built-in example of the store-after-visit reading gives {n_ex} stores, late {[f for _, f, _ in late_ex]}')
    n = 0
    for p in _passes(ctx):
        movers = _movers(p)
        if not movers:
            continue
        r = ctx.repo.find_method(p.mod, p.cls, 'visit_WhitespaceNode')
        if r is None:
            continue
        vfn = r[2]
        x = _first_param(T.cast(ast.FunctionDef, vfn))
        fields = {a.attr for a in ast.walk(vfn) if isinstance(a, ast.Attribute) and isinstance(a.ctx, ast.Load) and isinstance(a.value, ast.Name) and a.value.id == x}
        for name, (i, j) in movers.items():
            fn = _methods(p)[name]
            ps = [a.arg for a in fn.args.args if a.arg != 'self']
            qn = f'{p.name}.{name}'
            cnt, late = _stores_after_visit(fn, ps[j], fields)
            n += cnt
            bad = {id(st) for st, _, _ in late}
            for st, f, v in late:
                ctx.violation(p.mod, qn, f'store into the destination whitespace field `{f}` after its re-normalising visit',
                              f'`{short(st, 70)}` can run after `{short(v, 50)}`: {r[1].name}.visit_WhitespaceNode reads `{f}` to normalise the merged whitespace '
                              f'and derive its state, so the visit used the stale `{f}` and what it derived is overwritten (a second format run sees another state)', st)
            if cnt:
                ctx.ok(f'{qn}: {cnt - len(bad)} store(s) into the fields of the destination whitespace that the visit reads ({", ".join(sorted(fields))}) precede the visit')
    ctx.floor('stores of a mover into fields the whitespace visit reads', n, 1)


def _scoped(fn: T.Callable[[RuleCtx], None]) -> T.Callable[[RuleCtx], None]:
    def run(ctx: RuleCtx) -> None:
        from . import c16_sym
        try:
            fn(ctx)
        finally:
            c16_sym.INLINER = None
            c16_sym.CONSTS = None
    return run


RULES = [
    Rule('C16.R1', 'formatter passes write only layout state; semantic rewrites only under their guards', _scoped(r1)),
    Rule('C16.R2', 'literal simplification is guarded against every character that changes meaning', _scoped(r2)),
    Rule('C16.R3', 'whitespace content holding a comment is never discarded', _scoped(r3)),
    Rule('C16.R4', 'check mode reports a difference iff the written text would differ', _scoped(r4)),
    Rule('C16.R6', 'the printer emits the undecoded token text of a plain string literal', _scoped(r6)),
    Rule('C16.R7', 'every option is read from the configuration file with the getter of its declared type', _scoped(r7)),
    Rule('C16.R5', 'files() arguments are sorted after, not before, the argument list is replaced', _scoped(r5)),
    Rule('C16.R8', 'trivia moved up onto a node comes from the child the printer emits last', _scoped(r8)),
    Rule('C16.R9', 'a whitespace mover stores into the destination before the visit that re-normalises it', _scoped(r9)),
]
